"""
C01 -- converged power flow satisfies the AC network equations of the input data.

Expression part: the residual strings of Line, PQ, PV, Slack, Shunt on the live model objects equal an independent
textbook complex-power spec (pi-model with off-nominal tap and phase shift on the from side), for all values.
Function part (C01_pflow): PFlow.nr_step / nr_solve / run success => tested mismatch < tol; residual assembly.
"""
from contracts import specutil as U
from pyvc.report import Pack

LINE_DEFS = [
    ('Yh_', '(g1 + g/2) + 1j*(b1 + b/2)'),
    ('Yk_', '(g2 + g/2) + 1j*(b2 + b/2)'),
    ('Ys_', '1/((r + 1e-8) + 1j*(x + 1e-8))'),
    ('th_', 'a1 - a2 - phi'),
    # S1 = V1 conj(I1), I1 = (Yh+Ys) V1/|m|^2 - Ys V2/conj(m);  S2 = V2 conj(I2), I2 = (Yk+Ys) V2 - Ys V1/m,
    # m = tap*exp(j phi); V1 conj(V2) = v1 v2 exp(j(a1-a2))
    ('S1_', 'v1**2 * conj(Yh_ + Ys_) / tap**2 - v1*v2*exp(1j*th_) * conj(Ys_) / tap'),
    ('S2_', 'v2**2 * conj(Yk_ + Ys_) - v1*v2*exp(-1j*th_) * conj(Ys_) / tap'),
]
LINE_PRE = ['u*(u - 1) == 0', 'tap != 0']

ZIP_DEFS = []


def run(tier, seed):
    pack = Pack('C01', tier, seed)
    pack.trust('service values equal their declared v_str (discharged for the generated code in C02)',
               'limiter flags of PQ.vcmp / PV.qlim / Slack.plim follow the Limiter contract (C09); the in-band case '
               'zi=1, zl=zu=0 is the one compared with the textbook load / set-point equations')
    pack.assume('Line model regularisation: series impedance is (r+1e-8) + j(x+1e-8), as declared in the model',
                'connection status u is 0 or 1',
                'not decided: Newton convergence from a flat start (liveness); the last Newton update is not re-tested '
                '(A-newton); order/idx-type independence only through C10/C19 and commutativity of addition',
                'phasor algebra V1*conj(V2) = v1 v2 exp(j(a1-a2)) is used in the spec (angle-difference form)')
    ss = U.system()
    line = ss.Line
    subs = U.service_subs(line)
    cplx = ['yh', 'yk', 'yhk']
    F = 'andes/models/line/line.py'
    obl = [
        ('a1', 'u * re(S1_)', 'P_from = Re(V1 conj(I1))'),
        ('v1', 'u * im(S1_)', 'Q_from = Im(V1 conj(I1))'),
        ('a2', 'u * re(S2_)', 'P_to = Re(V2 conj(I2))'),
        ('v2', 'u * im(S2_)', 'Q_to = Im(V2 conj(I2))'),
    ]
    n = 0
    for var, spec, doc in obl:
        declared = getattr(line, var).e_str
        name = 'C01/%s:Line.%s.e_str/post[%s]' % (F, var, doc)
        r = U.spec_equal(name, declared, spec, pre=LINE_PRE, subs=subs, cplx=cplx, defs=LINE_DEFS,
                         meta={'model': 'Line', 'var': var})
        U.settle_spec(pack, r, declared, spec, subs, LINE_DEFS, cplx, LINE_PRE)
        n += 1
    pack.add_function('Line.__init__ (a1,v1,a2,v2 e_str + gh,bh,gk,bk,yhk,ghk,bhk,itap,itap2 services)', F, obligations=n)

    # ---- PQ: constant power in the voltage band during power flow; ZIP decomposition afterwards
    pq = ss.PQ
    subs = U.service_subs(pq)
    F = 'andes/models/static/pq.py'
    inband = ['vcmp_zi == 1', 'vcmp_zl == 0', 'vcmp_zu == 0', 'u*(u-1) == 0']
    cases = [
        ('a', 'u * p0', inband + ['dae_t < 0'], 'P_load = p0 (power flow, in band)'),
        ('v', 'u * q0', inband + ['dae_t < 0'], 'Q_load = q0 (power flow, in band)'),
        ('a', 'u * p0 * v**2 / vmin**2', ['vcmp_zi == 0', 'vcmp_zl == 1', 'vcmp_zu == 0', 'dae_t < 0', 'vmin != 0'],
         'P_load = p0 (v/vmin)^2 below vmin'),
        ('a', 'u * p0 * v**2 / vmax**2', ['vcmp_zi == 0', 'vcmp_zl == 0', 'vcmp_zu == 1', 'dae_t < 0', 'vmax != 0'],
         'P_load = p0 (v/vmax)^2 above vmax'),
        ('v', 'u * q0 * v**2 / vmin**2', ['vcmp_zi == 0', 'vcmp_zl == 1', 'vcmp_zu == 0', 'dae_t < 0', 'vmin != 0'],
         'Q_load = q0 (v/vmin)^2 below vmin'),
        ('v', 'u * q0 * v**2 / vmax**2', ['vcmp_zi == 0', 'vcmp_zl == 0', 'vcmp_zu == 1', 'dae_t < 0', 'vmax != 0'],
         'Q_load = q0 (v/vmax)^2 above vmax'),
        ('a', 'u * p0 * (p2p + p2i * v / v0 + p2z * (v / v0)**2)', inband + ['dae_t >= 0', 'v0 != 0'],
         'ZIP load P(v) in time domain'),
        ('v', 'u * q0 * (q2q + q2i * v / v0 + q2z * (v / v0)**2)', inband + ['dae_t >= 0', 'v0 != 0'],
         'ZIP load Q(v) in time domain'),
    ]
    n = 0
    for var, spec, pre, doc in cases:
        declared = getattr(pq, var).e_str
        name = 'C01/%s:PQ.%s.e_str/post[%s]' % (F, var, doc)
        r = U.spec_equal(name, declared, spec, pre=pre, subs=subs, meta={'model': 'PQ', 'var': var})
        U.settle_spec(pack, r, declared, spec, subs, None, (), pre)
        n += 1
    pack.add_function('PQ.__init__ (a, v e_str + Ppf,Qpf,Req,Xeq,Ipeq,Iqeq,Rub,Rlb,Xub,Xlb services)', F, obligations=n)

    # ---- PV / Slack: injections and set-point equations
    for mname, F in (('PV', 'andes/models/static/pv.py'), ('Slack', 'andes/models/static/slack.py')):
        m = getattr(ss, mname)
        subs = U.service_subs(m)
        cases = [
            ('a', '-u * p', [], 'generator injects p into the bus P balance'),
            ('v', '-u * q', [], 'generator injects q into the bus Q balance'),
            ('q', 'u * (v0 - v)', ['qlim_zi == 1', 'qlim_zl == 0', 'qlim_zu == 0'],
             'voltage-controlled bus sits at its set-point (no Q limit active)'),
            ('q', 'u * (qmin - q)', ['qlim_zi == 0', 'qlim_zl == 1', 'qlim_zu == 0'], 'Q pegged at qmin'),
            ('q', 'u * (qmax - q)', ['qlim_zi == 0', 'qlim_zl == 0', 'qlim_zu == 1'], 'Q pegged at qmax'),
        ]
        if mname == 'Slack':
            cases += [
                ('p', 'u * (a0 - a)', ['plim_zi == 1', 'plim_zl == 0', 'plim_zu == 0'],
                 'slack bus sits at its reference angle (no P limit active)'),
                ('p', 'u * (pmin - p)', ['plim_zi == 0', 'plim_zl == 1', 'plim_zu == 0'], 'P pegged at pmin'),
                ('p', 'u * (pmax - p)', ['plim_zi == 0', 'plim_zl == 0', 'plim_zu == 1'], 'P pegged at pmax'),
            ]
        else:
            # PV: p is a ConstService with v_str 'p0' (substituted): the injection is the scheduled power
            cases += [('a', '-u * p0', [], 'PV active power injection is its schedule p0')]
        n = 0
        for var, spec, pre, doc in cases:
            declared = getattr(m, var).e_str
            name = 'C01/%s:%s.%s.e_str/post[%s]' % (F, mname, var, doc)
            r = U.spec_equal(name, declared, spec, pre=pre, subs=subs, meta={'model': mname, 'var': var})
            U.settle_spec(pack, r, declared, spec, subs, None, (), pre)
            n += 1
        pack.add_function('%s.__init__ (a, v, p, q e_str)' % mname, F, obligations=n)

    # ---- Shunt: S = V conj(Y V) = v^2 (g - j b)
    sh = ss.Shunt
    F = 'andes/models/shunt/shunt.py'
    n = 0
    for var, spec, doc in (('a', 'u * re(v**2 * conj(g + 1j*b))', 'P_shunt = Re(v^2 conj(Y))'),
                           ('v', 'u * im(v**2 * conj(g + 1j*b))', 'Q_shunt = Im(v^2 conj(Y))')):
        declared = getattr(sh, var).e_str
        name = 'C01/%s:Shunt.%s.e_str/post[%s]' % (F, var, doc)
        r = U.spec_equal(name, declared, spec, meta={'model': 'Shunt', 'var': var})
        U.settle_spec(pack, r, declared, spec)
        n += 1
    pack.add_function('ShuntModel.__init__ (a, v e_str)', F, obligations=n)

    from contracts import C01_pflow
    C01_pflow.add_obligations(pack, tier)
    # the balance is demanded at the buses that are not islanded: the island sets are the components of the in-service branch graph
    from contracts.packutil import connectivity_premise
    connectivity_premise(pack, 'C01')
    return pack.finish()
