"""Residual assembly (C01, also C09 write-back): System._e_to_dae and System.fg_to_dae."""
import z3

from pyvc.symex import Contract, Loop, spec, View, to_z3, as_real
from pyvc.symval import (TArr, TBool, TInt, TObj, TOpaque, TReal, TSeq, TStr, TConst, NR, fresh, I, R, Func, Opaque, Module, Ref,
                         ArrC, ListC, DictC, Unsupported, Obj, TColl, Coll)
from contracts.packutil import run_contracts

FS = 'andes/system.py'


def e_to_dae(pid):
    """System._e_to_dae: every adder of equation class <name> is accumulated (np.add.at: duplicates add up) into dae.<name> at
    its own addresses with its own values; every setter overwrites (np.put) -- f and g never mixed."""
    sch = {'self.dae.f': TArr(), 'self.dae.g': TArr()}
    for kind in ('adders', 'setters'):
        for nm in ('f', 'g'):
            E = 'self.%s_%s.$e' % (kind, nm)
            sch['self.%s_%s' % (kind, nm)] = TColl()
            sch[E + '.a'] = TArr(kind='int')
            sch[E + '.e'] = TArr()

    def check(fn_name, kind):
        def h(ex, st, args, kw, node):
            name = st.env['name']
            var = st.env['var']
            arr, a, e = args
            ok = (isinstance(arr, Ref) and arr.loc == st.load('self.dae.' + name).loc and isinstance(var, Obj)
                  and var.path == 'self.%s_%s.$e' % (kind, name) and a.loc == st.load(var.path + '.a').loc
                  and e.loc == st.load(var.path + '.e').loc)
            ex.oblige(st, 'pre@call:%s:%s-of-class-<%s>-go-into-dae.%s-at-var.a-with-var.e' % (fn_name, kind, name, name),
                      z3.BoolVal(bool(ok)), {})
            st.ghost['calls'] = st.ghost['calls'] + [(fn_name, kind, name)]
            return None
        return h

    def post(old, new, res):
        calls = set(new.st.ghost['calls'])
        return z3.BoolVal(calls <= {('np.add.at', 'adders', 'f'), ('np.add.at', 'adders', 'g'), ('np.put', 'setters', 'f'),
                                    ('np.put', 'setters', 'g')})
    c = Contract(FS, 'System._e_to_dae', pid=pid, params={'self': TObj(), 'eq_name': TConst(('f', 'g'))}, schema=sch,
                 ghost_init={'calls': []},
                 calls={'np.add.at': check('np.add.at', 'adders'), 'np.put': check('np.put', 'setters')},
                 loops={1: Loop(inv=[], frame=['$var', 'ghost:calls']), 2: Loop(inv=[], frame=['$var', 'ghost:calls'])},
                 ensures=[('adders-accumulate,setters-overwrite,per-equation-class', post)], modifies=['self.dae.f', 'self.dae.g'])

    def pre_state(st):
        st.heap['self._adders'] = st.new_ref(DictC({'f': st.load('self.adders_f'), 'g': st.load('self.adders_g')}), 'adders')
        st.heap['self._setters'] = st.new_ref(DictC({'f': st.load('self.setters_f'), 'g': st.load('self.setters_g')}), 'setters')
    c.pre_state = pre_state
    c.merge = False
    return c


def fg_to_dae(pid):
    """System.fg_to_dae: residuals collected (f and g), islanded rows neutralised, then every pegged state written back into
    dae.x at its address with its clamped value."""
    E = 'self.antiwindups.$e'

    def put(ex, st, args, kw, node):
        arr, key, val = args
        ok = isinstance(arr, Ref) and arr.loc == st.load('self.dae.x').loc
        ex.oblige(st, 'pre@call:np.put:pegged-value-(not-the-equation-value)-written-into-dae.x-at-its-address',
                  z3.And(z3.BoolVal(bool(ok)), z3.BoolVal(key is st.load(E + '.x_set.$e.f0') and val is st.load(E + '.x_set.$e.f1'))), {})
        return None

    def seq(ex, st, name):
        st.ghost['order'] = st.ghost['order'] + [name]
    c = Contract(FS, 'System.fg_to_dae', pid=pid, params={'self': TObj()},
                 schema={'self.dae.x': TArr(), 'self.antiwindups': TColl(), E + '.x_set': TColl(), E + '.x_set.$e.f0': TArr(kind='int'),
                         E + '.x_set.$e.f1': TArr(), E + '.x_set.$e.f2': TReal()},
                 ghost_init={'order': []},
                 calls={'self._e_to_dae': lambda ex, st, a, k, n: (seq(ex, st, ('_e_to_dae', a[0])), None)[1],
                        'self.g_islands': lambda ex, st, a, k, n: (seq(ex, st, ('g_islands',)), None)[1],
                        'np.put': put},
                 loops={0: Loop(inv=[], frame=['$item', '$key', '$val', '$_', E + '.*']), 1: Loop(inv=[], frame=['$key', '$val', '$_'])},
                 ensures=[('collect-f-and-g,then-neutralise-islands', lambda old, new, res: z3.BoolVal(
                     new.st.ghost['order'][:2] == [('_e_to_dae', ('f', 'g')), ('g_islands',)]))],
                 modifies=['self.dae.x'])

    def pre_body(st):
        pass
    c.calls['<value>.__iter__'] = None
    return c


def vars_to_models(pid):
    """System.vars_to_models: every algebraic (state) variable that reads from the DAE gets dae.y (dae.x) at its own addresses,
    stored in place; x and y never mixed."""
    sch = {'self.dae.x': TArr(), 'self.dae.y': TArr()}
    for code in ('x', 'y'):
        E = 'self.getters_%s.$e' % code
        sch['self.getters_%s' % code] = TColl()
        sch[E + '.n'] = TInt()
        sch[E + '.a'] = TArr(kind='int')
        sch[E + '.v'] = TArr()

    def mk(code):
        E = 'self.getters_%s.$e' % code

        def snap(v):
            v.st.ghost['in_iter'] = True
            v.st.ghost['vloc'] = v.get(E + '.v').loc
            return z3.And(v.arr(E + '.a').n == v.z(E + '.n'), v.arr(E + '.v').n == v.z(E + '.n'), v.z(E + '.n') >= 0)

        def done(v):
            if not v.st.ghost.get('in_iter'):
                return True
            a, val, src = v.arr(E + '.a'), v.arr(E + '.v'), v.arr('self.dae.' + code)
            k = fresh('k', I)
            same_array = v.get(E + '.v').loc == v.st.ghost.get('vloc')        # stored in place: the array object is shared with the model
            return z3.And(z3.BoolVal(bool(same_array)),
                          z3.ForAll([k], z3.Implies(z3.And(k >= 0, k < a.n), val.vals[k] == src.vals[z3.ToInt(a.vals[k])])))
        return Loop(inv=[('v[k]=dae.%s[a[k]]-for-the-variable-just-processed,stored-in-place' % code, done)],
                    assume=[('one-address-and-one-value-per-device', snap)], frame=['$var', 'loc:' + E + '.v', E + '.*', 'ghost:in_iter', 'ghost:vloc'])
    c = Contract(FS, 'System.vars_to_models', pid=pid, params={'self': TObj()}, schema=sch,
                 loops={0: mk('y'), 1: mk('x')}, ensures=[], modifies=['self.getters_x.*', 'self.getters_y.*'])
    c.check_bounds = False
    c.merge = False

    def pre_state(st):
        st.heap['self._getters'] = st.new_ref(DictC({'x': st.load('self.getters_x'), 'y': st.load('self.getters_y')}), 'getters')
        st.ghost.pop('in_iter', None)
    c.pre_state = pre_state
    return c


def add_obligations(pack, tier, pid='C01'):
    pack.trust('np.add.at(a, idx, v) adds v[k] to a[idx[k]] for every k (duplicates accumulate); np.put(a, idx, v) stores')
    run_contracts(pack, [(e_to_dae(pid),), (fg_to_dae(pid), None, replay_fg_to_dae), (vars_to_models(pid),), (store_adder_setter(pid), None, replay_store_adder_setter)])


def store_adder_setter(pid):
    """System.store_adder_setter: for every model with devices, each variable of its v_getters / v_adders / e_adders / v_setters /
    e_setters is appended exactly once to the system list of the same role (getters / adders / setters) under the array code the
    VARIABLE itself declares for that role (v_code for values, e_code for equations); each anti-windup limiter is appended to
    antiwindups.  The lists are cleared first and the model cache is refreshed before it is read."""
    from pyvc.symval import Mark, Coll
    EM = 'models.$e'
    ROLES = [('v_getters', '_getters', 'v_code'), ('v_adders', '_adders', 'v_code'), ('e_adders', '_adders', 'e_code'),
             ('v_setters', '_setters', 'v_code'), ('e_setters', '_setters', 'e_code')]

    def getitem(ex, st, args, kw, node):
        base, sl = args
        if isinstance(base, Mark) and base.kind == 'registry':
            code = ex.ev(sl, st)
            return Mark('bucket', base.data[0], code.term if isinstance(code, Opaque) else code)
        return NotImplemented

    def append(ex, st, args, kw, node):
        base, item = args[0], args[1]
        if isinstance(base, Mark) and base.kind == 'bucket':
            ex.oblige(st, 'pre@call:append:the-model-cache-was-refreshed-before-its-lists-are-read', z3.BoolVal(bool(st.ghost.get('refreshed'))), {})
            st.ghost['appended'] = st.ghost['appended'] + [(base.data[0], base.data[1], getattr(item, 'path', None))]
            return None
        if isinstance(base, Mark) and base.kind == 'antiwindups':
            st.ghost['appended'] = st.ghost['appended'] + [('antiwindups', None, getattr(item, 'path', None))]
            return None
        return NotImplemented

    def reset(v):
        v.st.ghost['appended'] = []
        v.st.ghost['in_iter'] = True
        return True

    def once(src, dest, code):
        path = EM + '.cache.' + src + '.$e'

        def f(v):
            if not v.st.ghost.get('in_iter'):
                return True
            ap = v.st.ghost['appended']
            if len(ap) != 1 or ap[0][0] != dest or ap[0][2] != path:
                return False
            want = v.st.load(path + '.' + code).term
            return ap[0][1] == want if z3.is_expr(ap[0][1]) else z3.BoolVal(False)
        return f

    def aw(v):
        if not v.st.ghost.get('in_iter'):
            return True
        ap = v.st.ghost['appended']
        isaw = v.st.ghost['isaw']
        one = len(ap) == 1 and ap[0][0] == 'antiwindups' and ap[0][2] == EM + '.discrete.$e'
        return z3.If(isaw, z3.BoolVal(bool(one)), z3.BoolVal(len(ap) == 0))

    def isinstance_aw(ex, st, args, kw, node):
        b = fresh('is_antiwindup', z3.BoolSort())
        st.ghost['isaw'] = b
        return b

    def rec(tag):
        def h(ex, st, args, kw, node):
            st.ghost['order'] = st.ghost['order'] + [tag]
            if tag == 'refresh':
                st.ghost['refreshed'] = True
            return None
        return h

    def outer_reset(v):
        v.st.ghost['refreshed'] = False
        return True
    sch = {'models': TColl(), EM + '.n': TInt(), EM + '.discrete': TColl()}
    for src, dest, code in ROLES:
        sch[EM + '.cache.' + src] = TColl()
        sch[EM + '.cache.' + src + '.$e.v_code'] = TStr()
        sch[EM + '.cache.' + src + '.$e.e_code'] = TStr()
    loops = {0: Loop(inv=[], assume=[('reset', outer_reset)], frame=['$mdl', '$var', '$item', EM + '.*', 'ghost:isaw'])}
    for k, (src, dest, code) in enumerate(ROLES):
        loops[k + 1] = Loop(inv=[('%s:appended-once-to-%s[its-own-%s]' % (src, dest, code), once(src, dest, code))], assume=[('reset', reset)],
                            frame=['$var', EM + '.cache.' + src + '.$e.*'])
    loops[6] = Loop(inv=[('anti-windup-limiters-and-only-they-are-appended-to-antiwindups', aw)], assume=[('reset', reset)],
                    frame=['$item', EM + '.discrete.$e.*', 'ghost:isaw'])

    def post(old, new, res):
        o = new.st.ghost['order']
        return z3.BoolVal(o[:1] == ['clear'])
    c = Contract(FS, 'System.store_adder_setter', pid=pid, params={'self': TObj(), 'models': TColl()}, schema=sch,
                 ghost_init={'appended': [], 'order': [], 'isaw': False, 'refreshed': False},
                 calls={'self._clear_adder_setter': rec('clear'), EM + '.cache.refresh': rec('refresh'), '__getitem__': getitem, '<value>.append': append,
                        'isinstance:AntiWindup': isinstance_aw},
                 globals_={'AntiWindup': Func('AntiWindup')},
                 loops=loops, ensures=[('lists-cleared-first', post)], modifies=[])
    c.properties = {'self._getters': lambda ex, st: Mark('registry', '_getters'), 'self._adders': lambda ex, st: Mark('registry', '_adders'),
                    'self._setters': lambda ex, st: Mark('registry', '_setters'), 'self.antiwindups': lambda ex, st: Mark('antiwindups')}
    c.merge = False

    def pre_state(st):
        st.ghost.pop('in_iter', None)
    c.pre_state = pre_state
    return c


def replay_store_adder_setter(obligation=None, model=None, meta=None):
    """native: after setup and TDS.init of a system in which two DIFFERENT models carry anti-windup limiters of the same name (TGOV1 and
    TGOV1N: LAG_lim), every anti-windup limiter of every model with devices is registered in System.antiwindups, every adder / setter /
    getter variable of every such model is in the system list of its role under its own code"""
    import contextlib
    import io
    import logging
    import andes
    from andes.core.discrete import AntiWindup
    logging.getLogger('andes').setLevel(logging.CRITICAL)
    with contextlib.redirect_stdout(io.StringIO()), contextlib.redirect_stderr(io.StringIO()):
        ss = andes.load(andes.get_case('kundur/kundur_full.xlsx'), default_config=True, no_output=True, setup=False)
        # second governor model on a machine whose stock governor is switched off: TGOV1N has the same block names as TGOV1
        ss.TGOV1.alter('u', ss.TGOV1.idx.v[3], 0)
        ss.add('TGOV1N', dict(syn=ss.GENROU.idx.v[3]))
        ss.setup()
        ss.PFlow.run()
        ss.TDS.init()
    n = 0
    reg = list(ss.antiwindups)
    for mname, m in ss.models.items():
        if m.n == 0:
            continue
        for dname, d in m.discrete.items():
            if isinstance(d, AntiWindup):
                n += 1
                if not any(x is d for x in reg):
                    return {'confirmed': True, 'inputs': {'case': 'kundur_full', 'limiter': '%s.%s' % (mname, dname)},
                            'observed': 'the anti-windup limiter is not registered in System.antiwindups (%d entries)' % len(reg),
                            'native_cmd': 'contracts/C01_assembly.py replay_store_adder_setter'}
        for role, table, code in (('v_adders', ss._adders, 'v_code'), ('e_adders', ss._adders, 'e_code'), ('v_setters', ss._setters, 'v_code'),
                                  ('e_setters', ss._setters, 'e_code'), ('v_getters', ss._getters, 'v_code')):
            for vname, var in getattr(m.cache, role).items():
                n += 1
                bucket = table[getattr(var, code)]
                if not any(x is var for x in bucket):
                    return {'confirmed': True, 'inputs': {'case': 'kundur_full', 'variable': '%s.%s' % (mname, vname), 'role': role},
                            'observed': 'the variable is missing from the system list of its role under its code %r' % getattr(var, code),
                            'native_cmd': 'contracts/C01_assembly.py replay_store_adder_setter'}
    return {'confirmed': False, 'tried': n}


replay_store_adder_setter.real_system = True


def replay_fg_to_dae(obligation=None, model=None, meta=None):
    """native run of the real System.fg_to_dae on a stub: states that are private copies (not views of dae.x, as with
    ``flags.collate``) reach dae.x only through this write-back; every pegged entry must land at its address"""
    import numpy as np
    from andes.system import System
    from contracts.packutil import Stub
    n = 0
    for sets in ([[(np.array([1, 3]), np.array([0.5, -0.25]), 0.0)]],
                 [[(np.array([0]), np.array([2.0]), 0.0)], [], [(np.array([2, 4]), np.array([7.0, 8.0]), 0.0), (np.array([3]), np.array([-1.0]), 0.0)]]):
        calls = []
        x = np.arange(5, dtype=float) * 10 + 1
        want = x.copy()
        for xs in sets:
            for key, val, _ in xs:
                want[key] = val
        stub = Stub(System, dae=Stub(x=x), antiwindups=[Stub(x_set=list(xs)) for xs in sets],
                    _e_to_dae=lambda names, calls=calls: calls.append(('e_to_dae', tuple(names))), g_islands=lambda calls=calls: calls.append(('g_islands',)))
        n += 1
        System.fg_to_dae(stub)
        if not np.array_equal(stub.dae.x, want) or calls != [('e_to_dae', ('f', 'g')), ('g_islands',)]:
            return {'confirmed': True, 'inputs': {'dae.x before': (np.arange(5, dtype=float) * 10 + 1).tolist(),
                                                  'x_set per limiter (address, pegged value)': [[(k.tolist(), v.tolist()) for k, v, _ in xs] for xs in sets]},
                    'observed': 'dae.x after fg_to_dae %r, with the pegged values written back it is %r; calls %r' % (stub.dae.x.tolist(), want.tolist(), calls),
                    'native_cmd': 'System.fg_to_dae(stub)'}
    return {'confirmed': False, 'tried': n}
