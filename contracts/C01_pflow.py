"""Function part of C01: Newton step / solve / run of the power flow (contracts shared with C17)."""
from contracts import fn_pflow as P
from contracts.packutil import run_contracts


def add_obligations(pack, tier):
    pack.trust('PFlow.fg_update writes only dae.f and dae.g; System.j_update only the Jacobian blocks; PFlow.init leaves '
               'converged False, mis == [1], niter == 0 (assumed callee contracts)')
    run_contracts(pack, [(P.nr_step('C01'), None, P.replay_nr_step), (P.nr_solve('C01'),), (P.run('C01'), None, P.replay_run)])
    from contracts import C01_assembly
    C01_assembly.add_obligations(pack, tier)
