"""Function part of C01: Newton step / solve / run of the power flow (contracts shared with C17)."""
from contracts import fn_pflow as P
from contracts.packutil import run_contracts


def add_obligations(pack, tier):
    pack.trust('PFlow.fg_update writes only dae.f and dae.g; System.j_update only the Jacobian blocks; PFlow.init leaves '
               'converged False, mis == [1], niter == 0 (assumed callee contracts)')
    run_contracts(pack, [(P.nr_step('C01'), None, P.replay_nr_step), (P.nr_step_point('C01'), None, P.replay_nr_step_point), (P.nr_solve('C01'),), (P.run('C01'), None, P.replay_run)])
    from contracts import C01_assembly
    C01_assembly.add_obligations(pack, tier)
    from contracts import fn_sequence as Q
    run_contracts(pack, [(Q.pflow_fg_update('C01'),), (Q.call_models('C01'),)] +
                  [(Q.delegation('C01', n, m),) for n, m in (('l_update_var', 'l_update_var'), ('l_update_eq', 'l_check_eq'),
                                                             ('s_update_var', 's_update_var'), ('f_update', 'f_update'), ('g_update', 'g_update'))])
    # the answer depends on the data only, not on what the object has been through: every initialisation re-evaluates the constant services
    run_contracts(pack, [(Q.model_init_head('C01'), None, Q.replay_rerun_after_alter)])
    # input data -> system base: the admittances of the balance equations are the per-unit values of the physical input data
    from contracts import fn_pu
    pack.assume('per-unit conversion of the input data (System.calc_pu_coeff, NumParam.set_pu_coeff) is part of C01 with the '
                'textbook ratios stated in C11; verified pointwise for one arbitrary device of one arbitrary model')
    from contracts import fn_decl as D
    run_contracts(pack, [(fn_pu.calc_pu_coeff('C01'),), (fn_pu.set_pu_coeff('C01'),), (D.declaration('C01', *D.LINE),)])
    # the physical input data as read from a MATPOWER case (taps, phase shifts, shunts, loads, generators): contract shared with C13
    from contracts import fn_io
    run_contracts(pack, [(fn_io.mpc2system('C01'),)])
    # ... and from a PSS/E RAW file: the load, shunt, generator and branch records (contracts shared with C13)
    run_contracts(pack, [(fn_io.psse_load('C01'), None, fn_io.replay_psse_load), (fn_io.psse_fshunt('C01'),), (fn_io.psse_gen('C01'),), (fn_io.psse_line('C01'),)])
    # end-to-end bounded stand-in: power balance of converged solutions against the raw input data
    from contracts.packutil import native_guard
    from contracts import bounded_pflow_balance as BP
    name = 'C01/andes/routines/pflow.py:PFlow.run/bounded:converged-solution-balances-the-input-data'
    r = native_guard(pack, name, BP.run)
    if r is not None:
        n, bad = r
        pack.bounded.append({'function': 'System.add / setup / PFlow.run (end to end)', 'cases': n, 'counted_as_proved': False,
                             'kind': 'bounded native: 5-bus network with tap, phase shift, asymmetric shunts, three device-base encodings; '
                                     'admittance matrix rebuilt from vin'})
        if bad:
            pack.violation(name, {'bounded': True, 'inputs': bad, 'native_cmd': 'contracts/bounded_pflow_balance.py'})
    name = 'C01/andes/routines/pflow.py:PFlow.run/bounded:second-run-after-a-parameter-change-equals-a-fresh-run'
    r = native_guard(pack, name, Q.replay_rerun_after_alter)
    if r is not None:
        pack.bounded.append({'function': 'PFlow.run; alter; PFlow.run (end to end)', 'changes': r.get('tried', 0), 'counted_as_proved': False,
                             'kind': 'bounded native: ieee14.raw, Line x / tap / b, PV p0 / v0, PQ p0 changed between two runs on one object'})
        if r.get('confirmed'):
            pack.violation(name, {'bounded': True, 'inputs': r.get('inputs'), 'observed': r.get('observed'), 'native_cmd': r.get('native_cmd')})
    from contracts import bounded_pflow_variants as BPV
    name = 'C01/andes/routines/pflow.py:PFlow.run/bounded:every-variant-that-reports-convergence-returns-a-point-with-a-small-residual'
    r = native_guard(pack, name, BPV.run)
    if r is not None:
        nv, badv = r
        pack.bounded.append({'function': 'PFlow.run with method NR / dishonest / NK (end to end)', 'runs': nv, 'counted_as_proved': False,
                             'kind': 'bounded native: %s' % ', '.join(BPV.CASES)})
        if badv:
            pack.violation(name, {'bounded': True, 'inputs': badv, 'native_cmd': 'contracts/bounded_pflow_variants.py'})
