"""
C02 -- generated numerical code computes exactly the declared model equations.

Functions under contract: every function of every ``pycode/<Model>.py`` generated from the working tree
(``f_update``, ``g_update``, ``<v>_ia``, ``<names>_ii``, ``<names>_ij``, ``<s>_svc``, ``sns_update``), with the
postcondition "element k == declared string of the k-th variable in declaration order", the argument tables, and
the md5 recorded in the file; plus the binding / staleness functions of ``Model`` and ``System`` (symex part).
"""
import os
import shutil

from pyvc import exprvc
from pyvc.report import Pack

TRUSTED = [
    'sympy.sympify / lambdify / jacobian are NOT trusted: their output is the verified text',
    'NumPy ufuncs used by generated code (select, less/greater*, logical_and.reduce, real/imag/conj/angle, '
    'sqrt/sin/cos/tan/exp/log/arctan/arctan2/abs): assumed to be the pointwise real/complex functions; '
    'transcendentals uninterpreted (congruence + ground parity/shift/Pythagoras/sqrt instances)',
    'andes.thirdparty.npfunc.safe_div: a/b where b != 0 else 0 (two-argument form)',
    'select padding arguments __zeros/__ones/__falses/__trues are bound to 0/1/False/True (Model.refresh_inputs)',
]


def run(tier, seed):
    pack = Pack('C02', tier, seed)
    pack.trust(*TRUSTED)
    pack.assume(
        'equalities are proved on the domain of the declared equation: its denominators are non-zero, its sqrt '
        'arguments non-negative and its log arguments / real-power bases positive (guarded by Piecewise arms)',
        'float literals are the exact rationals of their shortest repr; SymPy constant folding in floating point is '
        'therefore visible (none occurs on the unchanged tree)',
        'not decided: that the fields named in the contract of Model.get_md5 are all the generator depends on (information flow)',
    )
    ss, d = exprvc.generate()
    try:
        bundles = {n: exprvc.bundle_of(m) for n, m in ss.models.items()}
        results, missing = exprvc.run_models(bundles, d, 'C02')
        for m in missing:
            results.append(exprvc._structural('C02/pycode/%s.py:exists' % m, False, 'no generated file for model'))
        exprvc.settle(pack, results, bundles, d, seed)
        n, failed = exprvc.canaries(bundles, d, 'C02')
        pack.vacuity['canaries'] += n
        pack.vacuity['failed'] += failed
        per_model = {}
        for r in results:
            mdl = r['name'].split('pycode/')[1].split('.py')[0] if 'pycode/' in r['name'] else '?'
            per_model[mdl] = per_model.get(mdl, 0) + 1
        for mdl, cnt in per_model.items():
            pack.add_function('pycode/%s.py (generated from andes.models: %s)' % (mdl, mdl), 'andes/core/symprocessor.py',
                              obligations=cnt, sha=bundles[mdl]['md5'] if mdl in bundles else None,
                              dropped='nothing: each generated function is a single return expression')
        pack.extra['models'] = len(bundles)
        from contracts import C02_binding
        C02_binding.add_obligations(pack, ss, tier)
        C02_binding.bounded_overwrite(pack, ss, d)
        from contracts.packutil import native_guard
        from contracts import bounded_md5
        name = 'C02/andes/core/model/model.py:Model.get_md5/bounded:checksum-reacts-to-a-change-of-every-declared-field-of-every-shipped-model'
        r = native_guard(pack, name, bounded_md5.run)
        if r is not None:
            nf, badf = r
            pack.bounded.append({'function': 'Model.get_md5 (all shipped models)', 'fields_perturbed': nf, 'counted_as_proved': False,
                                 'kind': 'bounded native, exhaustive over the shipped library: each declared string / flag changed in place'})
            if badf:
                pack.violation(name, {'bounded': True, 'inputs': badf, 'native_cmd': 'contracts/bounded_md5.py'})
        name = 'C02/andes/core/model/model.py:Model.refresh_inputs_arg/bounded:every-argument-list-entry-is-the-object-filed-under-its-name(live-time,variables,flags)'
        r = native_guard(pack, name, C02_binding.replay_inputs_arg)
        if r is not None:
            pack.bounded.append({'function': 'Model.refresh_inputs / refresh_inputs_arg (all models of two stock cases after TDS.init)', 'entries': r.get('tried', 0),
                                 'counted_as_proved': False, 'kind': 'bounded native: object identity of every argument with the name table'})
            if r.get('confirmed'):
                pack.violation(name, {'bounded': True, 'inputs': r.get('inputs'), 'observed': r.get('observed'), 'native_cmd': r.get('native_cmd')})
        from contracts import bounded_regen
        name = 'C02/andes/system.py:System.undill;prepare;_load_calls/bounded:code-regenerated-inside-a-running-process-is-the-code-that-runs-afterwards'
        r = native_guard(pack, name, bounded_regen.run)
        if r is not None:
            nr_, badr_ = r
            pack.bounded.append({'function': 'System() twice in one process with an equation edited in between (stale code detected, regenerated, reloaded)', 'runs': nr_,
                                 'counted_as_proved': False, 'kind': 'bounded native: child process with a copy of the generated code as its home'})
            if badr_:
                pack.violation(name, {'bounded': True, 'inputs': badr_, 'native_cmd': 'contracts/bounded_regen.py'})
        from contracts import bounded_binding
        name = 'C02/andes/system.py:System._load_calls;_expand_pycode/bounded:every-calls-slot-holds-the-object-of-the-model\'s-own-generated-module-named-for-it'
        r = native_guard(pack, name, bounded_binding.run)
        if r is not None:
            nb, badb = r
            pack.bounded.append({'function': 'System._load_calls / _expand_pycode (all shipped models)', 'slots_compared': nb, 'counted_as_proved': False,
                                 'kind': 'bounded native, exhaustive over the shipped library: functions compared by name and code, tables by value'})
            if badb:
                pack.violation(name, {'bounded': True, 'inputs': badb, 'native_cmd': 'contracts/bounded_binding.py'})
    finally:
        shutil.rmtree(d, ignore_errors=True)
    return pack.finish()
