"""Function part of C02: positional binding of generated results to variables, argument lookup by name, staleness gate."""
import z3

from pyvc.symex import Contract, Loop, spec, View, to_z3, as_real
from pyvc.symval import (TArr, TBool, TInt, TObj, TOpaque, TReal, TSeq, TStr, TConst, NR, fresh, I, R, Bo, Func, Opaque, Module, Ref,
                         ArrC, ListC, DictC, MapC, TMap, Unsupported, Obj, TColl, Coll, SeqC)
from contracts.packutil import run_contracts

FM = 'andes/core/model/model.py'
FS = 'andes/system.py'
K = TStr.sort


def fg_update(pid, which):
    """Model.f_update / g_update: element i of the generated function's result goes to the i-th variable of
    states_and_ext / algebs_and_ext (declaration order): added for in-place equations, assigned otherwise."""
    coll = {'f': 'self.cache.states_and_ext', 'g': 'self.cache.algebs_and_ext'}[which]
    E = coll + '.$e'
    N = fresh('N', I)
    RET = z3.Function('generated_result', I, I, R)      # RET(i, k): k-th entry of the i-th returned array

    def call_gen(ex, st, args, kw, node):
        pack = st.load('self.%s_args' % which)
        st.ghost['argpack_ok'] = (len(args) == 1 and isinstance(args[0], tuple) and args[0][0] == 'star'
                                  and isinstance(args[0][1], Opaque) and args[0][1].term.eq(pack.term) and not kw)
        return ('ret',)

    def getitem(ex, st, args, kw, node):
        base, sl = args
        if isinstance(base, tuple) and base and base[0] == 'ret':
            i = to_z3(ex.ev(sl, st))
            k = fresh('k', I)
            return st.new_ref(ArrC(z3.Lambda([k], RET(i, k)), N, None), 'ret_i')
        return NotImplemented

    def snapshot(v):
        v.st.ghost['e0'] = v.arr(E + '.e')
        return True

    def bound(v):
        if 'e0' not in v.st.ghost:
            return True
        e0, e1 = v.st.ghost['e0'], v.arr(E + '.e')
        i = v.local('$i0') - 1           # the iteration just executed
        inplace = v.z(E + '.e_inplace')
        k = fresh('k', I)
        same_obj = True
        return z3.ForAll([k], z3.Implies(z3.And(k >= 0, k < N),
                                         e1.vals[k] == z3.If(inplace, e0.vals[k] + RET(i, k), RET(i, k))))
    c = Contract(FM, 'Model.%s_update' % which, pid=pid, params={'self': TObj()},
                 schema={coll: TColl(), E + '.e_inplace': TBool(), E + '.e': TArr(n=N), 'self.flags.%s_num' % which: TConst(False),
                         'self.blocks': TConst(None), 'self.%s_args' % which: TOpaque('ArgList')},
                 requires=[('N>=0', lambda v: N >= 0)],
                 calls={'callable': lambda ex, st, a, k, n: True, 'self.calls.%s' % which: call_gen,
                        '__getitem__': getitem, 'self.get_inputs': spec(returns=TOpaque('Kw'), name='get_inputs')},
                 globals_={'callable': Func('callable')},
                 loops={0: Loop(inv=[('variable-#i-received-result-#i(added-if-in-place,else-assigned)', bound)],
                                assume=[('snapshot', snapshot)], frame=['$i', '$var', E + '.*', 'loc:' + E + '.e']),
                        1: Loop(summary=lambda ex, st, node: [(st, None, None)])},
                 ensures=[('generated-function-called-with-*self.%s_args' % which,
                           lambda o, n, r: z3.BoolVal(n.st.ghost.get('argpack_ok') is True))], modifies=[])
    c.star_ok = True
    c.check_bounds = False

    def pre_state(st):
        st.heap['self.blocks'] = st.new_ref(DictC({}), 'blocks')
        st.ghost.pop('e0', None)
    c.pre_state = pre_state
    return c


def refresh_inputs_arg(pid):
    """Model.refresh_inputs_arg: argument k of each generated function is the input array stored under the k-th declared
    argument name (lookup by name, order preserved)."""
    VAL = z3.DeclareSort('InputArray')

    def post(old, new, res):
        inp = old.arr('self._input')
        cl = []
        for lst, names in (('self.f_args', 'self.calls.f_args'), ('self.g_args', 'self.calls.g_args'), ('self.sns_args', 'self.calls.sns_args')):
            out, nm = new.arr(lst), old.arr(names)
            k = fresh('k', I)
            cl.append(z3.And(out.n == nm.n, z3.ForAll([k], z3.Implies(z3.And(k >= 0, k < nm.n), out.arr[k] == inp.val[nm.arr[k]]))))
        return z3.And(*cl)

    def names_present(v):
        inp = v.arr('self._input')
        cl = []
        for names in ('self.calls.f_args', 'self.calls.g_args', 'self.calls.sns_args'):
            nm = v.arr(names)
            cl.append(z3.ForAll([KQ], z3.Implies(z3.And(KQ >= 0, KQ < nm.n), inp.dom[nm.arr[KQ]])))
        return z3.And(*cl)
    c = Contract(FM, 'Model.refresh_inputs_arg', pid=pid, params={'self': TObj()},
                 schema={'self._input': TMap(K, VAL), 'self.calls.f_args': TSeq(elem=K), 'self.calls.g_args': TSeq(elem=K),
                         'self.calls.sns_args': TSeq(elem=K), 'self.f_args': TSeq(elem=VAL), 'self.g_args': TSeq(elem=VAL),
                         'self.sns_args': TSeq(elem=VAL), 'self.calls.__dict__': TOpaque('D')},
                 requires=[('every-declared-argument-name-is-an-input', names_present)],
                 calls={'list': lambda ex, st, a, k, n: st.new_ref(ListC([]), 'l'), 'dict': lambda ex, st, a, k, n: st.new_ref(DictC({}), 'd'),
                        '__objdict__': lambda ex, st, a, k, n: st.new_ref(DictC({}), 'src')},
                 ensures=[('args[k]=_input[declared_names[k]]', post)],
                 modifies=['self.*'])
    return c


KQ = z3.Int('kq')


def find_stale(pid):
    """System._find_stale_models: a model is reported stale iff the md5 recorded with its generated code differs from the md5
    of the model as constructed now."""
    E = 'self.models.$e'

    def setitem(ex, st, args, kw, node):
        st.ghost['reported'] = True
        return None

    def getattr_h(ex, st, args, kw, node):
        return st.load(E + '.calls.md5')

    def snapshot(v):
        v.st.ghost['reported'] = False
        v.st.ghost['in_iter'] = True
        v.st.ghost.pop('md5now', None)
        return True

    def inv(v):
        if not v.st.ghost.get('in_iter'):
            return True
        if 'md5now' not in v.st.ghost:
            return False          # the iteration never asked the model for its current md5
        rep = v.st.ghost['reported']
        differs = v.get(E + '.calls.md5').term != v.st.ghost['md5now']
        rep = rep if z3.is_expr(rep) else z3.BoolVal(bool(rep))
        return rep == differs

    def get_md5(ex, st, args, kw, node):
        m = fresh('md5_now', K)
        st.ghost['md5now'] = m
        return Opaque(m)
    c = Contract(FS, 'System._find_stale_models', pid=pid, params={'self': TObj()},
                 schema={'self.models': TColl(), E + '.calls.md5': TStr(), E + '.class_name': TStr()},
                 calls={'OrderedDict': lambda ex, st, a, k, n: Opaque(fresh('out', z3.DeclareSort('OutDict'))), '__setitem__': setitem,
                        'getattr': getattr_h, E + '.get_md5': get_md5},
                 globals_={'getattr': Func('getattr')},
                 loops={0: Loop(inv=[('reported-stale<=>recorded-md5-differs-from-current', inv)], assume=[('reset', snapshot)],
                                frame=['$model', '$calls_md5', E + '.*'])},
                 ensures=[], modifies=[])

    def pre_state(st):
        st.ghost.pop('md5now', None)
        st.ghost.pop('in_iter', None)
        st.ghost['reported'] = False
    c.pre_state = pre_state
    return c


def undill(pid):
    """System.undill: stale generated code is regenerated before use whenever automatic regeneration is allowed; code that
    could not be loaded is always regenerated."""
    def load_calls(ex, st, args, kw, node):
        r = fresh('loaded', Bo)
        st.ghost['loaded'] = r
        return r

    def find(ex, st, args, kw, node):
        n = fresh('n_stale', I)
        st.assume(n >= 0)
        st.ghost['n_stale'] = n
        c = Coll('stale', n, K)
        st.ghost['stale'] = c
        return c

    def prepare(ex, st, args, kw, node):
        st.ghost['prepare'] = st.ghost['prepare'] + [dict(kw)]
        return None

    def post(old, new, res):
        g = new.st.ghost
        loaded, n = g['loaded'], g['n_stale']
        auto = to_z3(old.local('autogen_stale'))
        calls = g['prepare']
        if len(calls) == 0:
            return z3.And(loaded, z3.Or(z3.Not(auto), n == 0))
        if len(calls) != 1:
            return False
        kw = calls[0]
        if kw.get('incremental') is True:
            return z3.And(loaded, auto, n > 0, z3.BoolVal(kw.get('models') is g['stale']))
        return z3.And(z3.Not(loaded), z3.BoolVal(kw.get('incremental') is False))
    c = Contract(FS, 'System.undill', pid=pid, params={'self': TObj(), 'autogen_stale': TBool()}, schema={},
                 ghost_init={'prepare': []},
                 calls={'self._load_calls': load_calls, 'self._find_stale_models': find, 'self.prepare': prepare,
                        '<value>.keys': lambda ex, st, a, k, n: Opaque(fresh('keys', K)), '<value>.join': lambda ex, st, a, k, n: 'names'},
                 ensures=[('regenerate-all-if-not-loaded;regenerate-stale-models-if-allowed;else-nothing', post),
                          ('returns-True', lambda o, n, r: to_z3(r) == z3.BoolVal(True) if not isinstance(r, bool) else z3.BoolVal(r))],
                 modifies=[])
    c.merge = False
    return c


def add_obligations(pack, ss, tier, pid='C02'):
    pack.trust('generated functions are called with the argument list built by refresh_inputs_arg (star-call)',
               'Model.get_md5 hashes the declared strings of the model (not decided: that it covers every string the generator '
               'depends on)')
    run_contracts(pack, [(fg_update(pid, 'f'),), (fg_update(pid, 'g'),), (refresh_inputs_arg(pid),), (find_stale(pid),), (undill(pid),)])
