"""Function part of C02: positional binding of generated results to variables, argument lookup by name, staleness gate."""
import z3

from pyvc.symex import Contract, Loop, spec, View, to_z3, as_real
from pyvc.symval import (TArr, TBool, TInt, TObj, TOpaque, TReal, TSeq, TStr, TConst, NR, fresh, I, R, Bo, Func, Opaque, Module, Ref,
                         ArrC, ListC, DictC, MapC, TMap, Unsupported, Obj, TColl, Coll, SeqC)
from contracts.packutil import run_contracts

FM = 'andes/core/model/model.py'
FS = 'andes/system.py'
K = TStr.sort


def fg_update(pid, which):
    """Model.f_update / g_update: element i of the generated function's result goes to the i-th variable of
    states_and_ext / algebs_and_ext (declaration order): added for in-place equations, assigned otherwise."""
    coll = {'f': 'self.cache.states_and_ext', 'g': 'self.cache.algebs_and_ext'}[which]
    E = coll + '.$e'
    N = fresh('N', I)
    RET = z3.Function('generated_result', I, I, R)      # RET(i, k): k-th entry of the i-th returned array

    def call_gen(ex, st, args, kw, node):
        pack = st.load('self.%s_args' % which)
        st.ghost['argpack_ok'] = (len(args) == 1 and isinstance(args[0], tuple) and args[0][0] == 'star'
                                  and isinstance(args[0][1], Opaque) and args[0][1].term.eq(pack.term) and not kw)
        return ('ret',)

    def getitem(ex, st, args, kw, node):
        base, sl = args
        if isinstance(base, tuple) and base and base[0] == 'ret':
            i = to_z3(ex.ev(sl, st))
            k = fresh('k', I)
            return st.new_ref(ArrC(z3.Lambda([k], RET(i, k)), N, None), 'ret_i')
        return NotImplemented

    def snapshot(v):
        v.st.ghost['e0'] = v.arr(E + '.e')
        return True

    def bound(v):
        if 'e0' not in v.st.ghost:
            return True
        e0, e1 = v.st.ghost['e0'], v.arr(E + '.e')
        i = v.local('$i0') - 1           # the iteration just executed
        inplace = v.z(E + '.e_inplace')
        k = fresh('k', I)
        same_obj = True
        return z3.ForAll([k], z3.Implies(z3.And(k >= 0, k < N),
                                         e1.vals[k] == z3.If(inplace, e0.vals[k] + RET(i, k), RET(i, k))))
    c = Contract(FM, 'Model.%s_update' % which, pid=pid, params={'self': TObj()},
                 schema={coll: TColl(), E + '.e_inplace': TBool(), E + '.e': TArr(n=N), 'self.flags.%s_num' % which: TConst(False),
                         'self.blocks': TConst(None), 'self.%s_args' % which: TOpaque('ArgList')},
                 requires=[('N>=0', lambda v: N >= 0)],
                 calls={'callable': lambda ex, st, a, k, n: True, 'self.calls.%s' % which: call_gen,
                        '__getitem__': getitem, 'self.get_inputs': spec(returns=TOpaque('Kw'), name='get_inputs')},
                 globals_={'callable': Func('callable')},
                 loops={0: Loop(inv=[('variable-#i-received-result-#i(added-if-in-place,else-assigned)', bound)],
                                assume=[('snapshot', snapshot)], frame=['$i', '$var', E + '.*', 'loc:' + E + '.e']),
                        1: Loop(summary=lambda ex, st, node: [(st, None, None)])},
                 ensures=[('generated-function-called-with-*self.%s_args' % which,
                           lambda o, n, r: z3.BoolVal(n.st.ghost.get('argpack_ok') is True))], modifies=[])
    c.star_ok = True
    c.check_bounds = False

    def pre_state(st):
        st.heap['self.blocks'] = st.new_ref(DictC({}), 'blocks')
        st.ghost.pop('e0', None)
    c.pre_state = pre_state
    return c


def replay_fg_update(which):
    def replay(obligation, model, meta):
        """native run of the real Model.f_update / g_update on a stub model: element i of the generated result reaches variable #i
        (added in place for in-place equations, assigned otherwise), whatever the connection status of the devices"""
        from collections import OrderedDict
        from types import SimpleNamespace
        import numpy as np
        from andes.core.model.model import Model
        from contracts.packutil import Stub
        for u in ([1.0, 1.0], [0.0, 1.0], [0.0, 0.0]):
            e0 = [np.array([0.5, 0.25]), np.array([7.0, 7.0]), np.array([-1.0, 2.0])]
            vars_ = OrderedDict((n, SimpleNamespace(e=e.copy(), e_inplace=ip)) for n, e, ip in zip('abc', e0, (True, False, True)))
            keep = [v.e for v in vars_.values()]
            ret = (np.array([1.0, 2.0]), np.array([3.0, 4.0]), np.array([5.0, 6.0]))
            cache = SimpleNamespace(states_and_ext=vars_, algebs_and_ext=vars_)
            stub = Stub(_cls=Model, n=2, u=SimpleNamespace(v=np.array(u)), class_name='M', cache=cache,
                        calls=SimpleNamespace(**{which: (lambda *a: ret)}), flags=SimpleNamespace(f_num=False, g_num=False), blocks={},
                        get_inputs=lambda *a, **k: {})
            setattr(stub, which + '_args', [])
            getattr(Model, which + '_update')(stub)
            for i, (v, before) in enumerate(zip(vars_.values(), e0)):
                want = before + ret[i] if v.e_inplace else ret[i]
                if v.e is not keep[i] or not np.array_equal(v.e, want):
                    return {'confirmed': True, 'inputs': {'u': u, 'variable #': i, 'e_inplace': v.e_inplace, 'e before': before.tolist(),
                                                          'generated result': ret[i].tolist()},
                            'observed': 'e after %s_update = %r, expected %r' % (which, np.asarray(v.e).tolist(), want.tolist()),
                            'native_cmd': 'Model.%s_update(stub)' % which}
        return {'confirmed': False, 'tried': 3}
    return replay


def refresh_inputs_arg(pid):
    """Model.refresh_inputs_arg: argument k of each generated function is the input array stored under the k-th declared
    argument name (lookup by name, order preserved)."""
    VAL = z3.DeclareSort('InputArray')

    def post(old, new, res):
        inp = old.arr('self._input')
        cl = []
        for lst, names in (('self.f_args', 'self.calls.f_args'), ('self.g_args', 'self.calls.g_args'), ('self.sns_args', 'self.calls.sns_args')):
            out, nm = new.arr(lst), old.arr(names)
            k = fresh('k', I)
            cl.append(z3.And(out.n == nm.n, z3.ForAll([k], z3.Implies(z3.And(k >= 0, k < nm.n), out.arr[k] == inp.val[nm.arr[k]]))))
        return z3.And(*cl)

    def names_present(v):
        inp = v.arr('self._input')
        cl = []
        for names in ('self.calls.f_args', 'self.calls.g_args', 'self.calls.sns_args'):
            nm = v.arr(names)
            cl.append(z3.ForAll([KQ], z3.Implies(z3.And(KQ >= 0, KQ < nm.n), inp.dom[nm.arr[KQ]])))
        return z3.And(*cl)
    KEYS = ('j_args', 's_args', 'ia_args', 'ii_args', 'ij_args')

    def calls_dict(ex, st, args, kw, node):
        # self.calls.__dict__[key]: the per-function argument-name tables; one arbitrary function 'fn0' with an arbitrary list of
        # declared argument names stands for every entry (the body treats all entries alike)
        key = args[1]
        if not (isinstance(key, str) and key in KEYS):
            raise Unsupported('calls.__dict__[%r]' % (key,))
        names = TSeq(elem=K).make(st, 'names_' + key)
        c = st.content(names)
        inp = st.content(st.load('self._input'))
        st.assume(z3.ForAll([KQ], z3.Implies(z3.And(KQ >= 0, KQ < c.n), inp.dom[c.arr[KQ]])))
        st.ghost['src'] = dict(st.ghost.get('src') or {}, **{key: names})
        return st.new_ref(DictC({'fn0': names}), 'src_' + key)

    def post_tables(old, new, res):
        inp = old.arr('self._input')
        cl = []
        src = new.st.ghost.get('src') or {}
        for key in KEYS:
            if key not in src:
                return z3.BoolVal(False)       # the table of this kind was not even read
            d = new.st.content(new.get('self.' + key))
            if not isinstance(d, DictC) or set(d.items) != {'fn0'}:
                return z3.BoolVal(False)
            out, nm = new.st.content(d.items['fn0']), new.st.content(src[key])
            k = fresh('k', I)
            cl.append(z3.And(out.n == nm.n, z3.ForAll([k], z3.Implies(z3.And(k >= 0, k < nm.n), out.arr[k] == inp.val[nm.arr[k]]))))
        return z3.And(*cl)
    c = Contract(FM, 'Model.refresh_inputs_arg', pid=pid, params={'self': TObj()},
                 schema={'self._input': TMap(K, VAL), 'self.calls.f_args': TSeq(elem=K), 'self.calls.g_args': TSeq(elem=K),
                         'self.calls.sns_args': TSeq(elem=K), 'self.f_args': TSeq(elem=VAL), 'self.g_args': TSeq(elem=VAL),
                         'self.sns_args': TSeq(elem=VAL), 'self.calls.__dict__': TOpaque('D'), 'self.flags.initialized': TBool()},
                 requires=[('every-declared-argument-name-is-an-input', names_present)],
                 calls={'list': lambda ex, st, a, k, n: st.new_ref(ListC([]), 'l'), 'dict': lambda ex, st, a, k, n: st.new_ref(DictC({}), 'd'),
                        '__objdict__': calls_dict},
                 ensures=[('args[k]=_input[declared_names[k]]', post),
                          ('every-per-function-table(j,s,ia,ii,ij)-is-rebuilt-from-the-name-table,whatever-state-the-model-is-in', post_tables)],
                 modifies=['self.*'])
    return c


KQ = z3.Int('kq')


def find_stale(pid):
    """System._find_stale_models: a model is reported stale iff the md5 recorded with its generated code differs from the md5
    of the model as constructed now."""
    E = 'self.models.$e'

    def setitem(ex, st, args, kw, node):
        st.ghost['reported'] = True
        return None

    def getattr_h(ex, st, args, kw, node):
        return st.load(E + '.calls.md5')

    def snapshot(v):
        v.st.ghost['reported'] = False
        v.st.ghost['in_iter'] = True
        v.st.ghost.pop('md5now', None)
        return True

    def inv(v):
        if not v.st.ghost.get('in_iter'):
            return True
        if 'md5now' not in v.st.ghost:
            return False          # the iteration never asked the model for its current md5
        rep = v.st.ghost['reported']
        differs = v.get(E + '.calls.md5').term != v.st.ghost['md5now']
        rep = rep if z3.is_expr(rep) else z3.BoolVal(bool(rep))
        return rep == differs

    def get_md5(ex, st, args, kw, node):
        m = fresh('md5_now', K)
        st.ghost['md5now'] = m
        return Opaque(m)
    c = Contract(FS, 'System._find_stale_models', pid=pid, params={'self': TObj()},
                 schema={'self.models': TColl(), E + '.calls.md5': TStr(), E + '.class_name': TStr()},
                 calls={'OrderedDict': lambda ex, st, a, k, n: Opaque(fresh('out', z3.DeclareSort('OutDict'))), '__setitem__': setitem,
                        'getattr': getattr_h, E + '.get_md5': get_md5},
                 globals_={'getattr': Func('getattr')},
                 loops={0: Loop(inv=[('reported-stale<=>recorded-md5-differs-from-current', inv)], assume=[('reset', snapshot)],
                                frame=['$model', '$calls_md5', E + '.*'])},
                 ensures=[], modifies=[])

    def pre_state(st):
        st.ghost.pop('md5now', None)
        st.ghost.pop('in_iter', None)
        st.ghost['reported'] = False
    c.pre_state = pre_state
    return c


def undill(pid):
    """System.undill: stale generated code is regenerated before use whenever automatic regeneration is allowed; code that
    could not be loaded is always regenerated."""
    def load_calls(ex, st, args, kw, node):
        r = fresh('loaded', Bo)
        st.ghost['loaded'] = r
        return r

    def find(ex, st, args, kw, node):
        n = fresh('n_stale', I)
        st.assume(n >= 0)
        st.ghost['n_stale'] = n
        c = Coll('stale', n, K)
        st.ghost['stale'] = c
        return c

    def prepare(ex, st, args, kw, node):
        st.ghost['prepare'] = st.ghost['prepare'] + [dict(kw)]
        return None

    def post(old, new, res):
        g = new.st.ghost
        loaded, n = g['loaded'], g['n_stale']
        auto = to_z3(old.local('autogen_stale'))
        calls = g['prepare']
        if len(calls) == 0:
            return z3.And(loaded, z3.Or(z3.Not(auto), n == 0))
        if len(calls) != 1:
            return False
        kw = calls[0]
        if kw.get('incremental') is True:
            return z3.And(loaded, auto, n > 0, z3.BoolVal(kw.get('models') is g['stale']))
        return z3.And(z3.Not(loaded), z3.BoolVal(kw.get('incremental') is False))
    c = Contract(FS, 'System.undill', pid=pid, params={'self': TObj(), 'autogen_stale': TBool()}, schema={},
                 ghost_init={'prepare': []},
                 calls={'self._load_calls': load_calls, 'self._find_stale_models': find, 'self.prepare': prepare,
                        '<value>.keys': lambda ex, st, a, k, n: Opaque(fresh('keys', K)), '<value>.join': lambda ex, st, a, k, n: 'names'},
                 ensures=[('regenerate-all-if-not-loaded;regenerate-stale-models-if-allowed;else-nothing', post),
                          ('returns-True', lambda o, n, r: to_z3(r) == z3.BoolVal(True) if not isinstance(r, bool) else z3.BoolVal(r))],
                 modifies=[])
    c.merge = False
    return c


def add_obligations(pack, ss, tier, pid='C02'):
    pack.trust('generated functions are called with the argument list built by refresh_inputs_arg (star-call)',
               'md5 separates different feeds (collisions and concatenation ambiguity are not modelled); the generator reads no declared '
               'field besides those named in the contract of Model.get_md5 (v_str, v_iter, e_str, diag_eps, service v_str / sequential, '
               'exported flags, names)')
    run_contracts(pack, [(fg_update(pid, 'f'), None, replay_fg_update('f')), (fg_update(pid, 'g'), None, replay_fg_update('g')), (refresh_inputs_arg(pid), None, replay_inputs_arg), (find_stale(pid), None, replay_find_stale), (undill(pid), None, replay_find_stale), (generate_pycode_tail(pid),), (get_md5(pid), None, replay_get_md5), (refresh_inputs(pid), None, replay_refresh_inputs)])
    # the one non-numpy function the generated modules call: it must mean what the expression front end takes it to mean
    from contracts import fn_npfunc as NF
    run_contracts(pack, [(NF.safe_div(pid, False), None, NF.replay_safe_div), (NF.safe_div(pid, True), None, NF.replay_safe_div)])


FSP = 'andes/core/symprocessor.py'


def generate_pycode_tail(pid):
    """SymProcessor.generate_pycode, from ``out_str = ...`` on: an existing file is left alone only when its complete text equals
    the freshly generated text; in every other case the fresh text is written to <pycode_path>/<class_name>.py."""
    S = TStr.sort
    FILE = z3.DeclareSort('FileHandle')
    OUT, DISK, PATH = fresh('generated_text', S), fresh('text_on_disk', S), fresh('file_path', S)

    def join(ex, st, args, kw, node):
        base, arg = args
        if base == '\n':
            ok = arg is st.env['out']
            st.ghost['joined_out'] = bool(ok)
            return Opaque(OUT)
        if base == '' and arg == ('lines', 'r'):     # all lines of the file opened for reading
            return Opaque(DISK)
        return Opaque(fresh('joined', S))

    def open_(ex, st, args, kw, node):
        mode = args[1] if len(args) > 1 else 'r'
        ok = isinstance(args[0], Opaque) and args[0].term.eq(PATH)
        st.ghost['opened'] = st.ghost['opened'] + [(mode, bool(ok))]
        h = Opaque(fresh('file_' + mode, FILE))
        st.ghost['handles'] = dict(st.ghost['handles'], **{str(h.term): mode})
        return h

    def mode_of(st, h):
        return st.ghost['handles'].get(str(h.term)) if isinstance(h, Opaque) else None

    def write(ex, st, args, kw, node):
        base, text = args
        st.ghost['written'] = st.ghost['written'] + [bool(mode_of(st, base) == 'w' and isinstance(text, Opaque) and text.term.eq(OUT))]
        return None

    def isfile(ex, st, args, kw, node):
        b = fresh('isfile', Bo)
        st.ghost['isfile'] = b
        return b

    def post(old, new, res):
        g = new.st.ghost
        wrote = g['written'] == [True] and ('w', True) in g['opened']
        if g['written'] == []:
            return z3.And(g['isfile'], DISK == OUT, z3.BoolVal(g.get('joined_out') is True))
        return z3.BoolVal(bool(wrote) and g.get('joined_out') is True)
    c = Contract(FSP, 'SymProcessor.generate_pycode', pid=pid, params={'self': TObj(), 'pycode_path': TOpaque('P'), 'yapf_pycode': TBool()},
                 schema={'self.class_name': TStr(), 'self.parent.class_name': TStr()},
                 ghost_init={'opened': [], 'written': [], 'handles': {}},
                 calls={'<value>.join': join, 'get_pycode_path': lambda ex, st, a, k, n: Opaque(fresh('dir', S)),
                        'os.path.join': lambda ex, st, a, k, n: Opaque(PATH), 'os.path.isfile': isfile, 'open': open_,
                        '<value>.readlines': lambda ex, st, a, k, n: ('lines', mode_of(st, a[0])),
                        '<value>.write': write, 'logger.debug': lambda ex, st, a, k, n: None},
                 globals_={'get_pycode_path': Func('get_pycode_path'), 'open': Func('open'), 'os': Module('os')},
                 ensures=[('skip-writing-only-if-whole-file-equals-fresh-text;else-write-fresh-text', post)], modifies=[])
    c.body_from = 'out_str = '
    c.locals = {'out': TOpaque('LineList')}
    c.merge = False
    return c


def bounded_overwrite(pack, ss, d, pid='C02'):
    """bounded native stand-in: a generated file whose body was altered (md5 line kept) must be replaced by generate_pycode."""
    import os
    import re
    from contracts.packutil import native_guard
    name = '%s/bounded:generate_pycode-restores-a-tampered-file(same-md5-line)' % pid
    tried = []

    def go():
        for mdl in ('TGOV1', 'Toggle', 'GENCLS'):
            fp = os.path.join(d, mdl + '.py')
            if not os.path.isfile(fp) or mdl not in ss.models:
                continue
            pristine = open(fp).read()
            tampered = pristine.replace('return (', 'return (-', 1)
            if tampered == pristine:
                continue
            try:
                open(fp, 'w').write(tampered)
                # full regeneration of this model (symbols -> functions -> file), as `andes prepare -m <model>` does;
                # calling generate_pycode alone would re-read the function sources from the tampered file itself
                ss.models[mdl].prepare(quick=True, pycode_path=d)
                after = open(fp).read()
            finally:
                open(fp, 'w').write(pristine)
            tried.append(mdl)
            # compared as a set of top-level definitions: the order of the *_ia / *_ii helper functions depends on dict order
            if sorted(x.strip() for x in after.split('\n\n\n')) != sorted(x.strip() for x in pristine.split('\n\n\n')):
                return mdl
        return None
    bad = native_guard(pack, name, go)
    pack.bounded.append({'function': 'SymProcessor.generate_pycode', 'bound': 'models %s, one tampered body each' % tried,
                         'what': 'top-level definitions of the file after regeneration equal those of the fresh text'})
    if bad:
        pack.violation(name, {'bounded': True, 'model': bad, 'native_cmd': 'alter the first return of pycode/%s.py keeping the md5 line, call '
                              'model.prepare(quick=True, pycode_path=dir); the altered file survives' % bad})
    return tried


def get_md5(pid):
    """Model.get_md5: the checksum is taken over a feed that contains, for every variable of the model, each of its declared strings
    v_str, v_iter, e_str and its diag_eps that is not None; for every service its v_str (when not None) and its sequential flag; for
    every discrete component its exported flags; and every parameter / variable / service / discrete name.  (That md5 itself separates
    different feeds is assumed; what is decided is that no declared field is left out of the feed.)"""
    from pyvc.symval import Mark, TOptional, MaybeNone
    STR_R = z3.Function('str_of_float', R, K)
    STR_I = z3.Function('str_of_int', I, K)
    JOIN = z3.Function('join_flags', z3.ArraySort(I, K), I, K)
    EV, ES, ED = 'self.cache.all_vars.$e', 'self.services.$e', 'self.discrete.$e'

    def md5_new(ex, st, args, kw, node):
        return Mark('md5')

    def update(ex, st, args, kw, node):
        base, x = args[0], args[1]
        ex.oblige(st, 'pre@call:update-on-the-md5-object', z3.BoolVal(isinstance(base, Mark) and base.kind == 'md5'), {})
        t = x.term if isinstance(x, Opaque) else (TStr.lit(x) if isinstance(x, str) else None)
        if t is None:
            raise Unsupported('md5.update(%r)' % (x,))
        st.ghost['fed'] = st.ghost['fed'] + [t]
        return None

    def str_(ex, st, args, kw, node):
        x = args[0]
        if isinstance(x, MaybeNone):
            ex.oblige(st, 'str()-of-a-declared-field-that-is-not-None', z3.Not(x.isnone), {})
            x = x.value
        if isinstance(x, str) or (isinstance(x, Opaque) and x.term.sort() == K):
            return x
        if isinstance(x, NR):
            return Opaque(STR_R(x.val))
        if isinstance(x, bool):
            return Opaque(STR_I(z3.IntVal(int(x))))
        if isinstance(x, int):
            return Opaque(STR_I(z3.IntVal(x)))
        if z3.is_expr(x) and z3.is_int(x):
            return Opaque(STR_I(x))
        raise Unsupported('str(%r)' % (x,))

    def encode(ex, st, args, kw, node):
        return args[0]

    def join(ex, st, args, kw, node):
        base, arg = args
        if base == ',' and isinstance(arg, Ref) and isinstance(st.content(arg), SeqC):
            c = st.content(arg)
            return Opaque(JOIN(c.arr, c.n))
        raise Unsupported('join of %r' % (arg,))

    def as_dict(ex, st, args, kw, node):
        n = fresh('n_config', I)
        st.assume(n >= 0)
        return Coll('self.config.$fields', n, K)

    def reset(v):
        v.st.ghost['fed'] = []
        v.st.ghost['in_iter'] = True
        return True

    def fed(v, term):
        f = v.st.ghost['fed']
        return z3.Or(*[t == term for t in f if t.sort() == term.sort()]) if f else z3.BoolVal(False)

    def opt(v, path, conv=lambda t: t):
        x = v.st.load(path)
        if isinstance(x, MaybeNone):
            val = x.value
            t = conv(val.term if isinstance(val, Opaque) else val.val if isinstance(val, NR) else to_z3(val))
            return z3.Or(x.isnone, fed(v, t))
        t = conv(x.term if isinstance(x, Opaque) else x.val if isinstance(x, NR) else to_z3(x))
        return fed(v, t)

    def inv_vars(v):
        if not v.st.ghost.get('in_iter'):
            return True
        return z3.And(opt(v, EV + '.v_str'), opt(v, EV + '.v_iter'), opt(v, EV + '.e_str'), opt(v, EV + '.diag_eps', lambda t: STR_R(t)),
                      z3.BoolVal(len(v.st.ghost['fed']) >= 1))

    def inv_services(v):
        if not v.st.ghost.get('in_iter'):
            return True
        b = v.st.load(ES + '.sequential')
        b = b if z3.is_expr(b) else z3.BoolVal(bool(b))
        return z3.And(opt(v, ES + '.v_str'), fed(v, STR_I(z3.If(b, z3.IntVal(1), z3.IntVal(0)))))

    def inv_discrete(v):
        if not v.st.ghost.get('in_iter'):
            return True
        c = v.st.content(v.st.load(ED + '.export_flags'))
        return fed(v, JOIN(c.arr, c.n))

    def inv_names(v):
        if not v.st.ghost.get('in_iter'):
            return True
        return z3.BoolVal(len(v.st.ghost['fed']) >= 1)
    c = Contract(FM, 'Model.get_md5', pid=pid, params={'self': TObj()},
                 schema={'self.cache.all_params': TColl(K), 'self.cache.all_vars': TColl(K), 'self.services': TColl(K), 'self.discrete': TColl(K),
                         EV + '.v_str': TOptional(TStr()), EV + '.v_iter': TOptional(TStr()), EV + '.e_str': TOptional(TStr()),
                         EV + '.diag_eps': TOptional(TReal()), ES + '.v_str': TOptional(TStr()), ES + '.sequential': TBool(),
                         ED + '.export_flags': TSeq(K)},
                 calls={'hashlib.md5': md5_new, '<value>.update': update, 'str': str_, '<value>.encode': encode, '<value>.join': join,
                        'self.config.as_dict': as_dict, '<value>.hexdigest': lambda ex, st, a, k, n: Opaque(fresh('digest', K))},
                 loops={0: Loop(inv=[('every-parameter-name-is-fed', inv_names)], assume=[('reset', reset)], frame=['$name']),
                        1: Loop(inv=[('every-config-field-name-is-fed', inv_names)], assume=[('reset', reset)], frame=['$name']),
                        2: Loop(inv=[('v_str,v_iter,e_str,diag_eps-of-the-variable-are-fed-when-declared', inv_vars)], assume=[('reset', reset)],
                                frame=['$name', '$item', EV + '.*']),
                        3: Loop(inv=[('v_str-and-sequential-flag-of-the-service-are-fed', inv_services)], assume=[('reset', reset)],
                                frame=['$name', '$item', ES + '.*']),
                        4: Loop(inv=[('exported-flags-of-the-discrete-component-are-fed', inv_discrete)], assume=[('reset', reset)],
                                frame=['$name', '$item', ED + '.*'])},
                 ensures=[], modifies=[])

    def pre_state(st):
        st.ghost['fed'] = []
        st.ghost.pop('in_iter', None)
    c.pre_state = pre_state
    c.merge = False
    return c


def replay_get_md5(obligation, model, meta):
    """native run: the checksum of every shipped model reacts to a change of each declared field (contracts/bounded_md5.py)"""
    from contracts import bounded_md5
    n, bad = bounded_md5.run()
    if bad:
        return {'confirmed': True, 'inputs': bad, 'observed': bad.get('observed'), 'native_cmd': 'contracts/bounded_md5.py'}
    return {'confirmed': False, 'tried': n}

replay_get_md5.real_system = True       # drives the real program on stock inputs: a crash inside repository code is a confirmed failure


def refresh_inputs(pid):
    """Model.refresh_inputs: the name -> value table from which the arguments of the generated functions are looked up files, under the
    name of every numeric parameter, service (internal, external, operational) and variable, the LIVE value array of that very instance
    (so that later in-place changes are seen), and under every config field the value the configuration holds NOW -- the config
    dictionary is asked for with refresh=True, since its cached form may be stale (known finding F20 of C20)."""
    from pyvc.symval import Mark
    GROUPS = [('self.num_params', 0), ('self.services', 1), ('self.services_ext', 2), ('self.services_ops', 3), ('self.cache.all_vars', 6)]

    def setitem(ex, st, args, kw, node):
        base, sl, value = args
        if isinstance(base, Mark) and base.kind in ('_input', '_input_z'):
            key = ex.ev(sl, st)
            st.ghost['stores'] = st.ghost['stores'] + [(base.kind, key, value)]
            return None
        return NotImplemented

    def reset(v):
        v.st.ghost['stores'] = []
        v.st.ghost['in_iter'] = True
        return True

    def live(path):
        E = path + '.$e'

        def f(v):
            g = v.st.ghost
            if not g.get('in_iter'):
                return True
            st_ = [s_ for s_ in g['stores'] if s_[0] == '_input']
            if len(st_) != 1:
                return False
            _, key, value = st_[0]
            want_key, want_val = v.st.load(E + '.name'), v.st.load(E + '.v')
            ok = isinstance(key, Opaque) and key.term.eq(want_key.term) and isinstance(value, Ref) and isinstance(want_val, Ref) and value.loc == want_val.loc
            return z3.BoolVal(bool(ok))
        return f

    def as_dict(ex, st, args, kw, node):
        st.ghost['cfg_current'] = bool(kw.get('refresh') is True)
        n = fresh('n_config_fields', I)
        st.assume(n >= 0)
        return Coll('cfg', n, K)

    def np_array(ex, st, args, kw, node):
        return Mark('array-of', args[0])

    def zip_flags(ex, st, args, kw, node):
        nfl = fresh('n_flags', I)
        st.assume(nfl >= 0)
        return Coll('flagpairs', nfl, K)

    def cfg(v):
        g = v.st.ghost
        if not g.get('in_iter'):
            return True
        st_ = [s_ for s_ in g['stores'] if s_[0] == '_input']
        if len(st_) != 1 or not g.get('cfg_current'):
            return False
        _, key, value = st_[0]
        ok = isinstance(value, Mark) and value.kind == 'array-of' and isinstance(value.data[0], Obj) and value.data[0].path == 'cfg.$e' and isinstance(key, Opaque)
        return z3.BoolVal(bool(ok))
    sch = {}
    loops = {}
    for path, lid in GROUPS:
        sch[path] = TColl(K)
        sch[path + '.$e.name'] = TStr()
        sch[path + '.$e.v'] = TArr()
        loops[lid] = Loop(inv=[('%s:the-live-value-array-of-the-instance-is-filed-under-its-own-name' % path.split('.')[-1], live(path))], assume=[('reset', reset)],
                          frame=['$instance', path + '.$e.*'])
    sch['self.discrete'] = TColl(K)
    loops[4] = Loop(inv=[], frame=['$instance', '$name', '$val', 'self.discrete.$e.*', 'flagpairs.$e.*'])
    loops[5] = Loop(inv=[], frame=['$name', '$val', 'flagpairs.$e.*'])
    sch['flagpairs.$e.f0'] = TStr()
    sch['flagpairs.$e.f1'] = TOpaque('FlagArray')
    loops[7] = Loop(inv=[('config-fields-are-filed-with-their-current-values(refresh=True)', cfg)], assume=[('reset', reset)], frame=['$key', '$val', 'cfg.$e.*'])
    c = Contract(FM, 'Model.refresh_inputs', pid=pid, params={'self': TObj()}, schema=dict(sch, **{'self.n': TInt()}),
                 ghost_init={'stores': [], 'cfg_current': False},
                 calls={'__setitem__': setitem, 'self.config.as_dict': as_dict, 'np.array': np_array, 'np.zeros': lambda ex, st, a, k, n: Mark('zeros'),
                        'np.ones': lambda ex, st, a, k, n: Mark('ones'), 'np.full': lambda ex, st, a, k, n: Mark('full'),
                        'zip': zip_flags,
                        'self.discrete.$e.get_names': lambda ex, st, a, k, n: Mark('names'), 'self.discrete.$e.get_values': lambda ex, st, a, k, n: Mark('values')},
                 globals_={'zip': Func('zip')},
                 loops=loops, ensures=[], modifies=[])
    c.properties = {'self._input': lambda ex, st: Mark('_input'), 'self._input_z': lambda ex, st: Mark('_input_z')}
    c.merge = False

    def pre_state(st):
        st.ghost.pop('in_iter', None)
    c.pre_state = pre_state
    return c


def replay_refresh_inputs(obligation=None, model=None, meta=None):
    """native: configuration fields assigned on the live objects after loading (the documented way: ss.PQ.config.p2p = 1.0) are what the
    generated functions receive after the next refresh"""
    import contextlib
    import io
    import logging
    import numpy as np
    import andes
    logging.getLogger('andes').setLevel(logging.CRITICAL)
    with contextlib.redirect_stdout(io.StringIO()), contextlib.redirect_stderr(io.StringIO()):
        ss = andes.load(andes.get_case('ieee14/ieee14_linetrip.xlsx'), default_config=True, no_output=True)
        ss.PQ.config.p2p, ss.PQ.config.p2i, ss.PQ.config.p2z = 1.0, 0.0, 0.0
        ss.PQ.config.q2q, ss.PQ.config.q2i, ss.PQ.config.q2z = 0.5, 0.25, 0.25
        ss.Bus.config.flat_start = 1
        ss.PFlow.run()
        ss.TDS.init()
    n = 0
    for mname, m in ss.models.items():
        if m.n == 0:
            continue
        for key, val in m.config.as_dict(refresh=True).items():
            n += 1
            got = m._input.get(key)
            if got is None or not np.all(np.asarray(got) == val):
                return {'confirmed': True, 'inputs': {'case': 'ieee14_linetrip', 'assigned after loading': 'PQ.config.p2p, p2i, p2z = 1, 0, 0; q2q, q2i, q2z = 0.5, 0.25, 0.25; Bus.config.flat_start = 1'},
                        'observed': 'the argument table of %s holds %s = %r, the configuration holds %r' % (mname, key, None if got is None else np.asarray(got).tolist(), val),
                        'native_cmd': 'contracts/C02_binding.py replay_refresh_inputs'}
    return {'confirmed': False, 'tried': n}


replay_refresh_inputs.real_system = True


def _arg_lists_follow_the_name_table(ss, case, phase, n):
    for mname, m in ss.models.items():
        if m.n == 0:
            continue
        # a list that was never built counts as empty (a model without such calls does not need it)
        lists = [(k, getattr(m.calls, k), getattr(m, k, ())) for k in ('f_args', 'g_args', 'sns_args')]
        for key in ('j_args', 's_args', 'ia_args', 'ii_args', 'ij_args'):
            src = m.calls.__dict__[key]
            for name in src:
                lists.append(('%s[%s]' % (key, name), src[name], getattr(m, key, {}).get(name, ())))
        for label, names, values in lists:
            where = {'case': case, 'when': phase, 'model': mname, 'list': label}
            if len(names) != len(values):
                return {'confirmed': True, 'inputs': where, 'observed': '%d argument names, %d values' % (len(names), len(values)),
                        'native_cmd': 'contracts/C02_binding.py replay_inputs_arg'}, n
            for arg, val in zip(names, values):
                n += 1
                if val is not m._input[arg]:
                    live = arg == 'dae_t'
                    return {'confirmed': True, 'inputs': dict(where, argument=arg),
                            'observed': 'the entry is not the object filed under this name in the argument table (%s)' % (
                                'the simulation time would stay frozen for this function' if live else 'a copy or another value: the function no longer sees what changes in place'),
                            'native_cmd': 'contracts/C02_binding.py replay_inputs_arg'}, n
    return None, n


def replay_inputs_arg(obligation=None, model=None, meta=None):
    """native: after TDS.init every entry of every per-function argument list (f, g, sns, j, s, ia, ii, ij) of every model with devices IS
    the object the name table holds for that argument name -- in particular the live time array for 'dae_t' -- so that values which
    change in place (time, variables, flags) are seen by every generated function"""
    import contextlib
    import io
    import logging
    import andes
    logging.getLogger('andes').setLevel(logging.CRITICAL)
    n = 0
    from andes.utils.snapshot import save_ss, load_ss
    # ieee14_dgprct1: PVD1 carries sequential variable services that read the model's own variables in every iteration
    for case in ('kundur/kundur_full.xlsx', 'ieee14/ieee14_full.xlsx', 'ieee14/ieee14_dgprct1.xlsx'):
        with contextlib.redirect_stdout(io.StringIO()), contextlib.redirect_stderr(io.StringIO()):
            ss = andes.load(andes.get_case(case), default_config=True, no_output=True)
            ss.PFlow.run()
            ss.TDS.init()
        phases = [('after TDS.init', ss)]
        if case != 'ieee14/ieee14_full.xlsx':
            # the same must hold for a system restored from a snapshot: its arrays are new objects and every list has to follow them
            with contextlib.redirect_stdout(io.StringIO()), contextlib.redirect_stderr(io.StringIO()):
                buf = io.BytesIO()
                save_ss(buf, ss)
                buf.seek(0)
                phases.append(('after TDS.init, save_ss and load_ss', load_ss(buf)))
        for phase, sys_ in phases:
            bad, n = _arg_lists_follow_the_name_table(sys_, case, phase, n)
            if bad:
                return bad
    return {'confirmed': False, 'tried': n}


replay_inputs_arg.real_system = True


def replay_find_stale(obligation=None, model=None, meta=None):
    """native: after a System has been constructed (code loaded, staleness checked once), an equation string of one model is edited on the
    live object: the next staleness query must report that model, and no other"""
    import logging
    import andes
    logging.getLogger('andes').setLevel(logging.CRITICAL)
    ss = andes.System(default_config=True)
    first = list(ss._find_stale_models().keys())
    if first:
        return {'confirmed': False, 'note': 'models stale before any edit: %r' % first[:5]}
    n = 0
    for mname, vname in (('GENCLS', 'delta'), ('PQ', 'a'), ('TGOV1', 'pout')):
        n += 1
        var = ss.__dict__[mname].__dict__[vname]
        old = var.e_str
        var.e_str = '(%s) + 0.125' % old
        try:
            stale = list(ss._find_stale_models().keys())
        finally:
            var.e_str = old
        if stale != [mname]:
            return {'confirmed': True, 'inputs': {'edit': '%s.%s.e_str gets "+ 0.125" on the live object of a System constructed before' % (mname, vname)},
                    'observed': '_find_stale_models() reports %r, expected [%r]' % (stale, mname), 'native_cmd': 'contracts/C02_binding.py replay_find_stale'}
    return {'confirmed': False, 'tried': n}


replay_find_stale.real_system = True
