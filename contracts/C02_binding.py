def add_obligations(pack, ss, tier):
    pass
