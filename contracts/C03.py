"""
C03 -- Jacobians are the exact residual derivatives, stored at the right addresses.

Expression part: every element of every generated ``<j>_update`` equals d(declared equation ijac[k]) /
d(variable jjac[k]) computed by our own forward-mode differentiator; pairs that are not in a table have derivative
zero; constant tables carry exactly the declared diag_eps.  Function part (symex): address mapping, pattern,
accumulation (see C03_assembly).
"""
import shutil

from pyvc import exprvc
from pyvc.report import Pack
from contracts.C02 import TRUSTED


def run(tier, seed):
    pack = Pack('C03', tier, seed)
    pack.trust(*TRUSTED)
    pack.assume(
        'derivatives are compared on the domain where the declared derivative exists: denominators non-zero, sqrt '
        'arguments positive, abs arguments non-zero; Piecewise/Indicator terms are differentiated branch-wise '
        '(valid off the breakpoints, which is what the property asks for closed-form equations)',
        'finite-difference agreement of the assembled matrices is replaced by the symbolic statement plus the '
        'assembly contracts; hand-written j_numeric blocks are not covered',
    )
    ss, d = exprvc.generate()
    try:
        bundles = {n: exprvc.bundle_of(m) for n, m in ss.models.items()}
        results, missing = exprvc.run_models(bundles, d, 'C03')
        for m in missing:
            results.append(exprvc._structural('C03/pycode/%s.py:exists' % m, False, 'no generated file for model'))
        exprvc.settle(pack, results, bundles, d, seed)
        n, failed = exprvc.canaries(bundles, d, 'C02')
        pack.vacuity['canaries'] += n
        pack.vacuity['failed'] += failed
        per_model = {}
        for r in results:
            mdl = r['name'].split('pycode/')[1].split('.py')[0] if 'pycode/' in r['name'] else '?'
            per_model[mdl] = per_model.get(mdl, 0) + 1
        for mdl, cnt in per_model.items():
            pack.add_function('pycode/%s.py: fx/fy/gx/gy_update + ijac/jjac/vjac tables' % mdl,
                              'andes/core/symprocessor.py', obligations=cnt,
                              sha=bundles[mdl]['md5'] if mdl in bundles else None,
                              dropped='nothing: each generated function is a single return expression')
        pack.extra['models'] = len(bundles)
        from contracts import C03_assembly
        C03_assembly.add_obligations(pack, ss, tier)
        bounded_fd(pack)
    finally:
        shutil.rmtree(d, ignore_errors=True)
    return pack.finish()


def bounded_fd(pack):
    """bounded native stand-in for the assembled-level clause: finite differences of the assembled residual"""
    from contracts.packutil import native_guard
    from contracts import bounded_jacobian_fd as FD
    name = 'C03/andes/system.py:System.j_update/bounded:assembled-matrices-agree-with-finite-differences-of-the-assembled-residual'
    del FD.seen_known[:]
    r = native_guard(pack, name, FD.run)
    if r is None:
        return
    n, bad = r
    pack.bounded.append({'function': 'System.j_update / fg_update (assembled level)', 'columns_compared': n, 'counted_as_proved': False,
                         'kind': 'bounded native: central finite differences on %s, before and after opening a line' % ', '.join(FD.CASES)})
    if FD.seen_known:
        kname = name + ':F33'
        if pack.known_for(kname):
            for k in pack.known_for(kname):
                pack.known_finding(k)
        elif not bad:
            row = FD.seen_known[0]
            bad = {'case': row[0], 'observed': 'd(%s)/d(%s) is missing from the assembled matrices (%d such entries)' % (row[1], row[2], len(FD.seen_known))}
    if bad:
        pack.violation(name, {'bounded': True, 'inputs': bad, 'native_cmd': 'contracts/bounded_jacobian_fd.py'})
    # the Jacobian functions receive live values (time, variables, flags), not snapshots taken when the argument lists were built
    from contracts import C02_binding
    name3 = 'C03/andes/core/model/model.py:Model.refresh_inputs_arg/bounded:Jacobian-argument-lists-hold-the-live-objects-of-the-name-table'
    r = native_guard(pack, name3, C02_binding.replay_inputs_arg)
    if r is not None:
        pack.bounded.append({'function': 'Model.refresh_inputs_arg (all models of two stock cases after TDS.init)', 'entries': r.get('tried', 0), 'counted_as_proved': False,
                             'kind': 'bounded native: object identity of every argument with the name table'})
        if r.get('confirmed'):
            pack.violation(name3, {'bounded': True, 'inputs': r.get('inputs'), 'observed': r.get('observed'), 'native_cmd': r.get('native_cmd')})
    # "the matrices handed to the Newton solvers": the time-domain iteration matrix built from these blocks
    from contracts import bounded_itm_matrix as BIM
    name2 = 'C03/andes/routines/daeint.py:calc_jac/bounded:the-matrix-handed-to-the-time-domain-Newton-solver-is-the-derivative-of-its-residual(both-methods)'
    r = native_guard(pack, name2, BIM.run)
    if r is not None:
        n2, bad2 = r
        pack.bounded.append({'function': 'Trapezoid / BackEuler calc_jac against calc_q (kundur_full after TDS.init)', 'methods': n2, 'counted_as_proved': False,
                             'kind': 'bounded native'})
        if bad2:
            pack.violation(name2, {'bounded': True, 'inputs': bad2, 'native_cmd': 'contracts/bounded_itm_matrix.py'})
