"""Function part of C03: Jacobian triplet addressing, pattern construction, value update and accumulation order."""
import ast
import z3

from pyvc.symex import Contract, Loop, spec, View, to_z3, as_real
from pyvc.symval import (TArr, TBool, TInt, TObj, TOpaque, TReal, TSeq, TStr, TConst, NR, fresh, I, R, Bo, Func, Opaque, Module, Ref,
                         ArrC, ListC, DictC, MapC, TMap, Unsupported, Obj, TColl, Coll, SeqC)
from contracts.packutil import run_contracts

FM = 'andes/core/model/model.py'
FS = 'andes/system.py'
FD = 'andes/variables/dae.py'
JAC = ('fx', 'fy', 'gx', 'gy')
JAC_FULL = ('fx', 'fxc', 'fy', 'fyc', 'gx', 'gxc', 'gy', 'gyc')
K = TStr.sort


def _full_slice(sl):
    return isinstance(sl, ast.Slice) and sl.lower is None and sl.upper is None and sl.step is None


def model_j_update(pid):
    """Model.j_update: for every Jacobian name, entry #idx of the generated function's result is stored IN PLACE into the
    idx-th value array of the model's triplets for the same name (the sparse pattern holds these very arrays)."""
    def jfunc(j):
        def h(ex, st, args, kw, node):
            pk = st.ghost['j_args'][j]
            ok = len(args) == 1 and isinstance(args[0], tuple) and args[0][0] == 'star' and args[0][1] is pk and not kw
            ex.oblige(st, 'pre@call:calls.j[%s]:called-with-*self.j_args[%s]' % (j, j), z3.BoolVal(bool(ok)), {})
            return ('ret', j)
        return h

    def getitem(ex, st, args, kw, node):
        base, sl = args
        if isinstance(base, tuple) and base and base[0] in ('ret', 'tripl'):
            return (base[0] + '_elem', base[1], to_z3(ex.ev(sl, st)))
        return NotImplemented

    def setitem(ex, st, args, kw, node):
        base, sl, value = args
        ok = (isinstance(base, tuple) and base[0] == 'tripl_elem' and isinstance(value, tuple) and value[0] == 'ret_elem'
              and base[1] == value[1] == st.env['jname'] and _full_slice(sl))
        same = z3.And(base[2] == value[2], base[2] == to_z3(st.env['idx'])) if ok else z3.BoolVal(False)
        ex.oblige(st, 'pre@store:triplets.vjac[<j>][#idx][:]=result[#idx](same-name,same-position,in-place)', same, {})
        st.ghost['stored'] = True
        return None

    def reset(v):
        v.st.ghost['stored'] = False
        v.st.ghost['in_iter'] = True
        return True

    def stored(v):
        if not v.st.ghost.get('in_iter'):
            return True
        s_ = v.st.ghost['stored']
        return s_ if z3.is_expr(s_) else z3.BoolVal(bool(s_))
    sch = {}
    for j in JAC:
        sch['self.calls.vjac_%s' % j] = TSeq()
    c = Contract(FM, 'Model.j_update', pid=pid, params={'self': TObj()}, schema=sch, ghost_init={'stored': False},
                 calls=dict([('calls.j.%s' % j, jfunc(j)) for j in JAC] + [('__getitem__', getitem), ('__setitem__', setitem)]),
                 loops={1: Loop(inv=[('every-generated-entry-is-stored', stored)], assume=[('reset', reset)],
                                frame=['$idx', '$fun', 'ghost:stored', 'ghost:in_iter'])},
                 ensures=[], modifies=[])
    c.star_ok = True
    c.merge = False

    def pre_state(st):
        packs = {j: Opaque(fresh('j_args_' + j, z3.DeclareSort('ArgList'))) for j in JAC}
        st.ghost['j_args'] = packs
        st.heap['self.calls.j'] = st.new_ref(DictC({j: Func('calls.j.%s' % j) for j in JAC}), 'calls.j')
        st.heap['self.j_args'] = st.new_ref(DictC(dict(packs)), 'j_args')
        st.heap['self.calls.vjac'] = st.new_ref(DictC({j: st.load('self.calls.vjac_%s' % j) for j in JAC}), 'calls.vjac')
        st.heap['self.triplets.vjac'] = st.new_ref(DictC({j: ('tripl', j) for j in JAC}), 'triplets.vjac')
        st.ghost.pop('in_iter', None)
    c.pre_state = pre_state
    return c


def jac_eq_var_name(pid):
    """Model._jac_eq_var_name: row name = name of equation #ijac[j][idx] counted within the states (f) or within the algebraics
    (g) -- all_vars lists states first; column name = name of variable #jjac[j][idx] counted over all variables."""
    NS = fresh('n_states', I)
    NAMES = fresh('all_var_names', z3.ArraySort(I, K))
    NV = fresh('n_vars', I)
    ROW, COL = fresh('row', I), fresh('col', I)

    def keys(ex, st, args, kw, node):
        return st.new_ref(SeqC(NAMES, NV), 'names')

    def getitem(ex, st, args, kw, node):
        base, sl = args
        if isinstance(base, tuple) and base and base[0] in ('ijac', 'jjac'):
            if len(base) == 1:
                return (base[0], ex.ev(sl, st))
            ok = base[1] == st.env['j_name'] and to_z3(ex.ev(sl, st)) is to_z3(st.env['idx'])
            st.ghost['lookup_ok'] = st.ghost['lookup_ok'] and bool(ok)
            return ROW if base[0] == 'ijac' else COL
        return NotImplemented

    def mk(jn):
        off = z3.IntVal(0) if jn[0] == 'f' else NS
        lim = NS if jn[0] == 'f' else NV - NS

        def post(old, new, res):
            if not (isinstance(res, tuple) and len(res) == 2):
                return False
            return z3.And(to_z3(res[0]) == NAMES[off + ROW], to_z3(res[1]) == NAMES[COL], z3.BoolVal(new.st.ghost['lookup_ok']))
        c = Contract(FM, 'Model._jac_eq_var_name', pid=pid, params={'self': TObj(), 'j_name': TConst(jn), 'idx': TInt()},
                     schema={'self.cache.states_and_ext': TColl()}, ghost_init={'lookup_ok': True},
                     requires=[('shape', lambda v: z3.And(v.z('self.cache.states_and_ext.size') == NS if False else True, NS >= 0, NV >= NS,
                                                          ROW >= 0, ROW < lim, COL >= 0, COL < NV))],
                     calls={'list': lambda ex, st, a, k, n: a[0], 'self.cache.all_vars.keys': keys, '__getitem__': getitem,
                            'len': None},
                     ensures=[('row=name-of-equation-within-its-class;col=name-of-variable[%s]' % jn, post)], modifies=[])
        c.tag = jn

        def pre_state(st):
            st.heap['self.calls.ijac'] = ('ijac',)
            st.heap['self.calls.jjac'] = ('jjac',)
            coll = st.load('self.cache.states_and_ext')
            st.assume(coll.n == NS)
        c.pre_state = pre_state
        return c
    return [mk('fx'), mk('gy'), mk('gxc'), mk('fyc')]


def _seq(st, v):
    c = st.content(v)
    return (c.arr if isinstance(c, SeqC) else c.vals), c.n


def system_store_sparse_pattern(pid):
    """System.store_sparse_pattern: per Jacobian name the pattern lists (ii, jj, vv) grow in lockstep by exactly the rows, columns
    of every model triplet, with value 0 for variable entries and the declared constant for constant entries; gy starts with
    the full diagonal (k, k, 0), k < m; the lists are then stored under that name and the template built from them."""
    M = 'models.$e'
    sch = {'models': TColl(), 'self.dae.m': TInt(), 'self.dae.n': TInt()}
    for j in JAC_FULL:
        T = '%s.triplets.%s' % (M, j)
        sch[T] = TColl()
        sch[T + '.$e.f0'] = TArr(kind='int')
        sch[T + '.$e.f1'] = TArr(kind='int')
        sch[T + '.$e.f2'] = TArr() if not j.endswith('c') else TReal()

    def zip_ijv(ex, st, args, kw, node):
        j = args[0]
        return st.load('%s.triplets.%s' % (M, j))

    def lists(st):
        return [st.env[n] for n in ('ii', 'jj', 'vv')]

    def frame_lists(st):
        return [st.env[n].loc for n in ('ii', 'jj', 'vv') if isinstance(st.env.get(n), Ref)]

    def lockstep(v):
        (_, ni), (_, nj), (_, nv) = [_seq(v.st, r) for r in lists(v.st)]
        return z3.And(ni == nj, nj == nv)

    def diag(v):
        if v.st.env['jname'] != 'gy':
            return True
        (ai, ni), (aj, nj), (av, nv) = [_seq(v.st, r) for r in lists(v.st)]
        m = v.z('self.dae.m')
        k = fresh('k', I)
        return z3.And(ni >= m, z3.ForAll([k], z3.Implies(z3.And(k >= 0, k < m), z3.And(ai[k] == k, aj[k] == k, av[k] == 0))))

    def snap(const):
        def f(v):
            v.st.ghost['s0'] = [_seq(v.st, r) for r in lists(v.st)]
            v.st.ghost['in_iter'] = True
            T = '%s.triplets.%s.$e' % (M, v.st.env['jname'] + ('c' if const else ''))
            # guaranteed by Model.store_sparse_pattern (raises ValueError otherwise)
            return v.arr(T + '.f0').n == v.arr(T + '.f1').n
        return f

    def grown(const):
        def f(v):
            if not v.st.ghost.get('in_iter'):
                return True
            j = v.st.env['jname'] + ('c' if const else '')
            T = '%s.triplets.%s.$e' % (M, j)
            row, col = v.arr(T + '.f0'), v.arr(T + '.f1')
            (ai0, ni0), (aj0, nj0), (av0, nv0) = v.st.ghost['s0']
            (ai, ni), (aj, nj), (av, nv) = [_seq(v.st, r) for r in lists(v.st)]
            k = fresh('k', I)
            val = v.z(T + '.f2') if const else z3.RealVal(0)
            keep = z3.ForAll([k], z3.Implies(z3.And(k >= 0, k < ni0), z3.And(ai[k] == ai0[k], aj[k] == aj0[k], av[k] == av0[k])))
            added = z3.ForAll([k], z3.Implies(z3.And(k >= 0, k < row.n),
                                              z3.And(ai[ni0 + k] == row.vals[k], aj[nj0 + k] == col.vals[k], av[nv0 + k] == val)))
            return z3.And(ni == ni0 + row.n, nj == nj0 + row.n, nv == nv0 + row.n, keep, added)
        return f

    def call_models(ex, st, args, kw, node):
        ok = args[0] == 'store_sparse_pattern' and args[1] is st.env['models']
        st.ghost['order'] = st.ghost['order'] + [('call_models', bool(ok))]
        return None

    def same(st, a, b):
        (x, n), (y, m) = _seq(st, a), _seq(st, b)
        k = fresh('k', I)
        return z3.And(n == m, z3.ForAll([k], z3.Implies(z3.And(k >= 0, k < n), x[k] == y[k])))

    def store_ijv(ex, st, args, kw, node):
        j = st.env['jname']
        ok = args[0] == j and all(isinstance(a, Ref) for a in args[1:4])
        ex.oblige(st, 'pre@call:dae.store_sparse_ijv:<name>,rows,cols,values-in-this-order',
                  z3.And(z3.BoolVal(bool(ok)), *[z3.BoolVal(a is st.env[n]) for a, n in zip(args[1:4], ('ii', 'jj', 'vv'))]), {})
        st.ghost['order'] = st.ghost['order'] + [('store', j)]
        return None

    def build(ex, st, args, kw, node):
        st.ghost['order'] = st.ghost['order'] + [('build', args[0])]
        return None

    def post(old, new, res):
        want = [('call_models', True)]
        for j in JAC:
            want += [('store', j), ('build', j)]
        return z3.BoolVal(new.st.ghost['order'] == want)
    inner_frame = ['$row', '$col', '$val', frame_lists, 'ghost:s0', 'ghost:in_iter']
    c = Contract(FS, 'System.store_sparse_pattern', pid=pid, params={'self': TObj(), 'models': TColl()}, schema=sch,
                 ghost_init={'order': []},
                 requires=[('m>=0', lambda v: v.z('self.dae.m') >= 0)],
                 calls={'self.call_models': call_models, 'list': lambda ex, st, a, k, n: st.new_ref(SeqC(z3.K(I, z3.RealVal(0)), z3.IntVal(0)), 'lst'),
                        M + '.triplets.zip_ijv': zip_ijv, 'self.dae.store_sparse_ijv': store_ijv, 'self.dae.build_pattern': build},
                 globals_={'jac_names': JAC},
                 loops={1: Loop(inv=[('rows,cols,values-in-lockstep', lockstep), ('gy-diagonal-reserved', diag)],
                                frame=['$mdl', '$row', '$col', '$val', M + '.*', frame_lists, 'ghost:s0', 'ghost:in_iter']),
                        2: Loop(inv=[('rows,cols,values-in-lockstep', lockstep), ('gy-diagonal-reserved', diag),
                                     ('variable-triplet-appended:(row,col,0)', grown(False))], assume=[('triplet-rows-and-cols-have-equal-length', snap(False))],
                                frame=inner_frame),
                        3: Loop(inv=[('rows,cols,values-in-lockstep', lockstep), ('gy-diagonal-reserved', diag),
                                     ('constant-triplet-appended:(row,col,const)', grown(True))], assume=[('triplet-rows-and-cols-have-equal-length', snap(True))],
                                frame=inner_frame)},
                 ensures=[('models-first;then-per-name:store-lists,build-template', post)], modifies=[])
    c.merge = False

    def pre_state(st):
        st.ghost.pop('in_iter', None)
    c.pre_state = pre_state
    return c


def model_store_sparse_pattern(pid):
    """Model.store_sparse_pattern: triplets are cleared first; with devices and addresses present, for every full Jacobian name
    and every generated entry #idx one triplet is appended under that name: rows = addresses of the equation's variable,
    columns = addresses of the differentiated variable (names from _jac_eq_var_name(name, idx)), values = the declared constant
    repeated (constant names) or zeros (variable names), one per element of the row variable."""
    sch = {'self.n': TInt(), 'self.flags.address': TBool(), 'self.flags.j_num': TBool(), 'self.blocks': TColl(),
           'self.blocks.$e.flags.j_num': TBool(), 'rowvar.a': TArr(kind='int'), 'colvar.a': TArr(kind='int'), 'rowvar.n': TInt(),
           'self.class_name': TStr()}
    for j in JAC_FULL:
        sch['self.calls.vjac_%s' % j] = TSeq()
    NAME = z3.DeclareSort('VarName')

    def names(ex, st, args, kw, node):
        ok = args[0] == st.env['j_name'] and to_z3(args[1]) is to_z3(st.env['idx'])
        ex.oblige(st, 'pre@call:_jac_eq_var_name(<name>,#idx)', z3.BoolVal(bool(ok)), {})
        r, c_ = Opaque(fresh('row_name', NAME)), Opaque(fresh('col_name', NAME))
        st.ghost['names'] = (r, c_)
        return (r, c_)

    def objdict(ex, st, args, kw, node):
        k = args[1]
        r, c_ = st.ghost.get('names', (None, None))
        if k is r:
            return Obj('rowvar')
        if k is c_:
            return Obj('colvar')
        return NotImplemented

    def append(ex, st, args, kw, node):
        j = st.env['j_name']
        jn, rows, cols, value = args
        ok = jn == j and isinstance(rows, Ref) and rows.loc == st.load('rowvar.a').loc and isinstance(cols, Ref) \
            and cols.loc == st.load('colvar.a').loc and isinstance(value, Ref)
        goal = z3.BoolVal(bool(ok))
        if ok:
            c = st.content(value)
            n = to_z3(st.load('rowvar.n'))
            k = fresh('k', I)
            want = to_z3(st.env['val']) if j.endswith('c') else z3.RealVal(0)
            goal = z3.And(c.n == n, z3.ForAll([k], z3.Implies(z3.And(k >= 0, k < n), c.vals[k] == want)))
        ex.oblige(st, 'pre@call:append_ijv(<name>,row.a,col.a,const*ones|zeros)', goal, {})
        st.ghost['appended'] = True
        return None

    def reset(v):
        v.st.ghost['appended'] = False
        v.st.ghost['in_iter'] = True
        return True

    def appended(v):
        if not v.st.ghost.get('in_iter'):
            return True
        a = v.st.ghost['appended']
        return a if z3.is_expr(a) else z3.BoolVal(bool(a))

    def order(tag):
        def h(ex, st, args, kw, node):
            st.ghost['order'] = st.ghost['order'] + [tag]
            return None
        return h

    def post(old, new, res):
        o = new.st.ghost['order']
        return z3.BoolVal(len(o) >= 1 and o[0] == 'clear' and o.count('clear') == 1)
    loops = {0: Loop(inv=[], frame=['$instance', 'self.blocks.$e.*', 'ghost:order'])}
    for i in range(8):
        loops[2 + i] = None
    c = Contract(FM, 'Model.store_sparse_pattern', pid=pid, params={'self': TObj()}, schema=sch,
                 ghost_init={'order': [], 'appended': False},
                 requires=[('n>=0', lambda v: z3.And(v.z('self.n') >= 0, v.z('rowvar.n') >= 0))],
                 calls={'self.triplets.clear_ijv': order('clear'), 'self.j_numeric': order('j_numeric'),
                        'self.blocks.$e.j_numeric': order('block.j_numeric'), 'self.triplets.merge': order('merge'),
                        'self._jac_eq_var_name': names, '__objdict__': objdict, 'self.triplets.append_ijv': append,
                        'logger.error': lambda ex, st, a, k, n: None},
                 globals_={'jac_full_names': JAC_FULL},
                 loops={0: Loop(inv=[], frame=['$instance', 'self.blocks.$e.*', 'ghost:order']),
                        2: Loop(inv=[('one-triplet-per-generated-entry', appended)], assume=[('reset', reset)],
                                frame=['$idx', '$val', '$row_name', '$col_name', '$row_idx', '$col_idx', '$n_elem', '$value', 'rowvar.*',
                                       'colvar.*', 'ghost:names', 'ghost:appended', 'ghost:in_iter'])},
                 ensures=[('triplets-cleared-first', post)],
                 raises={'ValueError': [('only-when-row-and-column-address-lengths-differ',
                                         lambda o, n, p: n.arr('rowvar.a').n != n.arr('colvar.a').n)]},
                 modifies=['rowvar.*', 'colvar.*'])
    c.merge = False

    def pre_state(st):
        st.heap['self.calls.vjac'] = st.new_ref(DictC({j: st.load('self.calls.vjac_%s' % j) for j in JAC_FULL}), 'calls.vjac')
        st.ghost.pop('in_iter', None)
    c.pre_state = pre_state
    return c


MAT = z3.DeclareSort('SparseMatrix')


def system_j_update(pid):
    """System.j_update: model values first, then the matrices are reset to the stored pattern, then every triplet of every model
    is accumulated exactly once into the matrix of its own name (values, rows, columns in kvxopt's order; full matrix size when
    rebuilding), then the islanded-bus patch."""
    M = 'models.$e'
    sch = {'models': TColl(), 'self.config.ipadd': TBool(), 'self.dae.t': TReal()}
    for j in JAC:
        T = '%s.triplets.%s' % (M, j)
        sch[T] = TColl()
        sch[T + '.$e.f0'] = TArr(kind='int')
        sch[T + '.$e.f1'] = TArr(kind='int')
        sch[T + '.$e.f2'] = TArr()
        sch['self.dae.' + j] = TOpaque('SparseMatrix')

    def order(tag):
        def h(ex, st, args, kw, node):
            st.ghost['order'] = st.ghost['order'] + [tag if not callable(tag) else tag(st, args)]
            return None
        return h

    def trip(st):
        T = '%s.triplets.%s.$e' % (M, st.env['j_name'])
        return [st.load(T + '.f%d' % i) for i in range(3)]

    def is_cur(st, rows, cols, vals):
        r, c_, v_ = trip(st)
        return bool(isinstance(rows, Ref) and isinstance(cols, Ref) and isinstance(vals, Ref) and rows.loc == r.loc
                    and cols.loc == c_.loc and vals.loc == v_.loc)

    def ipadd(ex, st, args, kw, node):
        base, vals, rows, cols = args
        cur = st.load('self.dae.' + st.env['j_name'])
        ok = isinstance(base, Opaque) and base.term.eq(cur.term) and is_cur(st, rows, cols, vals)
        ex.oblige(st, 'pre@call:ipadd(values,rows,cols)-into-dae.<name>', z3.BoolVal(bool(ok)), {})
        st.ghost['acc'] = st.ghost['acc'] + 1
        return None

    def spm(ex, st, args, kw, node):
        return ('spm',) + tuple(args)

    def binop(ex, st, args, kw, node):
        op, a, b = args
        if isinstance(b, tuple) and b and b[0] == 'spm':
            cur = st.load('self.dae.' + st.env['j_name'])
            ok = (isinstance(op, ast.Add) and isinstance(a, Opaque) and a.term.eq(cur.term) and len(b) == 6 and is_cur(st, b[2], b[3], b[1])
                  and b[4] == ('size', st.env['j_name']) and b[5] == 'd')
            ex.oblige(st, 'pre@binop:dae.<name>+=spmatrix(values,rows,cols,size-of-<name>)', z3.BoolVal(bool(ok)), {})
            st.ghost['acc'] = st.ghost['acc'] + 1
            return Opaque(fresh('mat', MAT))
        return NotImplemented

    def reset(v):
        v.st.ghost['acc'] = 0
        v.st.ghost['in_iter'] = True
        return True

    def once(v):
        if not v.st.ghost.get('in_iter'):
            return True
        a = v.st.ghost['acc']
        return a == 1 if z3.is_expr(a) else z3.BoolVal(a == 1)

    def post(old, new, res):
        return z3.BoolVal(new.st.ghost['order'] == [('call_models', True), 'restore_sparse', 'j_islands'])
    mats = ['self.dae.' + j for j in JAC]
    c = Contract(FS, 'System.j_update', pid=pid, params={'self': TObj(), 'models': TColl(), 'info': TConst(None)}, schema=sch,
                 ghost_init={'order': [], 'acc': 0},
                 calls={'self.call_models': order(lambda st, a: ('call_models', a[0] == 'j_update' and a[1] is st.env['models'])),
                        'self.dae.restore_sparse': order('restore_sparse'), 'self.j_islands': order('j_islands'),
                        'self.dae.get_size': lambda ex, st, a, k, n: ('size', a[0]),
                        M + '.triplets.zip_ijv': lambda ex, st, a, k, n: st.load('%s.triplets.%s' % (M, a[0])),
                        '<value>.ipadd': ipadd, 'spmatrix': spm, '__binop__': binop, 'logger.debug': lambda ex, st, a, k, n: None,
                        'logger.error': lambda ex, st, a, k, n: None},
                 globals_={'jac_names': JAC, 'spmatrix': Func('spmatrix')},
                 loops={1: Loop(inv=[], frame=['$mdl', '$rows', '$cols', '$vals', M + '.*', 'ghost:acc', 'ghost:in_iter'] + mats),
                        2: Loop(inv=[('each-triplet-accumulated-exactly-once', once)], assume=[('reset', reset)],
                                frame=['$rows', '$cols', '$vals', 'ghost:acc', 'ghost:in_iter'] + mats)},
                 ensures=[('model-values,restore-pattern,accumulate,island-patch-in-this-order', post)], modifies=mats)
    c.merge = False

    def pre_state(st):
        st.ghost.pop('in_iter', None)
    c.pre_state = pre_state
    return c


def dae_restore_sparse(pid):
    """DAE.restore_sparse: each requested matrix is rebuilt from its own template (values, rows, columns, size)."""
    out = []
    for names in (None, 'gy'):
        def spm(ex, st, args, kw, node):
            return ('spm',) + tuple(args)

        def store(ex, st, args, kw, node):
            base, sl, value = args
            key = ex.ev(sl, st) if isinstance(sl, ast.AST) else sl
            ok = (isinstance(value, tuple) and len(value) == 6 and value[0] == 'spm' and isinstance(key, str)
                  and all(isinstance(x, Opaque) for x in value[1:5])
                  and all(x.term.eq(y.term) for x, y in zip(value[1:5], [st.load('tpl_%s.%s' % (key, f)) for f in ('V', 'I', 'J', 'size')]))
                  and value[5] == 'd')
            ex.oblige(st, 'pre@store:dae.<name>=spmatrix(tpl[<name>].V,.I,.J,.size)', z3.BoolVal(bool(ok)), {})
            st.ghost['done'] = st.ghost['done'] + [key]
            return None
        want = list(JAC) if names is None else [names]
        sch = {}
        for j in JAC:
            for f in ('V', 'I', 'J', 'size'):
                sch['tpl_%s.%s' % (j, f)] = TOpaque('Tpl' + f)
        c = Contract(FD, 'DAE.restore_sparse', pid=pid, params={'self': TObj(), 'names': TConst(names)}, schema=sch,
                     ghost_init={'done': []}, calls={'spmatrix': spm, '__store__': store},
                     globals_={'jac_names': JAC, 'spmatrix': Func('spmatrix'), 'str': Func('str')},
                     ensures=[('exactly-the-requested-matrices-restored', lambda o, n, r, want=want: z3.BoolVal(n.st.ghost['done'] == want))],
                     modifies=['self.*'])
        c.merge = False
        c.tag = str(names)

        def pre_state(st):
            st.heap['self.tpl'] = st.new_ref(DictC({j: Obj('tpl_' + j) for j in JAC}), 'tpl')
        c.pre_state = pre_state
        out.append(c)
    return out


def dae_build_pattern(pid):
    """DAE.build_pattern: the template of <name> is built from the stored (values, rows, columns) of the same name with the
    size of that name, and the live matrix is then restored from it; store_sparse_ijv files rows/cols/values under their own
    keys."""
    def spm(ex, st, args, kw, node):
        return ('spm',) + tuple(args)

    def post(old, new, res):
        t = new.st.content(new.st.load('self.tpl')).items.get('gx')
        ok = (isinstance(t, tuple) and len(t) == 6 and t[0] == 'spm' and t[1:4] == (('v', 'gx'), ('i', 'gx'), ('j', 'gx'))
              and t[4] == ('size', 'gx') and t[5] == 'd')
        return z3.BoolVal(bool(ok) and new.st.ghost['order'] == [('restore', 'gx')])
    c = Contract(FD, 'DAE.build_pattern', pid=pid, params={'self': TObj(), 'name': TConst('gx')}, schema={},
                 ghost_init={'order': []},
                 calls={'spmatrix': spm, 'self.get_size': lambda ex, st, a, k, n: ('size', a[0]),
                        'self.restore_sparse': lambda ex, st, a, k, n: st.ghost.__setitem__('order', st.ghost['order'] + [('restore', a[0])]),
                        'logger.error': lambda ex, st, a, k, n: None},
                 globals_={'spmatrix': Func('spmatrix')},
                 ensures=[('tpl[name]=spmatrix(v[name],i[name],j[name],size(name));then-restore(name)', post)], modifies=['self.*'])
    c.merge = False

    def pre_state(st):
        st.heap['self.tpl'] = st.new_ref(DictC({}), 'tpl')
        for f, a in (('i', 'ijac'), ('j', 'jjac'), ('v', 'vjac')):
            st.heap['self.triplets.' + a] = st.new_ref(DictC({j: (f, j) for j in JAC}), a)
    c.pre_state = pre_state

    def post2(old, new, res):
        g = lambda a: new.st.content(new.st.load('self.triplets.' + a)).items.get('fy')     # noqa
        return z3.BoolVal(g('ijac') is new.st.env['row'] and g('jjac') is new.st.env['col'] and g('vjac') is new.st.env['val'])
    c2 = Contract(FD, 'DAE.store_sparse_ijv', pid=pid, params={'self': TObj(), 'name': TConst('fy'), 'row': TArr(kind='int'),
                                                               'col': TArr(kind='int'), 'val': TArr()}, schema={},
                  ensures=[('rows->ijac[name],cols->jjac[name],values->vjac[name]', post2)], modifies=['self.*'])

    def pre_state2(st):
        for a in ('ijac', 'jjac', 'vjac'):
            st.heap['self.triplets.' + a] = st.new_ref(DictC({}), a)
    c2.pre_state = pre_state2
    return [c, c2]


def j_islands(pid):
    """System.j_islands (in-place mode): afterwards, for every islanded bus k, gy[a_k, a_k] = gy[v_k, v_k] = diag_eps and
    gy[a_k, v_k] = gy[v_k, a_k] = 0; without islanded buses gy is untouched.  gy is modelled as a function (row, col) -> value;
    ipset(val, rows, cols) sets entry (rows[j], cols[j]) to val for every j."""
    GY0 = z3.Function('gy_before', I, I, R)
    NI = fresh('n_islanded', I)

    def cur(st):
        return st.ghost['gy']

    def ipset(ex, st, args, kw, node):
        base, val, rows, cols = args
        gy = st.load('self.dae.gy')
        ok = isinstance(base, Opaque) and base.term.eq(gy.term) and isinstance(rows, Ref) and isinstance(cols, Ref)
        ex.oblige(st, 'pre@call:ipset-on-dae.gy-with-index-arrays', z3.BoolVal(bool(ok)), {})
        if not ok:
            return None
        r, c_ = st.content(rows), st.content(cols)
        ex.oblige(st, 'pre@call:ipset:rows-and-cols-have-equal-length', r.n == c_.n, {})
        x = as_real(val).val
        old = cur(st)
        j = fresh('j', I)
        st.ghost['gy'] = lambda i, k, old=old, r=r, c_=c_, x=x, j=j: z3.If(
            z3.Exists([j], z3.And(j >= 0, j < r.n, z3.ToInt(r.vals[j]) == i, z3.ToInt(c_.vals[j]) == k)), x, old(i, k))
        st.ghost['nset'] = st.ghost['nset'] + 1
        return None

    def post(old, new, res):
        a, v = old.arr('self.Bus.islanded_a'), old.arr('self.Bus.islanded_v')
        eps = old.z('self.config.diag_eps')
        gy = cur(new.st)
        k, i, j = fresh('k', I), fresh('i', I), fresh('j', I)
        ak, vk = z3.ToInt(a.vals[k]), z3.ToInt(v.vals[k])
        patched = z3.ForAll([k], z3.Implies(z3.And(k >= 0, k < NI), z3.And(gy(ak, ak) == eps, gy(vk, vk) == eps, gy(ak, vk) == 0,
                                                                           gy(vk, ak) == 0)))
        untouched = z3.BoolVal(new.st.ghost['nset'] == 0)
        return z3.If(old.z('self.Bus.n_islanded_buses') == 0, untouched, patched)

    def pre(v):
        a, vv = v.arr('self.Bus.islanded_a'), v.arr('self.Bus.islanded_v')
        p, q = fresh('p', I), fresh('q', I)
        return z3.And(a.n == NI, vv.n == NI, NI >= 0, v.z('self.Bus.n_islanded_buses') == NI,
                      # the angle and voltage addresses of buses are pairwise distinct (C10)
                      z3.ForAll([p, q], z3.Implies(z3.And(p >= 0, p < NI, q >= 0, q < NI), z3.And(
                          a.vals[p] != vv.vals[q], z3.Implies(p != q, z3.And(a.vals[p] != a.vals[q], vv.vals[p] != vv.vals[q]))))))
    c = Contract(FS, 'System.j_islands', pid=pid, params={'self': TObj()},
                 schema={'self.Bus.n_islanded_buses': TInt(), 'self.Bus.islanded_a': TArr(kind='int'), 'self.Bus.islanded_v': TArr(kind='int'),
                         'self.config.ipadd': TConst(True), 'self.config.diag_eps': TReal(), 'self.dae.gy': TOpaque('SparseMatrix')},
                 requires=[('islanded-address-lists-paired-and-distinct', pre)],
                 ghost_init={'gy': lambda v: (lambda i, k: GY0(i, k)), 'nset': 0}, calls={'<value>.ipset': ipset},
                 ensures=[('diag=eps,cross=0-for-every-islanded-bus;untouched-otherwise', post)], modifies=[])
    c.merge = False
    return c


def j_islands_rebuild(pid):
    """System.j_islands (rebuild mode, config.ipadd false): gy is replaced by gy + (sparse matrices built from value / row / column lists);
    afterwards gy[a_k, a_k] = gy[v_k, v_k] = diag_eps for every islanded bus k, the cross entries gy[a_k, v_k], gy[v_k, a_k] are kept or
    zero, and every other entry is the one before the call.
    gy is a function (row, col) -> value; gy[i, j] reads it; spmatrix(vals, rows, cols, size, 'd') with pairwise distinct (row, col)
    pairs is the matrix D with D[rows[j], cols[j]] = vals[j] and 0 elsewhere (assumed kvxopt contract); gy += D adds entrywise."""
    GY0 = z3.Function('gy_before', I, I, R)
    NI = fresh('n_islanded', I)

    def cur(st):
        return st.ghost['gy']

    def getitem(ex, st, args, kw, node):
        base, sl = args
        gy = st.load('self.dae.gy')
        if not (isinstance(base, Opaque) and isinstance(gy, Opaque) and base.term.eq(gy.term) and isinstance(sl, ast.Tuple) and len(sl.elts) == 2):
            return NotImplemented
        i, k = [to_z3(ex.ev(e, st)) for e in sl.elts]
        if i.sort() != I:
            i = z3.ToInt(i)
        if k.sort() != I:
            k = z3.ToInt(k)
        return NR(cur(st)(i, k), False)

    def spm(ex, st, args, kw, node):
        ok = len(args) == 5 and all(isinstance(a, Ref) for a in args[:3]) and args[4] == 'd'
        ex.oblige(st, 'pre@call:spmatrix(values,rows,cols,size,"d")', z3.BoolVal(bool(ok)), {})
        if not ok:
            raise Unsupported('spmatrix call shape')
        class _V:
            def __init__(self, c):
                self.n = c.n
                self.vals = c.vals if isinstance(c, ArrC) else c.arr
        vals, rows, cols = [_V(st.content(a)) for a in args[:3]]
        ex.oblige(st, 'pre@call:spmatrix:values,rows,cols-have-equal-length', z3.And(vals.n == rows.n, rows.n == cols.n), {})
        p, q = fresh('p', I), fresh('q', I)
        ex.oblige(st, 'pre@call:spmatrix:(row,col)-pairs-pairwise-distinct(duplicates-would-be-summed)',
                  z3.ForAll([p, q], z3.Implies(z3.And(p >= 0, p < q, q < rows.n), z3.Or(rows.vals[p] != rows.vals[q], cols.vals[p] != cols.vals[q]))), {})
        D = z3.Function('spm%d' % len(st.ghost['sp']), I, I, R)
        W = z3.Function('spm_w%d' % len(st.ghost['sp']), I, I, I)      # witness position of an entry
        j, i, k = fresh('j', I), fresh('i', I), fresh('k', I)
        st.pc.append(z3.ForAll([j], z3.Implies(z3.And(j >= 0, j < rows.n), D(z3.ToInt(rows.vals[j]), z3.ToInt(cols.vals[j])) == vals.vals[j])))
        st.pc.append(z3.ForAll([i, k], z3.Or(D(i, k) == 0, z3.And(W(i, k) >= 0, W(i, k) < rows.n, z3.ToInt(rows.vals[W(i, k)]) == i,
                                                                  z3.ToInt(cols.vals[W(i, k)]) == k))))
        o = Opaque(fresh('spmatrix', gy_sort[0]))
        st.ghost['sp'] = st.ghost['sp'] + [(o.term, D)]
        return o

    gy_sort = []

    def binop(ex, st, args, kw, node):
        op, a, b = args
        gy = st.load('self.dae.gy')
        D = [d for t, d in st.ghost['sp'] if isinstance(b, Opaque) and t.eq(b.term)]
        ok = isinstance(op, ast.Add) and isinstance(a, Opaque) and a.term.eq(gy.term) and len(D) == 1
        ex.oblige(st, 'pre@binop:gy+<matrix-built-by-spmatrix>', z3.BoolVal(bool(ok)), {})
        if not ok:
            raise Unsupported('sparse arithmetic other than gy + spmatrix(...)')
        old = cur(st)
        st.ghost['gy'] = lambda i, k, old=old, D=D[0]: old(i, k) + D(i, k)
        st.ghost['nset'] = st.ghost['nset'] + 1
        return Opaque(fresh('gy', gy_sort[0]))

    def post(old, new, res):
        a, v = old.arr('self.Bus.islanded_a'), old.arr('self.Bus.islanded_v')
        eps = old.z('self.config.diag_eps')
        gy = cur(new.st)
        k, i, j = fresh('k', I), fresh('i', I), fresh('j', I)
        ak, vk = z3.ToInt(a.vals[k]), z3.ToInt(v.vals[k])
        inr = z3.And(k >= 0, k < NI)
        patched = z3.ForAll([k], z3.Implies(inr, z3.And(gy(ak, ak) == eps, gy(vk, vk) == eps)))
        # the cross entries (a_k, v_k), (v_k, a_k) of an islanded bus are kept or zeroed (the in-place mode zeroes them)
        rest = z3.ForAll([i, j], z3.Or(gy(i, j) == GY0(i, j), z3.And(i == j, z3.Exists([k], z3.And(inr, z3.Or(ak == i, vk == i)))),
                                       z3.And(gy(i, j) == 0, z3.Exists([k], z3.And(inr, z3.Or(z3.And(ak == i, vk == j), z3.And(vk == i, ak == j)))))))
        untouched = z3.BoolVal(new.st.ghost['nset'] == 0)
        return z3.If(old.z('self.Bus.n_islanded_buses') == 0, untouched, z3.And(patched, rest))

    def pre(v):
        gy_sort[:] = [v.st.load('self.dae.gy').term.sort()]
        a, vv = v.arr('self.Bus.islanded_a'), v.arr('self.Bus.islanded_v')
        p, q = fresh('p', I), fresh('q', I)
        return z3.And(a.n == NI, vv.n == NI, NI >= 0, v.z('self.Bus.n_islanded_buses') == NI,
                      z3.ForAll([p, q], z3.Implies(z3.And(p >= 0, p < NI, q >= 0, q < NI), z3.And(
                          a.vals[p] != vv.vals[q], z3.Implies(p != q, z3.And(a.vals[p] != a.vals[q], vv.vals[p] != vv.vals[q]))))))
    c = Contract(FS, 'System.j_islands', pid=pid, params={'self': TObj()},
                 schema={'self.Bus.n_islanded_buses': TInt(), 'self.Bus.islanded_a': TArr(kind='int'), 'self.Bus.islanded_v': TArr(kind='int'),
                         'self.config.ipadd': TConst(False), 'self.config.diag_eps': TReal(), 'self.dae.gy': TOpaque('SparseMatrix')},
                 requires=[('islanded-address-lists-paired-and-distinct', pre)],
                 ghost_init={'gy': lambda v: (lambda i, k: GY0(i, k)), 'nset': 0, 'sp': []},
                 calls={'__getitem__': getitem, 'spmatrix': spm, '__binop__': binop}, globals_={'spmatrix': Func('spmatrix')},
                 ensures=[('rebuild-mode:diag=eps-for-every-islanded-bus,cross-kept-or-zero,every-other-entry-kept;untouched-without-islanded-buses', post)], modifies=['self.dae.gy'])
    c.merge = False
    c.tag = 'rebuild'
    return c


def replay_j_islands(obligation, model, meta):
    """native run of the real System.j_islands on a stub system with a dense gy pattern and 0..3 islanded buses"""
    from types import SimpleNamespace
    import numpy as np
    from kvxopt import spmatrix
    from andes.system import System
    eps = 1e-6
    from contracts.packutil import Stub
    for ipadd in (1, 0):
        for nisl in (0, 1, 2, 3):
            nb = 4
            m = 2 * nb + 1
            ii, jj = np.meshgrid(np.arange(m), np.arange(m), indexing='ij')
            vals = (1.0 + ii.ravel() * 0.1 + jj.ravel() * 0.01).tolist()
            gy = spmatrix(vals, ii.ravel().tolist(), jj.ravel().tolist(), (m, m), 'd')
            before = np.array([[gy[int(i), int(j)] for j in range(m)] for i in range(m)])
            buses = list(range(nisl))
            a = np.array(buses, dtype=int)
            v = np.array([nb + b for b in buses], dtype=int)
            stub = Stub(_cls=System, Bus=SimpleNamespace(n_islanded_buses=nisl, islanded_a=a, islanded_v=v),
                        config=SimpleNamespace(ipadd=ipadd, diag_eps=eps), dae=SimpleNamespace(gy=gy))
            System.j_islands(stub)
            after = np.array([[stub.dae.gy[int(i), int(j)] for j in range(m)] for i in range(m)])
            bad = None
            if nisl == 0 and not np.array_equal(before, after):
                bad = 'gy changed without islanded buses'
            want = before.copy()
            for k in range(nisl):
                want[a[k], a[k]] = want[v[k], v[k]] = eps
                if ipadd:
                    want[a[k], v[k]] = want[v[k], a[k]] = 0.0
                else:           # rebuild mode: cross entries kept or zeroed
                    for (i, j) in ((a[k], v[k]), (v[k], a[k])):
                        if after[i, j] == 0.0:
                            want[i, j] = 0.0
            d = np.abs(after - want)
            if bad is None and np.max(d) > 1e-12:
                i, j = np.unravel_index(int(np.argmax(d)), d.shape)
                bad = 'gy[%d,%d] = %r, expected %r' % (i, j, after[i, j], want[i, j])
            if bad:
                return {'confirmed': True, 'inputs': {'config.ipadd': ipadd, 'islanded_a': a.tolist(), 'islanded_v': v.tolist(), 'diag_eps': eps,
                                                      'gy': 'dense %dx%d' % (m, m)},
                        'observed': bad, 'native_cmd': 'System.j_islands(stub) with a dense kvxopt gy'}
    return {'confirmed': False, 'tried': 8}


def replay_system_j_update(obligation, model, meta):
    """native run of the real System.j_update on a stock case: the matrices built after a status / parameter change at an
    unchanged operating point must equal those of a system in which the change was made before the first build"""
    import logging
    import numpy as np
    import andes
    from kvxopt import matrix
    logging.getLogger('andes').setLevel(logging.CRITICAL)

    def fresh_system():
        ss = andes.load(andes.get_case('kundur/kundur_full.xlsx'), default_config=True, no_output=True)
        ss.PFlow.run()
        ss.TDS.init()
        return ss

    def change(ss):
        ss.Line.alter('u', ss.Line.idx.v[4], 0)
        ss.EXDC2.alter('KA', ss.EXDC2.idx.v[0], 2 * ss.EXDC2.KA.v[0])

    def mats(ss):
        return {n: np.array(matrix(ss.dae.__dict__[n])) for n in ('fx', 'fy', 'gx', 'gy')}
    def reference(ss, models):
        # the contract's sequence executed directly: model values, pattern reset, accumulation, island patch
        ss.call_models('j_update', models)
        ss.dae.restore_sparse()
        for jname in ('fx', 'fy', 'gx', 'gy'):
            for mdl in models.values():
                for rows, cols, vals in mdl.triplets.zip_ijv(jname):
                    ss.dae.__dict__[jname].ipadd(vals, rows, cols)
        ss.j_islands()
    a = fresh_system()
    a.j_update(a.exist.pflow_tds)
    a.j_update(a.exist.pflow_tds)
    change(a)
    a.j_update(a.exist.pflow_tds)
    ma = mats(a)
    reference(a, a.exist.pflow_tds)
    mb = mats(a)
    for n in ma:
        if ma[n].shape != mb[n].shape or not np.allclose(ma[n], mb[n], rtol=1e-12, atol=1e-12):
            d = np.abs(ma[n] - mb[n])
            i, j = np.unravel_index(np.argmax(d), d.shape)
            return {'confirmed': True, 'inputs': {'case': 'kundur_full', 'sequence': 'j_update, j_update, Line_4.u=0 and EXDC2.KA*2, j_update'},
                    'observed': '%s[%d,%d] = %r but the specified sequence (model values, pattern reset, accumulation, island patch) gives %r' % (n, i, j, ma[n][i, j], mb[n][i, j]),
                    'native_cmd': 'System.j_update(models) on kundur_full after TDS.init, compared with the contract sequence executed directly'}
    return {'confirmed': False, 'tried': 1}


def replay_model_j_update(obligation, model, meta):
    """native run of the real Model.j_update on a stub model: whatever the connection status of its devices (all on, some off, all
    off), every generated Jacobian entry is stored in place into the triplet array of the same name and position"""
    from types import SimpleNamespace
    import numpy as np
    from andes.core.model.model import Model
    from contracts.packutil import Stub
    for u in ([1.0, 1.0], [1.0, 0.0], [0.0, 0.0]):
        arrays = {j: [np.full(2, -1.0), np.full(2, -1.0)] for j in ('fx', 'fy', 'gx', 'gy')}
        keep = {j: list(arrays[j]) for j in arrays}
        vals = {j: (np.array([k + 1.0, k + 1.5]), np.array([k + 2.0, k + 2.5])) for k, j in enumerate(('fx', 'fy', 'gx', 'gy'))}
        stub = Stub(_cls=Model, n=2, u=SimpleNamespace(v=np.array(u)), class_name='M', in_use=True,
                    calls=SimpleNamespace(j={j: (lambda *a, j=j: vals[j]) for j in arrays}, vjac={j: [0.0, 0.0] for j in arrays}),
                    j_args={j: [] for j in arrays}, triplets=SimpleNamespace(vjac=arrays))
        Model.j_update(stub)
        for j in arrays:
            for k in range(2):
                if arrays[j][k] is not keep[j][k] or not np.array_equal(arrays[j][k], vals[j][k]):
                    return {'confirmed': True, 'inputs': {'u': u, 'jacobian': j, 'entry': k},
                            'observed': 'triplet values %r, the generated function returned %r' % (np.asarray(arrays[j][k]).tolist(), vals[j][k].tolist()),
                            'native_cmd': 'Model.j_update(stub)'}
    return {'confirmed': False, 'tried': 3}


def replay_pattern(obligation=None, model=None, meta=None):
    """native: on dynamic stock cases every position a model declares for a Jacobian block is in the stored template of that block, and
    the live matrix has the template's pattern after an update, in both accumulation modes"""
    import contextlib
    import io
    import logging
    import numpy as np
    import andes
    logging.getLogger('andes').setLevel(logging.CRITICAL)
    n = 0
    for case in ('ieee14/ieee14_full.xlsx', 'kundur/kundur_full.xlsx'):
        for ipadd in (1, 0):
            n += 1
            with contextlib.redirect_stdout(io.StringIO()), contextlib.redirect_stderr(io.StringIO()):
                ss = andes.load(andes.get_case(case), default_config=True, no_output=True, config_option=['System.ipadd=%d' % ipadd])
                ss.PFlow.run()
                ss.TDS.init()
                ss.j_update(ss.exist.pflow_tds)
            for name in ('fx', 'fy', 'gx', 'gy'):
                tpl = ss.dae.tpl[name]
                stored = set(zip((int(i) for i in tpl.I), (int(j) for j in tpl.J)))
                declared = set()
                for mdl in ss.exist.pflow_tds.values():
                    for rows, cols, _ in mdl.triplets.zip_ijv(name):
                        declared.update(zip((int(i) for i in np.atleast_1d(rows)), (int(j) for j in np.atleast_1d(cols))))
                    for rows, cols, _ in mdl.triplets.zip_ijv(name + 'c'):
                        declared.update(zip((int(i) for i in np.atleast_1d(rows)), (int(j) for j in np.atleast_1d(cols))))
                missing = sorted(declared - stored)
                where = {'case': case, 'config': 'System.ipadd=%d' % ipadd, 'block': name}
                if missing:
                    return {'confirmed': True, 'inputs': where, 'observed': '%d declared position(s) missing from the stored template, first %r' % (len(missing), missing[0]),
                            'native_cmd': 'contracts/C03_assembly.py replay_pattern'}
                live = ss.dae.__dict__[name]
                live_pos = set(zip((int(i) for i in live.I), (int(j) for j in live.J)))
                if live_pos != stored:
                    return {'confirmed': True, 'inputs': where, 'observed': 'pattern of the live matrix after an update (%d entries) differs from the stored template (%d entries)' % (
                        len(live_pos), len(stored)), 'native_cmd': 'contracts/C03_assembly.py replay_pattern'}
    return {'confirmed': False, 'tried': n}


def add_obligations(pack, ss, tier, pid='C03'):
    pack.trust('kvxopt.spmatrix(V, I, J, size) builds the matrix with V[k] accumulated at (I[k], J[k]); ipadd/ipset add/set in place',
               'hand-written j_numeric of a model or block appends to constant Jacobian names only (so position #idx of '
               'triplets.vjac[<variable name>] is the idx-th generated entry); no stock model defines j_numeric')
    items = [(model_j_update(pid), None, replay_model_j_update)] + [(c,) for c in jac_eq_var_name(pid)] + [(system_store_sparse_pattern(pid),), (model_store_sparse_pattern(pid),), (system_j_update(pid), None, replay_system_j_update), (j_islands(pid), None, replay_j_islands), (j_islands_rebuild(pid), None, replay_j_islands)] + [(c, None, replay_pattern) for c in dae_restore_sparse(pid) + dae_build_pattern(pid)]
    from contracts import fn_sequence as Q
    items += [(c, None, Q.replay_jactriplet) for c in Q.jactriplet(pid)]
    # the matrix a Newton step solves with is assembled at the point (variables AND discrete state) the residual was evaluated at
    from contracts import fn_pflow as P
    items += [(P.nr_step_point(pid), None, P.replay_nr_step_point)]
    run_contracts(pack, items)

replay_pattern.real_system = True       # drives the real program on stock inputs: a crash inside repository code is a confirmed failure

replay_system_j_update.real_system = True       # drives the real program on stock inputs: a crash inside repository code is a confirmed failure
