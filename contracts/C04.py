"""
C04 -- every accepted simulation step satisfies the implicit integration rule.
Functions under contract: Trapezoid/BackEuler.calc_q, calc_jac; ImplicitIter.step; TDS.calc_h, _calc_h_first; TDS.run
(accept / reject arms through the loop invariant).
"""
from contracts import fn_tds as T
from contracts.packutil import run_contracts, COMMON_ASSUME
from pyvc.report import Pack


def items(pid):
    return [
        (T.calc_q(pid, 'Trapezoid', 'T(x-x0)-h/2(f+f0)'),),
        (T.calc_q(pid, 'BackEuler', 'T(x-x0)-h*f'),),
        (T.calc_jac(pid, 'Trapezoid'), None, T.replay_itm_matrix),
        (T.calc_jac(pid, 'BackEuler'), None, T.replay_itm_matrix),
        (T.step(pid), T.WIT_F9, T.replay_step),
        (T.calc_h_first(pid),),
        (T.calc_h(pid, drop=('event-index-only-moved-by-do_switch',)), None, T.replay_calc_h),
        (T.run(pid, drop=('success=>initialisation-test-not-failed',)),),
        # a resumed run: its first step, too, is clamped to the end time and to the next pending event (contract shared with C14)
        (T.init_resume(pid),),
    ]


def run(tier, seed):
    pack = Pack('C04', tier, seed)
    pack.trust('kvxopt.sparse([[a,b],[c,d]]) assembles block *columns* (a over b, c over d); kvxopt.matrix(ndarray) holds '
               'the same numbers', 'Solver.solve / linsolve return a vector of length n+m (contract discharged in C16)',
               'TDS.fg_update writes only dae.f and dae.g; System.j_update writes only dae.fx, fy, gx, gy; '
               'System.vars_to_models writes no dae array (assumed callee contracts)',
               'anti-windup write-back loop in step() is summarised: qg changes exactly at the pegged addresses to the '
               'pegged values (assumed loop summary, not proved)')
    pack.assume(*COMMON_ASSUME)
    pack.assume('not decided: order of the global error; that a stable case reaches tf (liveness); (t+h)-h == t in binary '
                'floating point (time restoration is proved over the reals)',
                'integration_rule(Tf,x,x0,h,f,f0) in step() is the function proved for calc_q; the two are linked by '
                'name (step is checked against the callee contract, not the callee body)')
    run_contracts(pack, items('C04'))
    from contracts import fn_sequence as Q
    run_contracts(pack, [(Q.tds_fg_update('C04'),), (Q.call_models('C04'),)])
    from contracts.packutil import native_guard
    from contracts import bounded_tds_rule as BT
    name = 'C04/andes/routines/tds.py:TDS.run/bounded:stored-steps-satisfy-the-trapezoid-rule,events-hit,ends-at-tf'
    r = native_guard(pack, name, BT.run)
    if r is not None:
        n, bad = r
        pack.bounded.append({'function': 'TDS.run (end to end)', 'kind': 'bounded native: %s' % ', '.join(c for c, _ in BT.CASES), 'steps': n,
                             'counted_as_proved': False})
        if bad:
            pack.violation(name, {'bounded': True, 'inputs': bad, 'native_cmd': 'contracts/bounded_tds_rule.py'})
    from contracts import bounded_limiters_run as BLR
    name = 'C04/andes/core/discrete.py:AntiWindup.check_eq/bounded:a-state-held-at-a-moving-limit-is-written-back-with-the-current-limit'
    r = native_guard(pack, name, BLR.run_moving_limit)
    if r is not None:
        n, bad = r
        pack.bounded.append({'function': 'AntiWindup.check_var / check_eq over successive evaluations with a falling upper limit', 'evaluations': n,
                             'counted_as_proved': False, 'kind': 'bounded native (real AntiWindup on stub arrays)'})
        if bad:
            pack.violation(name, {'bounded': True, 'inputs': bad, 'native_cmd': 'contracts/bounded_limiters_run.py run_moving_limit'})
    from contracts import bounded_itm_matrix as BIM
    name = 'C04/andes/routines/daeint.py:calc_jac;calc_q/bounded:the-integrator-matrix-is-the-derivative-of-the-residual-it-is-solved-against(both-methods)'
    r = native_guard(pack, name, BIM.run)
    if r is not None:
        n, bad = r
        pack.bounded.append({'function': 'Trapezoid / BackEuler calc_jac against calc_q (kundur_full after TDS.init)', 'methods': n, 'counted_as_proved': False,
                             'kind': 'bounded native'})
        if bad:
            pack.violation(name, {'bounded': True, 'inputs': bad, 'native_cmd': 'contracts/bounded_itm_matrix.py'})
    # the time constants the rule is evaluated with follow parameter changes made between segments of a run (Model.set -> dae.Tf, Teye)
    from contracts import fn_pu
    run_contracts(pack, [(fn_pu.model_set('C04', 'v'), None, fn_pu.replay_model_set), (Q.store_tf('C04'), None, Q.replay_store_tf), (Q.system_init('C04'), None, Q.replay_store_tf)])
    name = 'C04/andes/routines/tds.py:TDS.run/bounded:steps-after-a-time-constant-change-satisfy-the-rule-with-the-new-value'
    r = native_guard(pack, name, BT.run_altered)
    if r is not None:
        n, bad = r
        pack.bounded.append({'function': 'TDS.run resumed after Model.alter of a time constant (end to end)', 'kind': 'bounded native: kundur_full, GENROU.M doubled at 0.5 s',
                             'steps': n, 'counted_as_proved': False})
        if bad:
            pack.violation(name, {'bounded': True, 'inputs': bad, 'native_cmd': 'contracts/bounded_tds_rule.py run_altered'})
    # g = 0 is demanded at the buses that are not islanded: the island sets are the components of the in-service branch graph
    from contracts.packutil import connectivity_premise
    connectivity_premise(pack, 'C04')
    return pack.finish()
