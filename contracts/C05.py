"""
C05 -- dynamic initialisation is an equilibrium consistent with the power flow (partial).
Functions under contract: TDS.test_init (the residual test), TDS.init (hand-over of the power-flow solution, recording of the
test); block initial values balance the block equations (steady-state obligations shared with C18).
Not decided: per-model equilibrium of the ~60 dynamic models, undisturbed-run drift (bounded stand-ins only),
Model.solve_iter_single (aliasing between input dictionaries and argument lists).
"""
from contracts import fn_tds as T
from contracts import C18
from contracts.packutil import run_contracts, COMMON_ASSUME
from pyvc.report import Pack


def run(tier, seed):
    pack = Pack('C05', tier, seed)
    pack.trust('dae.fg is the concatenation of dae.f and dae.g (property of DAE)',
               'System.set_address / System.init / fg_update and the other callees of TDS.init: assumed frame only')
    pack.assume(*COMMON_ASSUME)
    pack.assume('the anti-windup reset loop in TDS.init is summarised (it rewrites dae.f at pegged addresses only)',
                'not decided: equilibrium of each dynamic model, power hand-over from static to dynamic generators, drift of an '
                'undisturbed run, iterative initialisation (solve_iter_single)')
    run_contracts(pack, [(T.test_init('C05'), None, T.replay_test_init), (T.tds_init('C05'),)])
    from contracts import fn_handover as H
    run_contracts(pack, [(H.genbase_v_numeric('C05'), None, H.replay_genbase_v_numeric), (H.solve_iter_c('C05'), None, H.replay_solve_iter)])
    # the power-flow point is handed over: growing the DAE vectors for the dynamic models keeps what the power flow solved (also states)
    from contracts import fn_resume as RSZ
    run_contracts(pack, [(RSZ.dae_resize_arrays('C05'), None, RSZ.replay_resize_arrays), (RSZ.dae_extend_or_slice('C05', 'zeros'), None, RSZ.replay_resize_arrays),
                         (RSZ.dae_extend_or_slice('C05', 'ones'), None, RSZ.replay_resize_arrays)])
    C18.run(tier, seed, prefix='C05', want=('SS',), pack=pack)
    # P / Q hand-over: each dynamic device takes its declared share of the static generator it replaces
    from contracts import specutil as U
    U.generator_shares(pack, 'C05', U.system())
    from contracts import fn_handover as H2
    H2.bounded_flat_run(pack, 'C05', tier)
    from contracts.packutil import native_guard
    name = 'C05/andes/core/model/model.py:Model.init;solve_iter/bounded:iteratively-initialised-exciters-with-an-offline-device-initialise-with-zero-residuals'
    r = native_guard(pack, name, H2.replay_solve_iter)
    if r is not None:
        pack.bounded.append({'function': 'TDS.init with EXAC1 / ESAC1A / AC8B, first exciter offline and online (end to end)', 'cases': r.get('tried', 0),
                             'kind': 'bounded native: ieee14_exac1, ieee14_esac1a, ieee14_ac8b', 'counted_as_proved': False})
        if r.get('confirmed'):
            pack.violation(name, {'bounded': True, 'inputs': r.get('inputs'), 'observed': r.get('observed'), 'native_cmd': r.get('native_cmd')})
    from contracts import bounded_modes as BMD
    mname = 'C05/andes/models:mode-selectors/bounded:every-allowed-option-of-every-mode-selector-initialises-to-an-equilibrium'
    r = native_guard(pack, mname, lambda: BMD.run(tier))
    if r is not None:
        nm, badm = r
        pack.bounded.append({'function': 'TDS.init / TDS.run with every option of the mode selectors of ST2CUT, IEEEST, ESST1A%s (end to end)' % (
            ', REECA1, REPCA1, WTTQA1, PVD1, ESD1' if tier == 'thorough' else ''), 'settings': nm, 'counted_as_proved': False, 'kind': 'bounded native: stock cases, no disturbance'})
        if badm:
            pack.violation(mname, {'bounded': True, 'inputs': badm, 'native_cmd': 'contracts/bounded_modes.py'})
    from contracts import bounded_fractions as BFR
    fname = 'C05/andes/models/governor/ieeeg1.py:IEEEG1Model/bounded:turbine-fractions-that-do-not-add-up-to-one-are-normalised-and-initialise-to-an-equilibrium'
    r = native_guard(pack, fname, BFR.run)
    if r is not None:
        nf, badf = r
        pack.bounded.append({'function': 'TDS.init with IEEEG1 fractions K1..K8 scaled by %s (end to end)' % (BFR.FACTORS,), 'cases': nf,
                             'kind': 'bounded native: %s' % BFR.CASE, 'counted_as_proved': False})
        if badf:
            pack.violation(fname, {'bounded': True, 'inputs': badf, 'native_cmd': 'contracts/bounded_fractions.py'})
    return pack.finish()
