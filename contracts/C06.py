"""
C06 -- scheduled events fire exactly once at their exact time; the time grid is exact.
Functions under contract: TDS.calc_h (clip part + ghost index clause), TDS.do_switch, TDS.run loop invariant;
(System.store_switch_times, TimerParam.is_time, timer callbacks: C06_more).
"""
from contracts import fn_tds as T
from contracts.packutil import run_contracts, COMMON_ASSUME
from pyvc.report import Pack


def run(tier, seed):
    pack = Pack('C06', tier, seed)
    pack.trust('System.switch_action(models) calls the switch callbacks of exactly the given models (contract discharged in '
               'C06_more for the timer models)')
    pack.assume(*COMMON_ASSUME)
    pack.assume('A-fp: exact binary equality t + (s - t) == s is assumed inside the Sterbenz range (lemma L3, thorough tier); '
                'time arithmetic is over the reals otherwise',
                'not decided: TimeSeries.apply_exact (pandas lookup); csv replay; refresh_event != 0; custom events')
    items = [(T.calc_h('C06'), T.WIT_F10, T.replay_calc_h), (T.do_switch('C06'),), (T.run('C06', drop=('success=>initialisation-test-not-failed',)),)]
    run_contracts(pack, items)
    from contracts import C06_more
    C06_more.add_obligations(pack, tier)
    return pack.finish()
