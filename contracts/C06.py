"""
C06 -- scheduled events fire exactly once at their exact time; the time grid is exact.
Functions under contract: TDS.calc_h (clip part + ghost index clause), TDS.do_switch, TDS.run loop invariant;
(System.store_switch_times, TimerParam.is_time, timer callbacks: C06_more).
"""
from contracts import fn_tds as T
from contracts.packutil import run_contracts, COMMON_ASSUME
from pyvc.report import Pack


def run(tier, seed):
    pack = Pack('C06', tier, seed)
    pack.trust('System.switch_action(models) calls the switch callbacks of exactly the given models (contract discharged in '
               'C06_more for the timer models)')
    pack.assume(*COMMON_ASSUME)
    pack.assume('A-fp: exact binary equality t + (s - t) == s is assumed inside the Sterbenz range (lemma L3, thorough tier); '
                'time arithmetic is over the reals otherwise',
                'TimeSeries.apply_exact (pandas lookup): bounded native stand-in only; not decided: csv replay; custom events')
    items = [(T.calc_h('C06'), T.WIT_F10, T.replay_calc_h), (T.do_switch('C06'),), (T.run('C06', drop=('success=>initialisation-test-not-failed',)),)]
    run_contracts(pack, items)
    from contracts import C06_more
    C06_more.add_obligations(pack, tier)
    # the effect of a status toggle on a line is kept: what the Toggle changes (u) reaches the residuals of the line
    from contracts import specutil as U
    U.status_independence(pack, 'C06', U.system(), 'Line', 'andes/models/line/line.py', replay=U.replay_line_closing)
    from contracts.packutil import native_guard
    from contracts import bounded_timeseries as BTS
    name = 'C06/andes/models/timeseries.py:TimeSeriesModel.apply_exact/bounded:exactly-the-rows-stamped-with-the-current-time-are-applied'
    r = native_guard(pack, name, BTS.run)
    if r is not None:
        n, bad = r
        pack.bounded.append({'function': 'TimeSeriesModel.apply_exact', 'kind': 'bounded native (stub device, %d data frames x schedules)' % n,
                             'counted_as_proved': False})
        if bad:
            pack.violation(name, {'bounded': True, 'inputs': bad, 'native_cmd': 'contracts/bounded_timeseries.py'})
    from contracts import bounded_events as BE
    name = 'C06/andes/routines/tds.py:TDS.run/bounded:every-scheduled-event-acts-exactly-once-at-a-step-ending-at-its-time'
    r = native_guard(pack, name, BE.run)
    if r is not None:
        n, bad = r
        pack.bounded.append({'function': 'TDS.run with Toggle / Fault / Alter schedules (end to end)', 'kind': 'bounded native: kundur_full, %d schedules' % n,
                             'counted_as_proved': False})
        if bad:
            pack.violation(name, {'bounded': True, 'inputs': bad, 'native_cmd': 'contracts/bounded_events.py'})
    name = 'C06/andes/models/timer.py:AlterModel._alter_field/bounded:coincident-alterations-of-one-field-compose-in-device-order'
    r = native_guard(pack, name, BE.run_coincident_alter)
    if r is not None:
        n, bad = r
        pack.bounded.append({'function': 'TDS.run with two Alter events on one field (end to end)', 'kind': 'bounded native: kundur_full, %d schedules' % n,
                             'counted_as_proved': False})
        if bad:
            pack.violation(name, {'bounded': True, 'inputs': bad, 'native_cmd': 'contracts/bounded_events.py run_coincident_alter'})
    return pack.finish()
