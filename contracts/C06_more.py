def add_obligations(pack, tier):
    pass
