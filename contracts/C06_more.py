"""Function part of C06 beyond the stepping loop: building the event schedule, dispatching it, the timer callbacks."""
import ast
import z3

from pyvc.symex import Contract, Loop, spec, View, to_z3, as_real
from pyvc.symval import (TArr, TBool, TInt, TObj, TOpaque, TReal, TSeq, TStr, TConst, NR, fresh, I, R, Bo, Func, Opaque, Module, Ref,
                         ArrC, ListC, DictC, MapC, TMap, Unsupported, Obj, TColl, Coll, SeqC, Mark)
from contracts.packutil import run_contracts
from contracts import fn_tds

FS = 'andes/system.py'
FM = 'andes/core/model/model.py'
FP = 'andes/core/param.py'
FT = 'andes/models/timer.py'
K = TStr.sort
HAS_SORT = z3.ArraySort(R, z3.ArraySort(K, Bo))
EMPTY = z3.K(K, z3.BoolVal(False))
SD, MODELS = Mark('switch_dict'), Mark('models')


def store_switch_times_tail(pid, empty):
    """System.store_switch_times from the merge loop on (``for i, j in zip(out, names)``): `out` is the sorted array of
    (t-eps, t, t+eps) not earlier than the current time, `names` the owning model of each entry.  Every (time, model) pair ends
    up in switch_dict -- models sharing a time are merged, nothing already scheduled is dropped --; with an initially empty
    schedule switch_times is strictly increasing, holds exactly the distinct times, and n_switches is its length."""
    OUT_N = fresh('n_out', I)
    N0 = fresh('nkeys_at_entry', I)

    def keys(st):
        return st.ghost['keys'], st.ghost['nkeys']

    def dom(st, t):
        # ghost index: pos[t] is the insertion position of key t (meaningful only when it points back at t)
        arr, n = keys(st)
        pos = st.ghost['pos']
        return z3.And(pos[t] >= 0, pos[t] < n, arr[pos[t]] == t)

    def contains(ex, st, args, kw, node):
        cont, item = args
        if cont == SD:
            return dom(st, as_real(item).val)
        return NotImplemented

    def pair_of(st, d):
        items = list(st.content(d).items.items())
        if len(items) != 1:
            raise Unsupported('schedule entry with %d models' % len(items))
        (j, m), = items
        if not (isinstance(j, Opaque) and m == Mark('model', j)):
            raise Unsupported('schedule entry does not map a model name to models[name]')
        return j.term

    def set_key(st, t, fn):
        """switch_dict[t] = <set>: fn(old_set) -> new set"""
        has = st.ghost['has']
        arr, n = keys(st)
        present = dom(st, t)
        st.ghost['has'] = z3.Store(has, t, fn(has[t]))
        st.ghost['keys'] = z3.If(present, arr, z3.Store(arr, n, t))
        st.ghost['nkeys'] = z3.If(present, n, n + 1)
        st.ghost['pos'] = z3.If(present, st.ghost['pos'], z3.Store(st.ghost['pos'], t, n))
        if 'i' in st.env and '$i1' in st.env:
            st.ghost['src'] = z3.If(present, st.ghost['src'], z3.Store(st.ghost['src'], n, st.env['$i1']))

    def setitem(ex, st, args, kw, node):
        base, sl, value = args
        if base != SD:
            raise Unsupported('store into %r' % (base,))
        t = as_real(ex.ev(sl, st) if isinstance(sl, ast.AST) else sl).val
        j = pair_of(st, value)
        nn = fresh('n', K)
        set_key(st, t, lambda old: z3.Store(EMPTY, j, True))
        return None

    def getitem(ex, st, args, kw, node):
        base, sl = args
        if base == SD:
            return Mark('entry', as_real(ex.ev(sl, st)).val)
        if base == MODELS:
            return Mark('model', ex.ev(sl, st))
        return NotImplemented

    def update(ex, st, args, kw, node):
        base, d = args
        if not (isinstance(base, Mark) and base.kind == 'entry'):
            return NotImplemented
        j = pair_of(st, d)
        nn = fresh('n', K)
        set_key(st, base.data[0], lambda old: z3.Store(old, j, True))
        return None

    def setdefault(ex, st, args, kw, node):
        base, key, d = args
        if base != SD:
            return NotImplemented
        t = as_real(key).val
        j = pair_of(st, d)
        nn = fresh('n', K)
        present = dom(st, t)
        set_key(st, t, lambda old: z3.If(present, old, z3.Store(EMPTY, j, True)))
        return Mark('entry', t)

    def np_array_keys(ex, st, args, kw, node):
        if args and args[0] == Mark('keys'):
            arr, n = keys(st)
            return st.new_ref(ArrC(arr, n, None), 'switch_times')
        return NotImplemented

    def out_names(v):
        return v.st.content(v.st.env['out']), v.st.content(v.st.env['names'])

    def inv_pairs(v):
        out, names = out_names(v)
        i = v.local('$i1')
        has = v.st.ghost['has']
        k = fresh('k', I)
        return z3.ForAll([k], z3.Implies(z3.And(k >= 0, k < i), has[out.vals[k]][names.arr[k]]))

    def inv_keys(v):
        out, names = out_names(v)
        i = v.local('$i1')
        arr, n = keys(v.st)
        has = v.st.ghost['has']
        a, b, k = fresh('a', I), fresh('b', I), fresh('k', I)
        tt, nn = fresh('t', R), fresh('n', K)
        pos, src = v.st.ghost['pos'], v.st.ghost['src']
        cl = [n >= 0,
              z3.ForAll([a], z3.Implies(z3.And(a >= 0, a < n), pos[arr[a]] == a)),          # keys distinct
              # models are filed only under times that are keys
              z3.ForAll([tt, nn], z3.Implies(has[tt][nn], dom(v.st, tt)))]
        if True:
            g = (lambda x: x) if empty else (lambda x: z3.Implies(N0 == 0, x))      # schedule empty at entry
            cl += [g(y) for y in [z3.ForAll([a, b], z3.Implies(z3.And(a >= 0, a < b, b < n), arr[a] < arr[b])),
                   z3.Implies(i == 0, n == 0),
                   z3.ForAll([a], z3.Implies(z3.And(a >= 0, a < n, i > 0), arr[a] <= out.vals[i - 1])),
                   # exactly the distinct times seen so far (src[a]: an input position holding key a)
                   z3.ForAll([a], z3.Implies(z3.And(a >= 0, a < n), z3.And(src[a] >= 0, src[a] < i, out.vals[src[a]] == arr[a]))),
                   z3.ForAll([k], z3.Implies(z3.And(k >= 0, k < i), dom(v.st, out.vals[k])))]]
        return z3.And(*cl)

    def snap(v):
        v.st.ghost['has0'] = v.st.ghost['has']
        v.st.ghost['keys0'] = (v.st.ghost['keys'], v.st.ghost['nkeys'])
        v.st.ghost['in_iter'] = True
        return True

    def inv_keep(v):
        if not v.st.ghost.get('in_iter'):
            return True
        has0, has = v.st.ghost['has0'], v.st.ghost['has']
        arr0, n0 = v.st.ghost['keys0']
        arr, n = keys(v.st)
        tt, nn, a = fresh('t', R), fresh('n', K), fresh('a', I)
        return z3.And(z3.ForAll([tt, nn], z3.Implies(has0[tt][nn], has[tt][nn])), n >= n0,
                      z3.ForAll([a], z3.Implies(z3.And(a >= 0, a < n0), arr[a] == arr0[a])))

    def post(old, new, res):
        out, names = new.st.content(old.st.env['out']), new.st.content(old.st.env['names'])
        has = new.st.ghost['has']
        arr, n = keys(new.st)
        k, a, b = fresh('k', I), fresh('a', I), fresh('b', I)
        sw = new.arr('self.switch_times')
        cl = [z3.ForAll([k], z3.Implies(z3.And(k >= 0, k < out.n), has[out.vals[k]][names.arr[k]])),
              sw.n == n, new.z('self.n_switches') == n,
              z3.ForAll([a], z3.Implies(z3.And(a >= 0, a < n), sw.vals[a] == arr[a])),
              z3.BoolVal(isinstance(res, Ref) and res.loc == new.get('self.switch_times').loc)]
        if not empty:
            cl = cl + []
        if empty:
            pos, src = new.st.ghost['pos'], new.st.ghost['src']
            cl += [z3.ForAll([a, b], z3.Implies(z3.And(a >= 0, a < b, b < n), sw.vals[a] < sw.vals[b])),
                   # every input time is in switch_times (at pos[t]); every entry of switch_times is an input time (out[src[a]])
                   z3.ForAll([k], z3.Implies(z3.And(k >= 0, k < out.n), z3.And(pos[out.vals[k]] >= 0, pos[out.vals[k]] < n,
                                                                               sw.vals[pos[out.vals[k]]] == out.vals[k]))),
                   z3.ForAll([a], z3.Implies(z3.And(a >= 0, a < n), z3.And(src[a] >= 0, src[a] < out.n, out.vals[src[a]] == sw.vals[a])))]
        return z3.And(*cl)

    def post_sorted(old, new, res):
        sw = new.arr('self.switch_times')
        a, b = fresh('a', I), fresh('b', I)
        return z3.ForAll([a, b], z3.Implies(z3.And(a >= 0, a < b, b < sw.n), sw.vals[a] < sw.vals[b]))

    def sorted_in(v):
        out, names = out_names(v)
        a, b = fresh('a', I), fresh('b', I)
        return z3.And(out.n == names.n, z3.ForAll([a, b], z3.Implies(z3.And(a >= 0, a < b, b < out.n), out.vals[a] <= out.vals[b])))
    c = Contract(FS, 'System.store_switch_times', pid=pid, params={'self': TObj(), 'models': TOpaque('Models'), 'eps': TReal()},
                 schema={'self.switch_times': TArr(), 'self.n_switches': TInt()},
                 ghost_init={'has': lambda v: (z3.K(R, z3.K(K, z3.BoolVal(False))) if empty else fresh('switch_dict', HAS_SORT)),
                             'keys': lambda v: fresh('keys', z3.ArraySort(I, R)), 'pos': lambda v: fresh('pos', z3.ArraySort(R, I)),
                             'src': lambda v: fresh('src', z3.ArraySort(I, I)),
                             'nkeys': lambda v: (z3.IntVal(0) if empty else N0)},
                 requires=[('out-sorted-ascending(np.argsort)-and-paired-with-names', sorted_in)] +
                 ([] if empty else [('existing-schedule-keys-distinct', lambda v: inv_keys(_V0(v)))]),
                 calls={'__contains__': contains, '__setitem__': setitem, '__getitem__': getitem, '<value>.update': update,
                        '<value>.setdefault': setdefault, '<value>.keys': lambda ex, st, a, k, n: Mark('keys') if a[0] == SD else NotImplemented,
                        'list': lambda ex, st, a, k, n: a[0], 'np.array': np_array_keys},
                 loops={'*': None},
                 ensures=[('every-(time,model)-scheduled;switch_times=keys%s;n_switches=len' % (',strictly-increasing,exactly-the-distinct-times' if empty else ''), post)],
                 modifies=['self.switch_times', 'self.n_switches'])
    if not empty:
        c.ensures.append(('switch_times-strictly-increasing', post_sorted))
    first = 1          # ordinal of the merge loop in the whole function (loops before it are sliced away)
    c.loops = {first: Loop(inv=[('pairs-seen-so-far-are-scheduled', inv_pairs), ('keys-distinct%s' % ('-increasing-exact' if empty else ''), inv_keys),
                                ('nothing-scheduled-is-dropped', inv_keep)], assume=[('snap', snap)],
                           frame=['$i', '$j', 'ghost:has', 'ghost:keys', 'ghost:nkeys', 'ghost:pos', 'ghost:src', 'ghost:has0', 'ghost:keys0', 'ghost:in_iter'])}
    c.body_from = 'for i, j in zip(out, names)'
    c.locals = {'out': TArr(), 'names': TSeq(elem=K)}
    c.tag = 'empty-schedule' if empty else 'any-schedule'
    c.check_bounds = False

    def pre_state(st):
        st.heap['self.switch_dict'] = SD
        st.heap['self.models'] = MODELS
        st.ghost.pop('in_iter', None)
    c.pre_state = pre_state
    return c


def store_switch_times_head(pid):
    """System.store_switch_times up to its merge loop: the candidate times handed to the merge loop are sorted ascending, paired with
    model names, not before the current time, and every one of them is EXACTLY t, t - eps or t + eps for a time t reported by
    get_times() of a model whose class_name is the paired name (so that TimerParam.is_time, which compares with ==, recognises it).
    ``sched(x, name)`` is the least relation containing those triples: it is assumed only of them, when get_times() is called."""
    SCHED = z3.Function('scheduled', R, K, Bo)
    E = 'models.$e'

    def get_times(ex, st, args, kw, node):
        t = TArr().make(st, 'times')
        c = st.content(t)
        nm = st.load(E + '.class_name').term
        eps = st.env['eps'].val
        k = fresh('k', I)
        st.assume(z3.ForAll([k], z3.And(SCHED(c.vals[k], nm), SCHED(c.vals[k] - eps, nm), SCHED(c.vals[k] + eps, nm))))
        return t

    def np_array(ex, st, args, kw, node):
        if len(args) == 1 and isinstance(args[0], Ref) and isinstance(st.content(args[0]), ListC) and not st.content(args[0]).items:
            return st.new_ref(ArrC(z3.K(I, z3.RealVal(0)), z3.IntVal(0), None), 'empty')
        if len(args) == 1 and isinstance(args[0], Ref) and isinstance(st.content(args[0]), ArrC):
            return args[0]
        raise Unsupported('np.array(%r)' % (args,))

    def ravel(ex, st, args, kw, node):
        return args[0]

    def append(ex, st, args, kw, node):
        from pyvc.externals import np_concatenate
        return np_concatenate(ex, st, [(args[0], args[1])], {}, node)

    def argsort(ex, st, args, kw, node):
        a = st.content(args[0])
        p = TArr(kind='int', n=a.n).make(st, 'argsort')
        pc = st.content(p)
        i, j = fresh('i', I), fresh('j', I)
        st.assume(z3.ForAll([i], z3.Implies(z3.And(i >= 0, i < a.n), z3.And(pc.vals[i] >= 0, pc.vals[i] < a.n))))
        st.assume(z3.ForAll([i, j], z3.Implies(z3.And(i >= 0, i < j, j < a.n), a.vals[z3.ToInt(pc.vals[i])] <= a.vals[z3.ToInt(pc.vals[j])])))
        return p

    def astype(ex, st, args, kw, node):
        c = st.content(args[0]) if isinstance(args[0], Ref) else None
        if isinstance(c, ArrC) and c.kind == 'int' and len(args) == 2 and isinstance(args[1], Func) and args[1].name == 'int':
            return args[0]
        raise Unsupported('astype(%r)' % (args[1:],))

    def where(ex, st, args, kw, node):
        if len(args) != 1 or not (isinstance(args[0], Ref) and isinstance(st.content(args[0]), ArrC)):
            raise Unsupported('np.where(%r)' % (args,))
        m = st.content(args[0])
        n = fresh('n_selected', I)
        st.assume(z3.And(n >= 0, n <= m.n))
        idx = TArr(kind='int', n=n).make(st, 'where')
        ic = st.content(idx)
        i, j = fresh('i', I), fresh('j', I)
        st.assume(z3.ForAll([i], z3.Implies(z3.And(i >= 0, i < n), z3.And(ic.vals[i] >= 0, ic.vals[i] < m.n, m.vals[z3.ToInt(ic.vals[i])] != 0))))
        st.assume(z3.ForAll([i, j], z3.Implies(z3.And(i >= 0, i < j, j < n), ic.vals[i] < ic.vals[j])))
        return (idx,)

    def inv(v):
        out, names = v.st.content(v.st.env['out']), v.st.content(v.st.env['names'])
        if isinstance(names, ListC) and not names.items:
            return out.n == 0
        k = fresh('k', I)
        return z3.And(out.n == names.n, z3.ForAll([k], z3.Implies(z3.And(k >= 0, k < out.n), SCHED(out.vals[k], names.arr[k]))))

    def post(old, new, res):
        if 'out' not in new.st.env or 'names' not in new.st.env:
            return False
        out, names = new.st.content(new.st.env['out']), new.st.content(new.st.env['names'])
        t = old.z('self.dae.t')
        k, a, b = fresh('k', I), fresh('a', I), fresh('b', I)
        return z3.And(out.n == names.n,
                      z3.ForAll([k], z3.Implies(z3.And(k >= 0, k < out.n), z3.And(SCHED(out.vals[k], names.arr[k]), out.vals[k] >= t))),
                      z3.ForAll([a, b], z3.Implies(z3.And(a >= 0, a < b, b < out.n), out.vals[a] <= out.vals[b])))
    c = Contract(FS, 'System.store_switch_times', pid=pid, params={'self': TObj(), 'models': TColl(), 'eps': TReal()},
                 schema={'self.dae.t': TReal(), 'models': TColl(), E + '.class_name': TStr()},
                 requires=[('not-a-flat-run', lambda v: True)],
                 calls={E + '.get_times': get_times, 'np.array': np_array, '<value>.ravel': ravel, 'np.append': append, 'np.argsort': argsort,
                        '<value>.astype': astype, 'np.where': where, 'self.options.get': lambda ex, st, a, k, n: False},
                 loops={0: Loop(inv=[('every-candidate-is-exactly-t,t-eps-or-t+eps-of-the-paired-model', inv)],
                                frame=['$instance', '$times', E + '.*'], rebind={'out': TArr(), 'names': TSeq(elem=K)})},
                 ensures=[('candidates:exact-event-times(+-eps)-paired-with-their-model,not-before-now,ascending', post)], modifies=[])
    c.body_to = 'for i, j in zip(out, names)'
    c.tag = 'head'
    c.check_bounds = True
    return c


def replay_store_switch_times(obligation, model, meta):
    """native run of the real System.store_switch_times on stub models (coincident times across models, repeated times,
    times before the current time); returns the first input whose result breaks the contract"""
    import itertools
    from collections import OrderedDict
    from types import SimpleNamespace
    import numpy as np
    from andes.system import System
    eps = 1e-4
    scenarios = []
    for ta, tb in itertools.product([[], [1.0], [1.0, 2.0], [2.0, 2.0], [0.5], [1.0 / 9.0, 0.6180339887498949]], [[1.0], [2.0, 1.0], [3.0], [0.7071067811865476]]):
        for t0 in (0.0, 1.0):
            scenarios.append(({'A': ta, 'B': tb}, t0))
    for times, t0 in scenarios:
        mdls = OrderedDict((k, SimpleNamespace(class_name=k, get_times=(lambda v=v: [np.array(v)] if v else []))) for k, v in times.items())
        from contracts.packutil import Stub
        stub = Stub(_cls=System, options={}, dae=SimpleNamespace(t=t0), switch_dict=OrderedDict(), models=mdls, switch_times=np.array([]), n_switches=0)
        try:
            ret = System.store_switch_times(stub, mdls, eps=eps)
        except Exception as e:      # noqa
            return {'confirmed': True, 'inputs': {'times': times, 't': t0}, 'observed': repr(e),
                    'native_cmd': 'System.store_switch_times(stub, models) with stub models exposing get_times()/class_name'}
        want = {}
        for k, v in times.items():
            for t in v:
                for x in (t, t - eps, t + eps):
                    if x >= t0:
                        want.setdefault(x, set()).add(k)
        st = list(stub.switch_times)
        bad = None
        if sorted(want) != st:
            bad = 'switch_times %s, expected %s' % (st, sorted(want))
        elif stub.n_switches != len(st):
            bad = 'n_switches %s' % stub.n_switches
        else:
            for t, ms in want.items():
                got = set(stub.switch_dict.get(t, {}).keys())
                if got != ms:
                    bad = 'switch_dict[%r] holds %s, expected %s' % (t, sorted(got), sorted(ms))
                    break
        if bad:
            return {'confirmed': True, 'inputs': {'times': times, 't': t0}, 'observed': bad,
                    'native_cmd': 'System.store_switch_times(stub, models) with stub models exposing get_times()/class_name'}
    return {'confirmed': False, 'tried': len(scenarios)}


def is_time(pid):
    """TimerParam.is_time: element k is True exactly when the simulation time equals the stored time of device k (exact)."""
    def post(old, new, res):
        c = new.st.content(res)
        v = old.arr('self.v')
        t = old.st.env['dae_t'].val
        k = fresh('k', I)
        return z3.And(c.n == v.n, z3.ForAll([k], z3.Implies(z3.And(k >= 0, k < v.n), (c.vals[k] != 0) == (v.vals[k] == t))))
    return Contract(FP, 'TimerParam.is_time', pid=pid, params={'self': TObj(), 'dae_t': TReal()}, schema={'self.v': TArr()},
                    ensures=[('is_time[k]<=>(t==v[k])', post)], modifies=[])


def replay_is_time(obligation=None, model=None, meta=None):
    """native run of the real TimerParam.is_time: stored times that differ from the simulation time by one ulp, 5e-7, 1e-4 or not at all"""
    import numpy as np
    from andes.core.param import TimerParam
    p = TimerParam()
    n = 0
    for t in (2.0, 0.1, 30.0, 123.456):
        stored = np.array([t, np.nextafter(t, 1e9), np.nextafter(t, -1e9), t + 5e-7, t - 5e-7, t + 1e-4, t * (1 + 1e-6), t])
        p.v = stored
        n += 1
        got = np.asarray(p.is_time(t)).astype(bool).tolist()
        want = (stored == t).tolist()
        if got != want:
            return {'confirmed': True, 'inputs': {'dae_t': t, 'stored times': stored.tolist()}, 'observed': 'is_time = %r, the times equal to dae_t are %r' % (got, want),
                    'native_cmd': 'TimerParam.is_time(dae_t) with the listed stored times'}
    return {'confirmed': False, 'tried': n}


def model_switch_action(pid):
    """Model.switch_action: every timer with a callback has it called once with is_time(dae_t) of that same timer."""
    E = 'self.timer_params.$e'

    def is_time_h(ex, st, args, kw, node):
        ok = to_z3(args[0]) is to_z3(st.env['dae_t'])
        st.ghost['flag'] = Mark('is_time', ok)
        return st.ghost['flag']

    def callback(ex, st, args, kw, node):
        st.ghost['called'] = st.ghost['called'] + [bool(len(args) == 1 and args[0] is st.ghost.get('flag') and args[0].data[0])]
        return None

    def reset(v):
        v.st.ghost['called'] = []
        v.st.ghost['in_iter'] = True
        return True

    def once(v):
        if not v.st.ghost.get('in_iter'):
            return True
        cb = v.get(E + '.callback')
        has = z3.Not(cb.isnone) if hasattr(cb, 'isnone') else z3.BoolVal(cb is not None)
        called = v.st.ghost['called']
        return z3.If(has, z3.BoolVal(called == [True]), z3.BoolVal(called == []))
    from pyvc.symval import TOptional
    c = Contract(FM, 'Model.switch_action', pid=pid, params={'self': TObj(), 'dae_t': TReal()},
                 schema={'self.timer_params': TColl(), E + '.callback': TOptional(TOpaque('Callback'))},
                 ghost_init={'called': []},
                 calls={E + '.is_time': is_time_h, E + '.callback': callback},
                 loops={0: Loop(inv=[('callback(is_time(dae_t))-exactly-once-per-timer-with-a-callback', once)], assume=[('reset', reset)],
                                frame=['$timer', E + '.*', 'ghost:called', 'ghost:flag', 'ghost:in_iter'])},
                 ensures=[], modifies=[])
    c.merge = False

    def pre_state(st):
        st.ghost.pop('in_iter', None)
    c.pre_state = pre_state
    return c


def system_switch_action(pid):
    """System.switch_action: exactly the models handed in get switch_action(dae.t), each once; then time-series data."""
    E = 'models.$e'

    def sa(ex, st, args, kw, node):
        st.ghost['called'] = st.ghost['called'] + [bool(len(args) == 1 and to_z3(args[0]).eq(to_z3(st.load('self.dae.t'))))]
        return None

    def reset(v):
        v.st.ghost['called'] = []
        v.st.ghost['in_iter'] = True
        return True

    def once(v):
        if not v.st.ghost.get('in_iter'):
            return True
        return z3.BoolVal(v.st.ghost['called'] == [True])

    def ts(ex, st, args, kw, node):
        st.ghost['ts'] = st.ghost['ts'] + [bool(len(args) == 1 and to_z3(args[0]).eq(to_z3(st.load('self.dae.t'))))]
        return None
    c = Contract(FS, 'System.switch_action', pid=pid, params={'self': TObj(), 'models': TColl()},
                 schema={'models': TColl(), 'self.dae.t': TReal()}, ghost_init={'called': [], 'ts': []},
                 calls={E + '.switch_action': sa, 'self.TimeSeries.apply_exact': ts},
                 loops={0: Loop(inv=[('switch_action(dae.t)-once-per-given-model', once)], assume=[('reset', reset)],
                                frame=['$instance', E + '.*', 'ghost:called', 'ghost:in_iter'])},
                 ensures=[('time-series-applied-at-dae.t', lambda o, n, r: z3.BoolVal(n.st.ghost['ts'] == [True]))], modifies=[])
    c.merge = False

    def pre_state(st):
        st.ghost.pop('in_iter', None)
    c.pre_state = pre_state
    return c


def _dev_model(ex, st, args, kw, node):
    """system.__dict__[<model name>] -> token of that model"""
    return Mark('devmodel', args[1])


def toggle_u_switch(pid):
    """Toggle._u_switch: for every toggle k whose time has come and which is enabled, the status of exactly the addressed device
    (model[k], dev[k]) is flipped (1 - current), once; other toggles do nothing; the return value says whether anything
    happened."""
    N = fresh('n', I)

    def get(ex, st, args, kw, node):
        base = args[0]
        i = to_z3(st.env['i'])
        ok = (isinstance(base, Mark) and base.kind == 'devmodel' and kw.get('src') == 'u' and kw.get('attr') == 'v'
              and _is_elem(st, base.data[0], 'self.model.v', i) and _is_elem(st, kw.get('idx'), 'self.dev.v', i))
        u0 = fresh('u0', R)
        st.ghost['get'] = (bool(ok), u0)
        return NR(u0)

    def set_(ex, st, args, kw, node):
        base = args[0]
        i = to_z3(st.env['i'])
        g = st.ghost.get('get') or (False, z3.RealVal(0))
        ok = (isinstance(base, Mark) and base.kind == 'devmodel' and kw.get('src') == 'u' and kw.get('attr') == 'v' and g[0]
              and _is_elem(st, base.data[0], 'self.model.v', i) and _is_elem(st, kw.get('idx'), 'self.dev.v', i))
        val = as_real(kw.get('value')).val
        ex.oblige(st, 'pre@call:set(u,v,idx=dev[k],value=1-current)-on-model[k]', z3.And(z3.BoolVal(bool(ok)), val == 1 - g[1]), {})
        st.ghost['sets'] = st.ghost['sets'] + 1
        return None

    def reset(v):
        v.st.ghost['sets'] = 0
        v.st.ghost['in_iter'] = True
        v.st.ghost['action0'] = v.st.env['action']
        return True

    def fired(v):
        if not v.st.ghost.get('in_iter'):
            return True
        i = v.local('$i0') - 1
        due = z3.And(v.st.content(v.st.env['is_time']).vals[i] != 0, v.arr('self.u.v').vals[i] != 0)
        sets = v.st.ghost['sets']
        sets = sets if z3.is_expr(sets) else z3.IntVal(sets)
        a0, a1 = _b(v.st.ghost['action0']), _b(v.st.env['action'])
        return z3.And(sets == z3.If(due, 1, 0), a1 == z3.Or(a0, due))
    c = Contract(FT, 'Toggle._u_switch', pid=pid, params={'self': TObj(), 'is_time': TArr(kind='bool', n=N)},
                 schema={'self.n': TInt(), 'self.u.v': TArr(n=N), 'self.model.v': TSeq(elem=K), 'self.dev.v': TSeq(elem=K),
                         'self.idx.v': TSeq(elem=K), 'self.t.v': TArr(n=N), 'self.system.dae.t': TReal()},
                 requires=[('n', lambda v: z3.And(v.z('self.n') == N, N >= 0))],
                 ghost_init={'sets': 0},
                 calls={'__objdict__': _dev_model, '<value>.get': get, '<value>.set': set_, 'tqdm.write': lambda ex, st, a, k, n: None},
                 globals_={'tqdm': Module('tqdm')},
                 loops={0: Loop(inv=[('toggle-k-flips-its-device-iff-due-and-enabled,exactly-once', fired)], assume=[('reset', reset)],
                                frame=['$i', '$instance', '$u0', '$action', 'ghost:sets', 'ghost:get', 'ghost:in_iter', 'ghost:action0'])},
                 ensures=[], modifies=[])
    c.check_bounds = False

    def pre_state(st):
        st.ghost.pop('in_iter', None)
    c.pre_state = pre_state
    return c


DEV_STATUS = z3.Function('dev_status', K, K, R)      # ghost: connection status of device (model name, idx) at call time


def toggle_v_numeric(pid):
    """Toggle.v_numeric: the first initialisation stores, for every toggle k, the connection status of exactly the addressed
    device (model[k], dev[k]) in _u[k]; every later initialisation writes exactly that stored value back to exactly that
    device, once per toggle, and leaves the store untouched."""
    N = fresh('n', I)

    def _ok(st, base, kw):
        i = to_z3(st.env['i'])
        return bool(isinstance(base, Mark) and base.kind == 'devmodel' and kw.get('src') == 'u' and kw.get('attr') == 'v'
                    and _is_elem(st, base.data[0], 'self.model.v', i) and _is_elem(st, kw.get('idx'), 'self.dev.v', i))

    def get(ex, st, args, kw, node):
        ok = _ok(st, args[0], kw)
        ex.oblige(st, 'pre@call:get(u,v,idx=dev[k])-on-model[k]', z3.BoolVal(ok), {})
        if not ok:
            return NR(fresh('u0', R))
        i = to_z3(st.env['i'])
        return NR(DEV_STATUS(st.content(st.load('self.model.v')).arr[i], st.content(st.load('self.dev.v')).arr[i]))

    def set_(ex, st, args, kw, node):
        ok = _ok(st, args[0], kw)
        i = to_z3(st.env['i'])
        val = as_real(kw.get('value')).val
        ex.oblige(st, 'pre@call:set(u,v,idx=dev[k],value=stored-status[k])-on-model[k]',
                  z3.And(z3.BoolVal(ok), val == View(st, ex).arr('self._u.v').vals[i]), {})
        st.ghost['sets'] = st.ghost['sets'] + 1
        return None

    def stored(v):
        k = fresh('k', I)
        mdl, dev = v.st.content(v.st.load('self.model.v')).arr, v.st.content(v.st.load('self.dev.v')).arr
        return z3.And(z3.ForAll([k], z3.Implies(z3.And(k >= 0, k < v.local('$i0')),
                                                v.arr('self._u.v').vals[k] == DEV_STATUS(mdl[k], dev[k]))),
                      z3.Implies(v.local('$i0') > 0, _b(v.z('self._init'))))

    def reset(v):
        v.st.ghost['sets'] = 0
        v.st.ghost['in_iter'] = True
        return True

    def once(v):
        if not v.st.ghost.get('in_iter'):
            return True
        sets = v.st.ghost['sets']
        return (sets if z3.is_expr(sets) else z3.IntVal(sets)) == 1

    def post(old, new, res):
        k = fresh('k', I)
        mdl, dev = old.st.content(old.st.load('self.model.v')).arr, old.st.content(old.st.load('self.dev.v')).arr
        u0, u1 = old.arr('self._u.v'), new.arr('self._u.v')
        first = z3.Not(_b(old.z('self._init')))
        return z3.And(
            z3.Implies(first, z3.And(z3.ForAll([k], z3.Implies(z3.And(k >= 0, k < N), u1.vals[k] == DEV_STATUS(mdl[k], dev[k]))),
                                     z3.Implies(N > 0, _b(new.z('self._init'))))),
            z3.Implies(z3.Not(first), z3.And(_b(new.z('self._init')),
                                             z3.ForAll([k], z3.Implies(z3.And(k >= 0, k < N), u1.vals[k] == u0.vals[k])))))
    c = Contract(FT, 'Toggle.v_numeric', pid=pid, params={'self': TObj()},
                 schema={'self.n': TInt(), 'self._init': TBool(), 'self._u.v': TArr(n=N), 'self.model.v': TSeq(elem=K), 'self.system.dae.t': TReal(),
                         'self.dev.v': TSeq(elem=K)},
                 requires=[('n', lambda v: z3.And(v.z('self.n') == N, N >= 0))],
                 ghost_init={'sets': 0},
                 calls={'__objdict__': _dev_model, '<value>.get': get, '<value>.set': set_},
                 loops={0: Loop(inv=[('statuses-of-the-addressed-devices-stored-so-far', stored)],
                                frame=['$i', '$instance', 'loc:self._u.v', 'self._init']),
                        1: Loop(inv=[('stored-status-written-back-to-its-device-exactly-once', once)], assume=[('reset', reset)],
                                frame=['$i', '$instance', 'ghost:sets', 'ghost:in_iter'])},
                 ensures=[('first-init-stores-status[model[k],dev[k]];later-init-keeps-the-store', post)],
                 modifies=['self._u.v', 'self._init'])
    c.check_bounds = False

    def pre_state(st):
        st.ghost.pop('in_iter', None)
    c.pre_state = pre_state
    return c


def _b(x):
    return z3.BoolVal(x) if isinstance(x, bool) else x


def _is_elem(st, val, path, i):
    """val is element #i of the sequence stored at `path`"""
    if not isinstance(val, Opaque):
        return False
    c = st.content(st.load(path))
    return bool(z3.simplify(c.arr[i]).eq(z3.simplify(val.term)))


def fault_apply(pid):
    """Fault.apply_fault: the fault flag uf[k] becomes 1 for exactly the faults that are due (tf reached) and enabled; every
    other flag keeps its value."""
    N = fresh('n', I)

    def snap(v):
        v.st.ghost['uf0'] = v.arr('self.uf.v')
        v.st.ghost['in_iter'] = True
        return True

    def fired(v):
        if not v.st.ghost.get('in_iter'):
            return True
        i = v.local('$i0') - 1
        due = z3.And(v.st.content(v.st.env['is_time']).vals[i] != 0, v.arr('self.u.v').vals[i] != 0)
        u0, u1 = v.st.ghost['uf0'], v.arr('self.uf.v')
        k = fresh('k', I)
        return z3.ForAll([k], z3.Implies(z3.And(k >= 0, k < N), u1.vals[k] == z3.If(z3.And(k == i, due), 1, u0.vals[k])))
    c = Contract(FT, 'Fault.apply_fault', pid=pid, params={'self': TObj(), 'is_time': TArr(kind='bool', n=N)},
                 schema={'self.n': TInt(), 'self.u.v': TArr(n=N), 'self.uf.v': TArr(n=N), 'self.bus.v': TSeq(elem=K), 'self.idx.v': TSeq(elem=K),
                         'self.tf.v': TArr(n=N), 'self.system.dae.y': TArr(), 'self.system.Bus.n': TInt(), 'self._vstore': TArr()},
                 requires=[('n', lambda v: z3.And(v.z('self.n') == N, N >= 0, v.z('self.system.Bus.n') >= 0,
                                                  v.z('self.system.Bus.n') <= v.arr('self.system.dae.y').n))],
                 calls={'tqdm.write': lambda ex, st, a, k, n: None, 'logger.debug': lambda ex, st, a, k, n: None,
                        'str': lambda ex, st, a, k, n: 's'},
                 globals_={'tqdm': Module('tqdm'), 'str': Func('str')},
                 loops={0: Loop(inv=[('uf[k]=1-iff-due-and-enabled;others-unchanged', fired)], assume=[('snap', snap)],
                                frame=['$i', '$action', 'self._vstore', 'loc:self.uf.v', 'ghost:uf0', 'ghost:in_iter'])},
                 ensures=[], modifies=['self._vstore', 'self.uf.v'])
    c.check_bounds = False

    def pre_state(st):
        st.ghost.pop('in_iter', None)
    c.pre_state = pre_state
    return c


def fault_clear(pid):
    """Fault.clear_fault: uf[k] becomes 0 for exactly the faults whose clearing time has come and which are enabled."""
    N = fresh('n', I)

    def snap(v):
        v.st.ghost['uf0'] = v.arr('self.uf.v')
        v.st.ghost['in_iter'] = True
        return True

    def fired(v):
        if not v.st.ghost.get('in_iter'):
            return True
        i = v.local('$i0') - 1
        due = z3.And(v.st.content(v.st.env['is_time']).vals[i] != 0, v.arr('self.u.v').vals[i] == 1)
        u0, u1 = v.st.ghost['uf0'], v.arr('self.uf.v')
        k = fresh('k', I)
        return z3.ForAll([k], z3.Implies(z3.And(k >= 0, k < N), u1.vals[k] == z3.If(z3.And(k == i, due), 0, u0.vals[k])))
    c = Contract(FT, 'Fault.clear_fault', pid=pid, params={'self': TObj(), 'is_time': TArr(kind='bool', n=N)},
                 schema={'self.n': TInt(), 'self.u.v': TArr(n=N), 'self.uf.v': TArr(n=N), 'self.bus.v': TSeq(elem=K), 'self.idx.v': TSeq(elem=K),
                         'self.tc.v': TArr(n=N), 'self.config.restore': TConst(False)},
                 requires=[('n', lambda v: z3.And(v.z('self.n') == N, N >= 0))],
                 calls={'tqdm.write': lambda ex, st, a, k, n: None, 'logger.debug': lambda ex, st, a, k, n: None},
                 globals_={'tqdm': Module('tqdm')},
                 loops={0: Loop(inv=[('uf[k]=0-iff-due-and-enabled;others-unchanged', fired)], assume=[('snap', snap)],
                                frame=['$i', '$action', 'loc:self.uf.v', 'ghost:uf0', 'ghost:in_iter'])},
                 ensures=[], modifies=['self.uf.v'])
    c.check_bounds = False

    def pre_state(st):
        st.ghost.pop('in_iter', None)
    c.pre_state = pre_state
    return c


def alter_field(pid):
    """Alter._alter_field: for every enabled alteration whose time has come, exactly the addressed field (model[k], dev[k], src[k],
    attr[k]) is set once to old (+ - * / =) amount[k] as the method selector says; nothing is touched otherwise."""
    N = fresh('n', I)

    def get(ex, st, args, kw, node):
        i = to_z3(st.env['ii'])
        base = args[0]
        ok = (isinstance(base, Mark) and base.kind == 'devmodel' and _is_elem(st, base.data[0], 'self.model.v', i)
              and _is_elem(st, kw.get('idx'), 'self.dev.v', i) and _is_elem(st, kw.get('src'), 'self.src.v', i)
              and _is_elem(st, kw.get('attr'), 'self.attr.v', i))
        v0 = fresh('v0', R)
        st.ghost['get'] = (bool(ok), v0)
        return NR(v0)

    def set_(ex, st, args, kw, node):
        i = to_z3(st.env['ii'])
        base = args[0]
        g = st.ghost.get('get') or (False, z3.RealVal(0))
        ok = (isinstance(base, Mark) and base.kind == 'devmodel' and g[0] and _is_elem(st, base.data[0], 'self.model.v', i)
              and _is_elem(st, kw.get('idx'), 'self.dev.v', i) and _is_elem(st, kw.get('src'), 'self.src.v', i)
              and _is_elem(st, kw.get('attr'), 'self.attr.v', i))
        v0 = g[1]
        amt = st.content(st.load('self.amount.v')).vals[i]
        sw = [st.content(st.load('self.SW.s%d' % k)).vals[i] == 1 for k in range(5)]
        want = z3.If(sw[0], v0 + amt, z3.If(sw[1], v0 - amt, z3.If(sw[2], v0 * amt, z3.If(sw[3], v0 / amt, amt))))
        ex.oblige(st, 'pre@call:set(src[k],dev[k],attr[k],value=old<op>amount[k])-on-model[k]',
                  z3.And(z3.BoolVal(bool(ok)), as_real(kw.get('value')).val == want), {})
        st.ghost['sets'] = st.ghost['sets'] + 1
        return None

    def reset(v):
        v.st.ghost['sets'] = 0
        v.st.ghost['in_iter'] = True
        return True

    def fired(v):
        if not v.st.ghost.get('in_iter'):
            return True
        i = v.local('$i0') - 1
        due = z3.And(v.st.content(v.st.env['is_time']).vals[i] != 0, v.arr('self.u.v').vals[i] != 0)
        valid = z3.Or(*[v.arr('self.SW.s%d' % k).vals[i] == 1 for k in range(5)])
        sets = v.st.ghost['sets']
        sets = sets if z3.is_expr(sets) else z3.IntVal(sets)
        return z3.And(z3.Implies(z3.And(due, valid), sets == 1), z3.Implies(z3.Not(due), sets == 0))
    sch = {'self.n': TInt(), 'self.u.v': TArr(n=N), 'self.model.v': TSeq(elem=K), 'self.dev.v': TSeq(elem=K), 'self.src.v': TSeq(elem=K),
           'self.attr.v': TSeq(elem=K), 'self.amount.v': TArr(n=N), 'self.rand.v': TArr(n=N), 'self.lb.v': TArr(n=N), 'self.ub.v': TArr(n=N),
           'self.idx.v': TSeq(elem=K), 'self.t.v': TArr(n=N), 'self.method.v': TSeq(elem=K), 'self.class_name': TStr(),
           'self.system.dae.t': TReal()}
    for k in range(5):
        sch['self.SW.s%d' % k] = TArr(n=N)
    c = Contract(FT, 'AlterModel._alter_field', pid=pid, params={'self': TObj(), 'is_time': TArr(kind='bool', n=N)}, schema=sch,
                 requires=[('n', lambda v: z3.And(v.z('self.n') == N, N >= 0)),
                           ('fixed-amounts(rand=0)-and-non-zero-divisors', lambda v: z3.ForAll([KQ2], z3.Implies(z3.And(KQ2 >= 0, KQ2 < N), z3.And(
                               v.arr('self.rand.v').vals[KQ2] == 0, v.arr('self.amount.v').vals[KQ2] != 0))))],
                 ghost_init={'sets': 0},
                 calls={'__objdict__': _dev_model, '<value>.get': get, '<value>.set': set_, 'tqdm.write': lambda ex, st, a, k, n: None,
                        'repr': lambda ex, st, a, k, n: 'r'},
                 globals_={'tqdm': Module('tqdm'), 'repr': Func('repr')},
                 loops={0: Loop(inv=[('alteration-k-sets-its-field-once-iff-due-enabled-and-method-valid', fired)], assume=[('reset', reset)],
                                frame=['$ii', '$model', '$idx', '$src', '$attr', '$amount', '$v0', '$vnew', '$action', 'loc:self.u.v',
                                       'ghost:sets', 'ghost:get', 'ghost:in_iter'])},
                 ensures=[], modifies=['self.u.v'])
    c.check_bounds = False

    def pre_state(st):
        st.ghost.pop('in_iter', None)
    c.pre_state = pre_state
    return c


KQ2 = z3.Int('kq2')


WIT_F28 = {'F28': lambda old, new: old.st.ghost['nkeys'] > 0}       # schedule not empty at entry


def replay_f28():
    """F28 on the real code: re-scheduling into a non-empty switch_dict leaves switch_times unsorted"""
    from collections import OrderedDict
    from types import SimpleNamespace
    import numpy as np
    from andes.system import System
    t = [2.0]
    m = OrderedDict(A=SimpleNamespace(class_name='A', get_times=lambda: [np.array(t)]))
    stub = SimpleNamespace(options={}, dae=SimpleNamespace(t=0.0), switch_dict=OrderedDict(), models=m, switch_times=np.array([]), n_switches=0)
    System.store_switch_times(stub, m)
    t[0], stub.dae.t = 1.5, 0.5
    System.store_switch_times(stub, m)
    st = list(stub.switch_times)
    return {'confirmed': st != sorted(st), 'observed': st}


class _V0:
    """view adaptor: invariant clauses evaluated before the loop (index 0)"""
    def __init__(self, v):
        self.st = v.st
        self._v = v

    def local(self, name):
        return z3.IntVal(0)

    def __getattr__(self, a):
        return getattr(self._v, a)


def replay_alter_field(obligation=None, model=None, meta=None):
    """native: coincident / successive Alter events on one field compose in device order (contracts/bounded_events.py)"""
    from contracts import bounded_events
    n, bad = bounded_events.run_coincident_alter()
    if bad:
        return {'confirmed': True, 'inputs': bad, 'observed': bad.get('observed'), 'native_cmd': 'contracts/bounded_events.py run_coincident_alter'}
    return {'confirmed': False, 'tried': n}


def replay_event_runs(obligation=None, model=None, meta=None):
    """native: event schedules on kundur_full with recorded callbacks and effect checks (contracts/bounded_events.py)"""
    from contracts import bounded_events
    n, bad = bounded_events.run()
    if bad:
        return {'confirmed': True, 'inputs': bad, 'observed': bad.get('observed'), 'native_cmd': 'contracts/bounded_events.py'}
    return {'confirmed': False, 'tried': n}


replay_event_runs.real_system = True


def replay_toggle_store(obligation=None, model=None, meta=None):
    """native: kundur_full plus two more toggles (another Line that is out of service, a PQ); the first Toggle.v_numeric (TDS.init)
    must store the status of each addressed device, a second call after the statuses were changed must write the stored ones back"""
    import andes
    import numpy as np
    ss = andes.load(andes.get_case('kundur/kundur_full.xlsx'), default_config=True, no_output=True, setup=False)
    ss.add('Toggle', dict(model='Line', dev='Line_3', t=3.0))
    ss.add('Toggle', dict(model='PQ', dev='PQ_1', t=4.0))
    ss.setup()
    ss.Line.set('u', 'Line_3', 'v', 0.0)
    ss.PFlow.run()
    ss.TDS.init()
    tg = ss.Toggle
    want = [float(ss.__dict__[m].get('u', d, 'v')) for m, d in zip(tg.model.v, tg.dev.v)]
    got = [float(x) for x in tg._u.v]
    if got != want or 0.0 not in want or 1.0 not in want:
        return {'confirmed': True, 'inputs': {'toggles': list(zip(tg.model.v, tg.dev.v))}, 'observed': {'stored': got, 'device status': want}}
    for m, d, w in zip(tg.model.v, tg.dev.v, want):
        ss.__dict__[m].set('u', d, 'v', 1.0 - w)
    tg.v_numeric()
    back = [float(ss.__dict__[m].get('u', d, 'v')) for m, d in zip(tg.model.v, tg.dev.v)]
    if back != want or [float(x) for x in tg._u.v] != want:
        return {'confirmed': True, 'inputs': {'toggles': list(zip(tg.model.v, tg.dev.v)), 'step': 'second initialisation'},
                'observed': {'restored': back, 'stored before': want, 'store after': [float(x) for x in tg._u.v]}}
    return {'confirmed': False, 'tried': 2 * len(want)}


replay_toggle_store.real_system = True


def add_obligations(pack, tier, pid='C06'):
    pack.assume('System.store_switch_times is verified in two mechanical slices cut at `for i, j in zip(out, names)`: the head (collection, sort, '
                'selection) guarantees what the tail (merge loop) requires of `out`, `names`: ascending, paired; not decided for the head: that no '
                'reported time is dropped (the bounded event runs check that every enabled event acts)',
                'np.argsort returns in-range indices that order the array ascending; np.where(mask)[0] returns the increasing in-range indices at '
                'which the mask holds; np.append(a, b) is a followed by b (assumed numpy contracts)')
    items = [(store_switch_times_head(pid), None, replay_store_switch_times), (store_switch_times_tail(pid, True), None, replay_store_switch_times), (store_switch_times_tail(pid, False), WIT_F28, replay_store_switch_times),
             (fn_tds.tds_init(pid),), (is_time(pid), None, replay_is_time), (model_switch_action(pid), None, replay_event_runs), (system_switch_action(pid), None, replay_event_runs),
             (toggle_u_switch(pid), None, replay_event_runs), (toggle_v_numeric(pid), None, replay_toggle_store), (fault_apply(pid), None, replay_fault_flags), (fault_clear(pid), None, replay_fault_flags), (alter_field(pid), None, replay_alter_field)]
    run_contracts(pack, items)

replay_alter_field.real_system = True       # drives the real program on stock inputs: a crash inside repository code is a confirmed failure


def replay_fault_flags(obligation=None, model=None, meta=None):
    """native run of the real Fault.apply_fault / clear_fault on stub devices: every combination of (already in fault, enabled, due) for
    1-3 fault devices -- a due and enabled device gets its flag set (cleared), every other flag keeps its value (overlapping faults)"""
    import contextlib
    import io
    import itertools
    import numpy as np
    from andes.models.timer import Fault
    from contracts.packutil import Stub
    n_cases = 0
    for n in (1, 2, 3):
        for uf0 in itertools.product((0.0, 1.0), repeat=n):
            for u in itertools.product((0.0, 1.0), repeat=n):
                for due in itertools.product((False, True), repeat=n):
                    for which in ('apply_fault', 'clear_fault'):
                        y = np.arange(6, dtype=float)
                        stub = Stub(Fault, n=n, u=Stub(v=np.array(u)), uf=Stub(v=np.array(uf0)), idx=Stub(v=list(range(1, n + 1))),
                                    bus=Stub(v=list(range(11, n + 11))), tf=Stub(v=np.full(n, 1.0)), tc=Stub(v=np.full(n, 1.1)),
                                    config=Stub(restore=False, mode=1, scale=1.0), _vstore=np.array([]),
                                    system=Stub(dae=Stub(y=y, t=1.0), Bus=Stub(n=2)))
                        n_cases += 1
                        with contextlib.redirect_stdout(io.StringIO()), contextlib.redirect_stderr(io.StringIO()):
                            ret = getattr(Fault, which)(stub, np.array(due))
                        new = 1.0 if which == 'apply_fault' else 0.0
                        want = [new if (d and e == 1) else f for d, e, f in zip(due, u, uf0)]
                        got = np.asarray(stub.uf.v, dtype=float).tolist()
                        any_due = any(d and e == 1 for d, e in zip(due, u))
                        if got != want or bool(ret) != any_due:
                            return {'confirmed': True,
                                    'inputs': {'call': 'Fault.%s' % which, 'in fault before (uf)': list(uf0), 'enabled (u)': list(u), 'due now': list(due)},
                                    'observed': 'uf after the call %r (returned %r); the due and enabled devices change, all others keep their flag: %r (action %r)'
                                                % (got, ret, want, any_due),
                                    'native_cmd': 'Fault.%s(stub, is_time) on a stub with the listed arrays' % which}
    return {'confirmed': False, 'tried': n_cases}
