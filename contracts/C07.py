"""
C07 -- simulated trajectories agree with an independent reference solution  (narrow, compositional).

Own obligations (no trajectory is computed for them): the GENCLS/GENBase strings on the live model are the textbook classical
machine (swing equation with M on the left-hand side, stator KVL, air-gap torque, closed-form power-angle relation
E'V sin(delta-theta)/x'd for ra = 0).  Imported obligations (run in-process, the pack fails if any fails): the
integration-rule contracts of C04, the event-time contracts of C06, and the generated code / Jacobian contracts
(C02/C03) restricted to the models of the single-machine benchmark (GENCLS, Line, Bus, Toggle, PQ, Slack, PV).
The convergence theorem of the trapezoid / backward-Euler rules on index-1 DAEs is assumed mathematics.
"""
import z3

from contracts import specutil as U
from pyvc import expr as X
from pyvc.report import Pack
from pyvc.smt import prove

F_BASE = 'andes/models/synchronous/genbase.py'
F_CLS = 'andes/models/synchronous/gencls.py'


def own_obligations(pack):
    ss = U.system()
    # line switching: what a Toggle changes (u) must reach the residuals, i.e. no constant read by them may have u baked in
    U.status_independence(pack, 'C07', ss, 'Line', 'andes/models/line/line.py', replay=U.replay_line_closing)
    g = ss.GENCLS
    # ---- 1, 2: swing equation
    cases = [
        ('delta', 'u * 2 * pi * fn * (omega - 1)', 'd(delta)/dt = 2 pi f_n (omega - 1)'),
        ('omega', 'u * (tm - te - D * (omega - 1))', 'M d(omega)/dt = tau_m - tau_e - D (omega - 1)'),
    ]
    n = 0
    for var, spec, doc in cases:
        declared = getattr(g, var).e_str
        name = 'C07/%s:GENBase.%s.e_str/post[%s]' % (F_BASE, var, doc)
        r = U.spec_equal(name, declared, spec, meta={'model': 'GENCLS', 'var': var})
        U.settle_spec(pack, r, declared, spec)
        n += 1
    tc = getattr(g.omega, 't_const', None)
    ok = tc is not None and tc.name == 'M' and getattr(g.delta, 't_const', None) is None
    pack.add({'name': 'C07/%s:GENBase.omega.t_const/post[mass M multiplies d(omega)/dt, delta has unit mass]' % F_BASE,
              'verdict': 'proved' if ok else 'refuted', 'backend': 'structural', 'time_s': 0.0, 'model': None, 'smt2': None,
              'meta': {'t_const': getattr(tc, 'name', None)}, 'note': ''})
    if not ok:
        pack.violation('C07/%s:GENBase.omega.t_const/post[mass M multiplies d(omega)/dt, delta has unit mass]' % F_BASE,
                       {'observed': getattr(tc, 'name', None), 'expected': 'M'}, no_input=True)
    n += 1
    pack.add_function('GENBase.__init__ (delta, omega, a, v, vd, vq, te strings)', F_BASE, obligations=n)

    # ---- 3: algebraic network interface: under all GENCLS algebraic equations = 0
    ctx = X.Ctx()
    tr = X.Translator(ctx)
    alg = ['Id', 'Iq', 'vd', 'vq', 'te', 'psid', 'psiq']
    hyps = [ctx.sym('u') == 1, ctx.sym('xq') != 0]
    eqs = {}
    for v in alg:
        e = getattr(g, v).e_str
        eqs[v] = e
        hyps.append(X.tz(X.as_num(tr.tr(X.parse(e))).v) == 0)

    def val(s):
        return X.tz(X.as_num(tr.tr(X.parse(s))).v)
    Pinj = val(g.a.e_str)
    Qinj = val(g.v.e_str)
    goals = [
        ('q-axis KVL: vq + ra Iq + x\'d Id = vf', val('vq + ra*Iq + xq*Id') == val('vf'), []),
        ('d-axis KVL: vd + ra Id - x\'d Iq = 0', val('vd + ra*Id - xq*Iq') == 0, []),
        ('air-gap torque = terminal power + copper loss', val('te') == val('vd*Id + vq*Iq + ra*(Id*Id + Iq*Iq)'), []),
        ('bus P residual = -(vd Id + vq Iq)', Pinj == -val('vd*Id + vq*Iq'), []),
        ('bus Q residual = -(vq Id - vd Iq)', Qinj == -val('vq*Id - vd*Iq'), []),
        ('power-angle: P = E\' V sin(delta - theta) / x\'d  (ra = 0)', -Pinj == val('vf*v*sin(delta - a)/xq'),
         [ctx.sym('ra') == 0]),
        ('Q = (E\' V cos(delta - theta) - V^2) / x\'d  (ra = 0)', -Qinj == val('(vf*v*cos(delta - a) - v*v)/xq'),
         [ctx.sym('ra') == 0]),
        ('tau_e = P  (ra = 0)', val('te') == -Pinj, [ctx.sym('ra') == 0]),
    ]
    inst = ctx.instances()
    n = 0
    for doc, goal, extra in goals:
        name = 'C07/%s:GENCLS.algebraic/post[%s]' % (F_CLS, doc)
        r = prove(name, hyps + extra + inst, goal, meta={'equations': eqs}, keep_smt2=(n == 5))
        d = r.as_dict()
        pack.add(d)
        n += 1
        if d['verdict'] == 'refuted':
            pack.violation(name, {'solver': d['backend'], 'model': d['model'], 'equations': eqs,
                                  'native_cmd': 'evaluate the listed GENCLS equation strings at the model values: all '
                                                'residuals vanish but the textbook relation does not hold'})
        elif d['verdict'] != 'proved':
            pack.undecided_obl(name, d.get('note', ''))
    can = prove('canary', hyps + inst, z3.BoolVal(False), want_model=False, use_cvc5=False, timeout_ms=3000)
    pack.vacuity['canaries'] += 1
    if can.verdict == 'proved':
        pack.vacuity['failed'].append('C07 GENCLS hypotheses contradictory')
    pack.add_function('GENCLSModel.__init__ + Flux0.__init__ (Id, Iq, psid, psiq strings)', F_CLS, obligations=n)


def run(tier, seed):
    pack = Pack('C07', tier, seed)
    pack.trust('convergence theorem of the trapezoid / backward-Euler rule for index-1 DAEs (assumed mathematics)',
               'GENCLS.xq is an ExtService aliasing the device\'s own xd1 (link resolution: C10)')
    pack.assume('closeness of a trajectory to a reference is a numerical-analysis statement over whole histories that no per-call '
                'contract expresses; decided by proof are only the premises of that theorem (model = textbook, integrator = rule, '
                'events at exact times, Jacobians = derivatives); trajectories are compared only by the bounded stand-ins below')
    own_obligations(pack)
    from contracts import C07_imports
    C07_imports.add_obligations(pack, tier, seed)
    from contracts.packutil import native_guard
    from contracts import bounded_smib as BS
    name = 'C07/andes/routines/tds.py:TDS.run/bounded:single-machine-benchmark-agrees-with-an-independent-solution'
    r = native_guard(pack, name, lambda: BS.run(tier))
    if r is not None:
        n, bad = r
        pack.bounded.append({'function': 'TDS.run on the SMIB case (end to end)', 'runs': n, 'counted_as_proved': False,
                             'kind': 'bounded native: inertia / damping / reactance / loading / fault and trip times varied, both methods, two step sizes, '
                                     'against a DOP853 solution of the two-machine classical model'})
        if bad:
            pack.violation(name, {'bounded': True, 'inputs': bad, 'native_cmd': 'contracts/bounded_smib.py'})
    from contracts import bounded_events as BEV
    name = 'C07/andes/routines/tds.py:TDS.run/bounded:every-scheduled-switching-event-acts-once-at-its-time,also-coincident-ones'
    r = native_guard(pack, name, BEV.run)
    if r is not None:
        n, bad = r
        pack.bounded.append({'function': 'TDS.run with Toggle / Fault / Alter schedules (end to end)', 'runs': n, 'counted_as_proved': False,
                             'kind': 'bounded native: kundur_full, schedules incl. coincident line trips and irrational event times (shared with C06)'})
        if bad:
            pack.violation(name, {'bounded': True, 'inputs': bad, 'native_cmd': 'contracts/bounded_events.py'})
    from contracts import bounded_smallsignal as BL
    name = 'C07/andes/routines/tds.py:TDS.run/bounded:small-displacement-follows-the-linearised-solution'
    r = native_guard(pack, name, lambda: BL.run(tier))
    if r is not None:
        n, bad = r
        pack.bounded.append({'function': 'TDS.run + EIG.run on kundur_full without events (end to end)', 'runs': n, 'counted_as_proved': False,
                             'kind': 'bounded native: states displaced by 1e-3 along eigenvectors of the reduced state matrix, 1 s, two step sizes, '
                                     'against expm(As t) dx0 (scipy)'})
        if bad:
            pack.violation(name, {'bounded': True, 'inputs': bad, 'native_cmd': 'contracts/bounded_smallsignal.py'})
    return pack.finish()
