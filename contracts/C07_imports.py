def add_obligations(pack, tier, seed):
    pass
