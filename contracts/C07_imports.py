"""Imported premises of C07: integration rule (C04), event times (C06), per-unit conversion of the benchmark models' data (C11) and
the declared bases of their parameters."""
from contracts.packutil import run_contracts


def add_obligations(pack, tier, seed):
    from contracts import C04, fn_tds as T, fn_pu, fn_decl as D
    pack.assume('imported premises are re-verified here under the id C07 from the same contracts as C04 / C06 / C11; the generated '
                'code and Jacobians of GENCLS, Line, Bus, PQ, PV, Slack, Toggle are those of C02 / C03 (all models are checked there)')
    items = C04.items('C07')
    items += [(T.calc_h('C07'), T.WIT_F10, T.replay_calc_h), (T.do_switch('C07'), None, T.replay_do_switch)]
    items += [(fn_pu.calc_pu_coeff('C07'),), (fn_pu.set_pu_coeff('C07'),)]
    items += [(D.declaration('C07', *D.GENBASE),), (D.declaration('C07', *D.LINE),)]
    # events at exact times: the candidate times handed to the schedule are exactly the declared times (and t -+ eps)
    from contracts import C06_more
    items += [(C06_more.store_switch_times_head('C07'), None, C06_more.replay_store_switch_times), (C06_more.is_time('C07'), None, C06_more.replay_is_time)]
    # the small-signal premise: the state matrix is the reduction of the assembled Jacobian blocks and time constants
    from contracts import fn_eig as E
    items += [(E.reduce_('C07'),), (E.calc_as('C07'), None, E.replay_calc_as)]
    # "for every choice of inertia": an inertia (any time constant) set after initialisation is the one the rule integrates with
    from contracts import fn_sequence as Q
    items += [(fn_pu.model_set('C07', 'v'), None, fn_pu.replay_model_set), (Q.store_tf('C07'), None, Q.replay_store_tf)]
    run_contracts(pack, items)
