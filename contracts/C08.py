"""
C08 -- eigenvalue analysis reports the true small-signal modes of the DAE.
Functions under contract: EIG._store_stats, find_zero_states, _reduce, calc_pfactor, _pre_check, run.
Bounded / sampled stand-in (labelled): calc_As incl. _reorder against scipy.linalg.eig(A, diag(Tf)).
"""
from contracts import fn_eig as E
from contracts.packutil import run_contracts, COMMON_ASSUME, native_guard
from pyvc.report import Pack
from pyvc.smt import prove


def run(tier, seed):
    pack = Pack('C08', tier, seed)
    pack.trust('LAPACK: np.linalg.eig(A) returns (mu, N) with A N = N diag(mu); scipy.linalg.solve(N, I) = N^-1',
               'kvxopt linsolve(A, B) overwrites B with A^-1 B (C16); spdiag(list) is the diagonal matrix of that list',
               'np.count_nonzero(mask) counts the true entries; the counts of a point-wise partition add up to the length '
               '(counting lemma, assumed)', 'b @ P with b = ones gives the column sums of P; np.round is element-wise')
    pack.assume(*COMMON_ASSUME)
    pack.assume('matrix products are uninterpreted (ring-level identity for the Schur complement)',
                'lemma L2 (each mode sums to one): if w = sum_i a_i != 0 then sum_i a_i / w = 1 -- real-field identity, stated '
                'for the exact quotients; rounding to 5 decimals moves each entry by at most 5e-6',
                'not decided: that the reported eigenvalues are the finite generalised eigenvalues when zero time constants are '
                'present (EIG._reorder is outside the subset; bounded stand-in + known finding F4)')
    items = [(E.store_stats('C08'), None, E.replay_store_stats), (E.find_zero_states('C08'),), (E.reduce_('C08'),), (E.calc_pfactor('C08'), None, E.replay_calc_pfactor),
             (E.pre_check('C08'), E.WIT_F16, E.replay_pre_check), (E.eig_run('C08'),), (E.calc_as('C08'), None, E.replay_calc_as), (E.sweep_rounds('C08'), None, E.replay_sweep)]
    # the time constants the state matrix is built from follow parameter changes made after initialisation (Model.set -> dae.Tf)
    from contracts import fn_pu
    items.append((fn_pu.model_set('C08', 'v'), None, fn_pu.replay_model_set))
    from contracts import fn_sequence as Q
    items.append((Q.store_tf('C08'), None, Q.replay_store_tf))
    run_contracts(pack, items)
    # L2 instance for n = 3 (the general statement is an induction over a sum binder; see DESIGN 2.6)
    import z3
    a, b, c = z3.Reals('a b c')
    w = a + b + c
    r = prove('C08/andes/routines/eig.py:EIG.calc_pfactor/lemma:L2(n=3):sum_i(a_i/w)=1', [w != 0], a / w + b / w + c / w == 1, keep_smt2=True)
    pack.add(r)
    if r.verdict != 'proved':
        pack.undecided_obl(r.name, r.note)
    bounded(pack, tier, seed)
    from contracts import bounded_eig_ref as BR
    rname = 'C08/andes/routines/eig.py:EIG.run/bounded:reported-spectrum-equals-that-of-the-reduced-state-matrix;counts;participation'
    r = native_guard(pack, rname, BR.run)
    if r is not None:
        nr, badr = r
        pack.bounded.append({'function': 'EIG.run (end to end)', 'kind': 'bounded native: %s, before and after a multi-device inertia change' % ', '.join(BR.CASES),
                             'cases': nr, 'counted_as_proved': False})
        if badr:
            pack.violation(rname, {'bounded': True, 'inputs': badr, 'native_cmd': 'contracts/bounded_eig_ref.py'})
    sname = 'C08/andes/routines/eig.py:EIG.sweep/bounded:every-round-reports-the-spectrum-of-the-system-with-that-value'
    r = native_guard(pack, sname, E.replay_sweep)
    if r is not None:
        pack.bounded.append({'function': 'EIG.sweep (end to end)', 'kind': 'bounded native: kundur_full without events; GENROU.M x (1, 2, 4) against fresh systems, EXDC2.KA x (2.5, 10) '
                                                                       'against the state matrix rebuilt from freshly evaluated Jacobians', 'rounds': r.get('tried', 0), 'counted_as_proved': False})
        if r.get('confirmed'):
            pack.violation(sname, {'bounded': True, 'inputs': r.get('inputs'), 'observed': r.get('observed'), 'native_cmd': r.get('native_cmd')})
    return pack.finish()


def bounded(pack, tier, seed):
    from contracts import bounded_eig as BE
    r = native_guard(pack, 'C08/andes/routines/eig.py:EIG.calc_As/bounded:runs', lambda: BE.run(seed, 12 if tier == 'thorough' else 4))
    if r is None:
        return
    n, found = r
    pack.bounded.append({'function': 'EIG.calc_As (find_zero_states, _reduce, _reorder)', 'kind': 'bounded (sampled, real methods on a stub)',
                         'bound': 'n in 2..4, m in 1..2, every proper subset of zero time constants, random Jacobians (seeded)',
                         'cases': n, 'kinds_of_mismatch': sorted(found), 'counted_as_proved': False})
    for kind, w in found.items():
        name = 'C08/andes/routines/eig.py:EIG.calc_As/bounded:%s' % kind
        known = pack.known_for(name)
        if known:
            for k in known:
                pack.known_finding(k)
            continue
        pack.violation(name, {'bounded': True, 'inputs': w, 'native_cmd': 'contracts/bounded_eig.py'})
