"""
C09 -- limiters and other discrete components enforce their documented semantics.
Functions under contract: LessThan/IsEqual/Limiter(HardLimiter, DeadBand)/AntiWindup/Switcher/DeadBandRT/Delay/Average/
Derivative/Sampling check_var / check_eq, Limiter.do_adjust_lower/upper; the write-back of pegged states is covered by
ImplicitIter.step (C04) and System.fg_to_dae (C09_more).
"""
from contracts import fn_discrete as D
from contracts.packutil import run_contracts, COMMON_ASSUME
from pyvc.report import Pack


def run(tier, seed):
    pack = Pack('C09', tier, seed)
    pack.trust('Limiter.do_adjust_* are not called outside initialisation (is_init=False in check_var / check_eq contracts); '
               'their own contract is discharged separately',
               'Delay/Average/Derivative are verified for one arbitrary device row (row projection of the 2-D history '
               'array; NumPy broadcasting along rows assumed) and for step mode with a concrete delay (2; Derivative: 1)')
    pack.assume(*COMMON_ASSUME)
    pack.assume('limiter behaviour "at every stored instant of every simulation" is covered only through these per-call '
                'contracts and the write-back contracts; Delay time mode (np.append/hstack/interp) is outside the subset',
                'flag arrays hold 0/1 on entry (representation invariant, established by the constructors)')
    items = [
        (D.less_than('C09'),), (D.is_equal('C09'),),
        (D.limiter('C09'), D.WIT_F5, D.replay_limiter),
        (D.do_adjust('C09', 'lower'),), (D.do_adjust('C09', 'upper'),),
        (D.antiwindup('C09'), D.WIT_AW, D.replay_antiwindup),
        (D.antiwindup('C09', stale=True), D.WIT_AW, D.replay_antiwindup),
        (D.switcher('C09'),),
        (D.deadband_rt('C09'), D.WIT_F6, D.replay_deadband_rt),
        (D.delay('C09'),), (D.average('C09'), None, D.replay_average), (D.derivative('C09'),), (D.sampling('C09'),),
    ]
    run_contracts(pack, items)
    from contracts import C01_assembly
    run_contracts(pack, [(C01_assembly.fg_to_dae('C09'), None, C01_assembly.replay_fg_to_dae), (C01_assembly.store_adder_setter('C09'), None, C01_assembly.replay_store_adder_setter)])
    # the order in which one residual round consults the discrete components, and that each component is consulted once
    from contracts import fn_sequence as Q
    run_contracts(pack, [(Q.pflow_fg_update('C09'),), (Q.tds_fg_update('C09'),), (Q.call_models('C09'),), (Q.model_l_update_var('C09'), None, Q.replay_l_update_var),
                         (Q.model_l_check_eq('C09', True),), (Q.model_l_check_eq('C09', False),)] +
                  [(Q.delegation('C09', n, m),) for n, m in (('l_update_var', 'l_update_var'), ('l_update_eq', 'l_check_eq'))])
    # the quantity behind a limiter block with an output gain stays inside the scaled limits: all three regimes of GainLimiter
    from contracts import C18 as B18
    B18.gain_limiter_at_limits(pack, 'C09')
    from contracts.packutil import native_guard
    from contracts import bounded_limiters_run as BLR
    lname = 'C09/andes/core/discrete.py:Limiter;AntiWindup/bounded:flags-partition-and-limited-quantities-inside-limits-during-simulations'
    r = native_guard(pack, lname, BLR.run)
    if r is not None:
        nl, badl = r
        pack.bounded.append({'function': 'Limiter / AntiWindup during TDS runs (end to end)', 'limiter_instants': nl, 'counted_as_proved': False,
                             'kind': 'bounded native: %s, inspected at several instants' % ', '.join(c for c, _ in BLR.CASES)})
        if badl:
            pack.violation(lname, {'bounded': True, 'inputs': badl, 'native_cmd': 'contracts/bounded_limiters_run.py'})
    sname = 'C09/andes/core/discrete.py:AntiWindup/bounded:state-inside-limits-at-every-stored-instant-of-whole-runs'
    r = native_guard(pack, sname, BLR.run_stored)
    if r is not None:
        ns, bads = r
        pack.bounded.append({'function': 'AntiWindup states over the stored time series of TDS runs (end to end)', 'stored_values': ns, 'counted_as_proved': False,
                             'kind': 'bounded native: %s, every stored instant, constant limits, tolerance 5e-4' % ', '.join(c for c, _ in BLR.STORED_CASES)})
        if bads:
            pack.violation(sname, {'bounded': True, 'inputs': bads, 'native_cmd': 'contracts/bounded_limiters_run.py run_stored'})
    mname = 'C09/andes/core/discrete.py:AntiWindup.check_eq/bounded:a-state-held-at-a-moving-limit-is-written-back-with-the-current-limit'
    r = native_guard(pack, mname, BLR.run_moving_limit)
    if r is not None:
        nm, badm = r
        pack.bounded.append({'function': 'AntiWindup.check_var / check_eq over successive evaluations with a falling upper limit', 'evaluations': nm,
                             'counted_as_proved': False, 'kind': 'bounded native (real AntiWindup on stub arrays)'})
        if badm:
            pack.violation(mname, {'bounded': True, 'inputs': badm, 'native_cmd': 'contracts/bounded_limiters_run.py run_moving_limit'})
    from contracts.C18 import rate_limiter_sides
    rate_limiter_sides(pack, 'C09')
    return pack.finish()
