"""
C10 -- variable addressing is a bijection and external links follow device indices.
Functions under contract: DAE.request_address (both layouts, x and y), BaseVar.set_address, System.set_address,
_set_xy_name, ExtVar/ExtParam/ExtService.link_external (model branch), Model.get; lemma L1 (block address maps are
bijections, with the div/mod witness).
"""
from contracts import fn_address as A
from contracts.packutil import run_contracts, COMMON_ASSUME
from pyvc.report import Pack


def run(tier, seed):
    pack = Pack('C10', tier, seed)
    pack.trust('np.arange(lo, hi, step) = [lo, lo+step, ...) below hi (integer arguments, step >= 1)',
               'idx -> uid lookup (Model.idx2uid / GroupBase.idx2uid) returns the position of the device with that idx: '
               'uninterpreted function uid_of_idx, in range (contract discharged in C19)',
               'DAE.resize_arrays / System.set_var_arrays / alloc_or_extend_names do not change addresses or counters')
    pack.assume(*COMMON_ASSUME)
    pack.assume('collections of models / variables are abstract: a loop body over them is verified once for an arbitrary '
                'element; facts about all elements leave the loop only through the counters (monotone blocks)',
                'not decided: that var.v shares memory with dae.x/dae.y (aliasing of NumPy views is a run-time fact); '
                'the group branch of link_external (GroupBase.get) is covered by C19',
                'Python ints are mathematical integers; z3 div/mod with positive divisor')
    items = [(A.request_address('C10', 'x', False), None, A.replay_request_address), (A.request_address('C10', 'x', True), None, A.replay_request_address),
             (A.request_address('C10', 'y', False), None, A.replay_request_address), (A.request_address('C10', 'y', True), None, A.replay_request_address),
             (A.set_address_var('C10'),), (A.system_set_address('C10'),), (A.set_xy_name('C10'),),
             (A.link_external_model('C10'),), (A.link_external_group('C10'), None, A.replay_link_external_group), (A.set_arrays_inplace('C10'),), (A.set_hi_name('C10'), None, A.replay_hi_names), (__import__('contracts.fn_registry', fromlist=['x']).find_or_add('C10'), None, __import__('contracts.fn_registry', fromlist=['x']).replay_find_or_add), (A.extparam_link_model('C10'),), (A.extparam_link_group('C10'), None, A.replay_extparam_group), (A.extservice_link('C10'),),
             (A.model_get('C10'),)]
    from contracts import fn_registry as GR
    items += [(GR.one_idx2uid('C10'), None, GR.replay_model_idx2uid), (GR.model_idx2uid('C10'), None, GR.replay_model_idx2uid)]
    run_contracts(pack, items)
    A.bijection_lemmas(pack, 'C10')
    from contracts.packutil import native_guard
    from contracts import bounded_addressing as BA
    name = 'C10/andes/system.py:System.set_address;set_dae_names;link_ext_param/bounded:one-slot-per-variable,named-after-it,links-follow-idx'
    r = native_guard(pack, name, lambda: BA.run(tier))
    if r is not None:
        n, bad = r
        pack.bounded.append({'function': 'System.setup / set_address / set_dae_names / link_external (end to end)', 'checks': n,
                             'kind': 'bounded native (stock cases after TDS.init)', 'counted_as_proved': False})
        if bad:
            pack.violation(name, {'bounded': True, 'inputs': bad, 'native_cmd': 'contracts/bounded_addressing.py'})
    from contracts import bounded_group_lookup as BL
    lname = 'C10/andes/models/group.py:GroupBase.get/bounded:element-k-is-the-value-of-device-idx[k]'
    r = native_guard(pack, lname, BL.run)
    if r is not None:
        n3, bad3 = r
        pack.bounded.append({'function': 'GroupBase.get / idx2model (the lookup behind the group branch of link_external)', 'cases': n3,
                             'kind': 'bounded (exhaustive small group: all orders, repeats, None)', 'counted_as_proved': False})
        for w in bad3[:1]:
            pack.violation(lname, {'bounded': True, 'inputs': w, 'native_cmd': 'contracts/bounded_group_lookup.py'})
    from contracts import bounded_permutation as BPM
    pname = 'C10/andes/system.py:System.setup/bounded:results-do-not-depend-on-the-order-in-which-devices-are-listed'
    r = native_guard(pack, pname, lambda: BPM.run(seed))
    if r is not None:
        np_, badp = r
        pack.bounded.append({'function': 'load / setup / PFlow.run / TDS.run on stock cases with the rows of every sheet shuffled (end to end)', 'cases': np_,
                             'kind': 'bounded native: %s, two seeded shuffles each, compared by variable name' % ', '.join(BPM.CASES), 'counted_as_proved': False})
        if badp:
            pack.violation(pname, {'bounded': True, 'inputs': badp, 'native_cmd': 'contracts/bounded_permutation.py'})
    gname = 'C10/andes/core/param.py:ExtParam.link_external/bounded:borrowed-parameter-of-an-interleaved-two-model-group-follows-the-index-field'
    r = native_guard(pack, gname, A.replay_extparam_group)
    if r is not None:
        pack.bounded.append({'function': 'System.setup with SynGen served by GENROU and GENCLS, TGOV1.syn in three orders (end to end)', 'cases': r.get('tried', 0),
                             'kind': 'bounded native: ieee14.raw plus added machines and governors', 'counted_as_proved': False})
        if r.get('confirmed'):
            pack.violation(gname, {'bounded': True, 'inputs': r.get('inputs'), 'observed': r.get('observed'), 'native_cmd': r.get('native_cmd')})
    # "for every order of adding devices": the idx -> position lookup every link goes through, in scalar, list and array form
    from contracts import bounded_registry as BR
    rname = 'C10/andes/core/model/model.py:Model.idx2uid/bounded:registries-of-integers-added-in-any-order:every-query-form-returns-the-positions'
    r = native_guard(pack, rname, lambda: BR.run(getattr(pack, 'seed', 0) or 0))
    if r is not None:
        n3, bad3 = r
        pack.bounded.append({'function': 'System.add / Model.idx2uid / GroupBase.idx2uid (sequences of additions)', 'calls': n3,
                             'kind': 'bounded native: all orders of 4 consecutive integers and 8 longer orders (gaps, zero-based, descending), '
                                     'queries as scalar, list, array, nested list, with None', 'counted_as_proved': False})
        if bad3:
            pack.violation(rname, {'bounded': True, 'inputs': bad3, 'native_cmd': 'contracts/bounded_registry.py'})
    return pack.finish()
