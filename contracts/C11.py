"""
C11 -- per-unit conversion and parameter alteration keep both value bases consistent.
Functions under contract: System.calc_pu_coeff, NumParam.set_pu_coeff / restore, Model.set (v and vin, time-constant
propagation), Model.alter (both attr modes), GroupBase.alter, ModelData.as_dict(vin=True).
"""
from contracts import fn_pu as P
from contracts.packutil import run_contracts, COMMON_ASSUME
from pyvc.report import Pack


def run(tier, seed):
    pack = Pack('C11', tier, seed)
    pack.trust('Bus.get / Node.get return the base voltage of the bus named by the device (C10/C19 lookups)',
               'Model.find_param(prop) returns the parameters whose property <prop> is set',
               'idx -> uid lookup in range (C19)')
    pack.assume(*COMMON_ASSUME)
    pack.assume('calc_pu_coeff is verified pointwise (one arbitrary device of one arbitrary model; NumPy element-wise '
                'semantics); device and system bases are positive',
                'textbook ratios: power Sn/Sb, voltage Vn/Vb, current (Sn/Vn)/(Sb/Vb), impedance (Vn^2/Sn)/(Vb^2/Sb), '
                'admittance its inverse, dc analogues with Idcb = Sb/Vdcb',
                'not decided: the xlsx / json writers (pandas); System.reset as a whole (only NumParam.restore)')
    items = [(P.calc_pu_coeff('C11'),), (P.set_pu_coeff('C11'),), (P.restore('C11'), None, P.replay_restore), (P.model_set('C11', 'v'), None, P.replay_model_set),
             (P.model_set('C11', 'vin'),)] + [(c,) for c in P.model_alter('C11')] + [(P.group_alter('C11'), None, P.replay_group_alter), (P.as_dict('C11'),), (P.as_dict('C11', converter=True),)]
    from contracts import fn_decl as D
    from contracts import fn_sequence as Q
    items += [(Q.system_reset('C11'), None, Q.replay_reset_inputs), (Q.p_restore('C11'), None, Q.replay_reset_inputs)]
    items += [(D.declaration('C11', *D.GENBASE),), (D.declaration('C11', *D.LINE),)]
    # how an input value reaches v before the conversion: System.add -> ModelData.add -> NumParam.add (contracts shared with C19 / C13),
    # and the writers that export the input-base values
    from contracts import fn_registry as R
    from contracts import fn_io as F
    items += [(R.system_add('C11'),), (R.modeldata_add('C11'),), (F.numparam_add('C11'),),
              (P.as_df('C11'), None, P.replay_as_df_after_reset), (F.writer_refreshes('C11', 'xlsx'), None, F.replay_altered_dump), (F.writer_refreshes('C11', 'json'), None, F.replay_altered_dump)]
    run_contracts(pack, items)
    from contracts.packutil import native_guard
    from contracts import bounded_pu as BPU
    name = 'C11/andes/system.py:System.calc_pu_coeff;Model.alter/bounded:v=vin*textbook-ratio-for-every-flagged-parameter'
    r = native_guard(pack, name, BPU.run)
    if r is not None:
        n, bad = r
        pack.bounded.append({'function': 'System.calc_pu_coeff / NumParam.set_pu_coeff / Model.alter (end to end)', 'parameters_checked': n,
                             'kind': 'bounded native: %s + devices on foreign bases' % ', '.join(BPU.CASES), 'counted_as_proved': False})
        if bad:
            pack.violation(name, {'bounded': True, 'inputs': bad, 'native_cmd': 'contracts/bounded_pu.py'})
    return pack.finish()
