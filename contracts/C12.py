"""
C12 -- island detection and status propagation match the network graph.
Functions under contract: ConnMan._update / record / act, System.g_islands.  Bounded stand-ins (labelled): System.connectivity
(real body on a stub system, exhaustive small networks vs. union-find), GroupBase.find_idx (see C19).
"""
from contracts import fn_connman as G
from contracts.packutil import run_contracts, COMMON_ASSUME, native_guard
from pyvc.report import Pack


def run(tier, seed):
    pack = Pack('C12', tier, seed)
    pack.trust('GroupBase.find_idx(keys=src, values=off buses, allow_all=True) returns, per off bus, all devices of the group whose '
               '<src> field is that bus, or [None] (bounded stand-in in C19; fixed F11)',
               'andes.utils.func.list_flatten concatenates a list of lists (identity on a flat list)',
               'GroupBase.set(src, idx, attr, value) writes exactly the addressed devices (C11)')
    pack.assume(*COMMON_ASSUME)
    pack.assume('the devices attached to an off bus are described by a ghost relation attached_via(group, field, device); the '
                'python lists built by act() are tracked as (membership, contains-None, non-empty) triples',
                'System.connectivity (Goderya closure over kvxopt sparse products) is NOT proved: bounded stand-in only')
    items = [(G.conn_init('C12'), None, G.replay_conn_init), (G.update('C12'),), (G.record('C12'), G.WIT_F12, G.replay_record), (G.act('C12'), G.WIT_F13, G.replay_act),
             (G.g_islands('C12'), None, G.replay_g_islands), (G.summary('C12'), None, G.replay_summary)]
    from contracts import fn_tds
    items.append((fn_tds.do_switch('C12'), None, fn_tds.replay_do_switch))
    # the matrix side of islanding: diagonal patch of gy for islanded buses in both accumulation modes (contracts shared with C03 / C16)
    from contracts import C03_assembly as A3
    items += [(A3.j_islands('C12'), None, A3.replay_j_islands), (A3.j_islands_rebuild('C12'), None, A3.replay_j_islands),
              (A3.system_j_update('C12'), None, A3.replay_system_j_update)]
    # the islands are recomputed at the start of every power-flow run (check_conn = 1), whatever status request is pending
    from contracts import fn_pflow as P
    items.append((P.run('C12'), None, P.replay_run))
    run_contracts(pack, items)
    bounded(pack, tier)
    from contracts import bounded_islands_real as BIR
    rname = 'C12/andes/system.py:System.connectivity/bounded:islands-of-a-loaded-case-match-the-branch-graph'
    r = native_guard(pack, rname, BIR.run)
    if r is not None:
        nr, badr = r
        pack.bounded.append({'function': 'System.connectivity on a loaded case', 'kind': 'bounded native: ieee14_full + a double circuit, %d outage patterns' % nr,
                             'counted_as_proved': False})
        if badr:
            pack.violation(rname, {'bounded': True, 'inputs': badr, 'native_cmd': 'contracts/bounded_islands_real.py'})
    return pack.finish()


def bounded(pack, tier):
    from contracts import bounded_connectivity as BC
    mb, mbr = (6, 4) if tier == 'thorough' else (5, 4)
    r = native_guard(pack, 'C12/andes/system.py:System.connectivity/bounded:runs', lambda: BC.run(mb, mbr))
    if r is None:
        return
    n, found = r
    pack.bounded.append({'function': 'System.connectivity', 'kind': 'bounded (exhaustive enumeration, real body on a stub system)',
                         'bound': '<=%d buses, <=%d branches incl. parallel and self-loops, all on/off patterns, 0-2 slacks' % (mb, mbr),
                         'cases': n, 'kinds_of_mismatch': sorted(found), 'counted_as_proved': False})
    for kind, w in found.items():
        name = 'C12/andes/system.py:System.connectivity/bounded:%s' % kind
        known = pack.known_for(name)
        if known:
            for k in known:
                pack.known_finding(k)
            continue
        pack.violation(name, {'bounded': True, 'inputs': w, 'native_cmd': 'contracts/bounded_connectivity.py: System.connectivity(stub)'})
    from contracts.C19 import bounded as find_idx_bounded
    from contracts import bounded_find_idx as BF
    # the lookup behind "devices attached to an off bus": registries whose bus column mixes numbers and generated names
    rm = native_guard(pack, 'C12/andes/core/model/modeldata.py:ModelData.find_idx/bounded:mixed-int-and-str-values-are-matched-as-python-objects', BF.run_mixed)
    if rm is not None:
        nmx, badmx = rm
        pack.bounded.append({'function': 'ModelData.find_idx / GroupBase.find_idx (mixed int / str registries)', 'cases': nmx, 'counted_as_proved': False,
                             'kind': 'bounded native'})
        if badmx:
            pack.violation('C12/andes/core/model/modeldata.py:ModelData.find_idx/bounded:mixed-int-and-str-values-are-matched-as-python-objects',
                           {'bounded': True, 'inputs': badmx, 'native_cmd': 'contracts/bounded_find_idx.py run_mixed'})
    rb = native_guard(pack, 'C12/andes/core/connman.py:ConnMan.act/bounded:a-bus-switched-off-takes-exactly-its-devices-with-it', G.replay_bus_off)
    if rb is not None:
        pack.bounded.append({'function': 'Bus.set / Bus.alter; PFlow.run; reset (end to end)', 'cases': rb.get('tried', 0), 'counted_as_proved': False,
                             'kind': 'bounded native: pjm5bus (every bus, zero-based indices), ieee14 extended by an automatically named bus'})
        if rb.get('confirmed'):
            pack.violation('C12/andes/core/connman.py:ConnMan.act/bounded:a-bus-switched-off-takes-exactly-its-devices-with-it',
                           {'bounded': True, 'inputs': rb.get('inputs'), 'observed': rb.get('observed'), 'native_cmd': rb.get('native_cmd')})
    r = native_guard(pack, 'C12/andes/models/group.py:GroupBase.find_idx/bounded:runs', lambda: BF.run(2))
    if r is not None:
        n2, mism = r
        pack.bounded.append({'function': 'GroupBase.find_idx', 'kind': 'bounded (exhaustive enumeration, native)',
                             'bound': '<=2 models x <=2 devices, values in {0,1}', 'cases': n2, 'mismatches': len(mism),
                             'counted_as_proved': False})
        for kind, w in mism.items():
            if not kind.startswith('GroupBase'):
                continue
            name = 'C12/andes/models/group.py:GroupBase.find_idx/bounded:result-equals-oracle'
            if pack.known_for(name):
                for k in pack.known_for(name):
                    pack.known_finding(k)
            else:
                pack.violation(name, {'bounded': True, 'inputs': w})
