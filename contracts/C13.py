"""
C13 -- case files round-trip; one case in different formats is one system (narrow).
Functions under contract: NumParam.add, BaseParam._sanitize, mpc2system (row -> System.add mapping), system2mpc (columns and
units), PSS/E v33 record functions _parse_bus/load/fshunt/gen/line/transf(2-winding)_v33 against the record layout.
Not reachable: text-level parsing, the yaml-driven DYR mapping, three-winding star buses, xlsx / json reading and writing.
"""
from contracts import fn_io as F
from contracts.packutil import run_contracts, COMMON_ASSUME, native_guard
from pyvc.report import Pack


def run(tier, seed):
    pack = Pack('C13', tier, seed)
    pack.trust('System.add(model, **fields) stores the fields through ModelData.add / NumParam.add (C19 + this pack)',
               'Bus.get(src, idx) returns that field of the bus with that idx (C10/C19)',
               'NumPy fancy-index store A[rows, col] = v: sequential stores, the last one to a row wins')
    pack.assume(*COMMON_ASSUME)
    pack.assume('MATPOWER case format columns and units as in the MATPOWER manual (bus/gen/branch); PSS/E v33 record layout as in '
                'the comments of andes/io/psse.py cross-read with the PSS/E data format description',
                'records are modelled with a fixed number of fields; one arbitrary record per loop body',
                'system2mpc is proved for at most one PQ and one Shunt per bus; several loads per bus is known finding F14 '
                '(native replay)',
                'not decided / not reachable: tokenising RAW/DYR text, the yaml-driven DYR mapping, three-winding transformers, '
                'xlsx / json round trips (pandas, openpyxl): bounded native stand-in on three stock cases only')
    items = [(F.numparam_add('C13'),), (F.sanitize('C13'),), (F.mpc2system('C13'), None, F.replay_mpc_roundtrip), (F.system2mpc('C13'), None, F.replay_mpc_roundtrip),
             (F.psse_bus('C13'),), (F.psse_load('C13'), None, F.replay_psse_load), (F.psse_fshunt('C13'),), (F.psse_gen('C13'),), (F.psse_line('C13'),),
             (F.psse_transf2('C13'), F.WIT_TRANSF, F.replay_transf)]
    # the table handed to the xlsx / json writers (cache.df_in): input-base values, converters applied to those
    from contracts import fn_pu
    items += [(fn_pu.as_dict('C13'),), (fn_pu.as_dict('C13', converter=True),), (fn_pu.as_df('C13'), None, fn_pu.replay_as_df_after_reset)]
    items += [(F.writer_refreshes('C13', 'xlsx'), None, F.replay_altered_dump), (F.writer_refreshes('C13', 'json'), None, F.replay_altered_dump)]
    run_contracts(pack, items)
    # F14: outside the proved precondition; confirmed natively on every run while it is listed
    name = 'C13/andes/io/matpower.py:system2mpc/requires:at-most-one-PQ-and-one-Shunt-per-bus'
    known = pack.known_for(name)
    r = native_guard(pack, name, lambda: F.replay_system2mpc('load-on-that-bus', {}, {}))
    if r is not None:
        pack.extra['F14_native'] = r
        if r.get('confirmed') and known:
            for k in known:
                pack.known_finding(k)
        elif r.get('confirmed'):
            pack.violation(name, {'native': r})
    F.bounded_file_roundtrip(pack, 'C13')
    mname = 'C13/andes/io/matpower.py:system2mpc;mpc2system/bounded:export-and-re-import-reproduce-the-branch-data-and-the-power-flow'
    r = native_guard(pack, mname, F.replay_mpc_roundtrip)
    if r is not None:
        pack.bounded.append({'function': 'system2mpc / mpc2system (round trip)', 'cases': r.get('tried', 0), 'counted_as_proved': False,
                             'kind': 'bounded native: static part of ieee14.json, with and without the optional Line.trans column'})
        if r.get('confirmed'):
            pack.violation(mname, {'bounded': True, 'inputs': r.get('inputs'), 'observed': r.get('observed'), 'native_cmd': r.get('native_cmd')})
    from contracts import bounded_raw_crosscheck as BRX
    name = 'C13/andes/io/psse.py:read;_parse_*_v33/bounded:raw-file-and-xlsx-file-of-the-same-stock-case-give-the-same-input-parameters'
    r = native_guard(pack, name, BRX.run)
    if r is not None:
        nr, badr = r
        pack.bounded.append({'function': 'andes.io.psse (tokeniser and record functions) against andes.io.xlsx on the same cases', 'columns_compared': nr,
                             'kind': 'bounded native: %s' % ', '.join(a for a, _ in BRX.PAIRS), 'counted_as_proved': False})
        if badr:
            pack.violation(name, {'bounded': True, 'inputs': badr, 'native_cmd': 'contracts/bounded_raw_crosscheck.py'})
    # the dynamic-data (DYR) half of a PSS/E pair: the import table, and pairs read back against the text of the files
    from contracts import bounded_dyr as BD
    BD.table_obligations(pack, 'C13')
    for fn, label, kind in ((BD.run, 'every-machine-carries-the-status-of-the-static-generator-it-replaces(=STAT-of-the-RAW-record)',
                             'bounded native: ieee14.raw + ieee14.dyr, each machine in turn out of service in the RAW text'),
                            (BD.run_records, 'every-record-position-reaches-the-destination-parameter-the-table-names',
                             'bounded native: generated REGCA1 / REECA1 / WTDTA1 / WTARA1 / WTPTA1 / WTTQA1 records with a distinct value per position')):
        dname = 'C13/andes/io/psse.py:read_add/bounded:' + label
        r = native_guard(pack, dname, fn)
        if r is not None:
            nd, badd = r
            pack.bounded.append({'function': 'andes.io.psse.read_add driven by psse-dyr.yaml (end to end)', 'checks': nd, 'kind': kind, 'counted_as_proved': False})
            if badd:
                pack.violation(dname, {'bounded': True, 'inputs': badd, 'native_cmd': 'contracts/bounded_dyr.py'})
    return pack.finish()
