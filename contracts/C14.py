"""
C14 -- resumed simulations (narrow): hand-over lemma between consecutive TDS.run calls, init_resume frame.
Not decided (not reachable by per-call contracts): trajectory equality, dill snapshots, view-array repair, reset.
"""
import z3

from contracts import fn_tds as T
from contracts.packutil import run_contracts, COMMON_ASSUME
from pyvc.report import Pack
from pyvc.smt import prove


def run(tier, seed):
    pack = Pack('C14', tier, seed)
    pack.assume(*COMMON_ASSUME)
    pack.assume('narrow claim: events are neither lost nor repeated across a resume boundary and the time axis has no '
                'duplicate stamp, via (i) TDS.run leaves the event/step-size invariant on success, (ii) init_resume writes '
                'only the step-size state and the time, (iii) the resumed run() requires exactly that invariant',
                'not decided: trajectory equality with the uninterrupted run; dill itself (dill.load(dill.dump(x)) == x is assumed; save_ss / load_ss '
                'are under contract for what they hand to / take from dill, and the pair is replayed natively when a snapshot contract fails or is '
                'undecided); System.reset reproducibility is a bounded native check')
    items = [(T.init_resume('C14'),), (T.calc_h('C14', resume_value=True), None, T.replay_calc_h), (T.run('C14', drop=('success=>initialisation-test-not-failed',)),)]
    from contracts import fn_resume as RS
    from contracts import fn_sequence as Q
    items += [(Q.system_reset('C14'), None, Q.replay_reset_inputs), (Q.p_restore('C14'), None, Q.replay_reset_inputs), (Q.delegation('C14', 'e_clear', 'e_clear'),)]
    items += [(RS.dae_reset('C14'),), (RS.dae_resize_arrays('C14'), None, RS.replay_resize_arrays), (RS.dae_init_t('C14'),), (RS.fix_view_arrays('C14'), None, RS.replay_snapshot),
              (__import__('contracts.fn_address', fromlist=['x']).set_arrays_inplace('C14'),),
              (RS.save_ss_c('C14'), None, RS.replay_snapshot), (RS.load_ss_c('C14'), None, RS.replay_snapshot)]
    # a restored system computes with the restored arrays: every per-call argument list is rebuilt from the name table (also the
    # lists of the variable services, which are evaluated in every iteration), whatever state the model's flags are in
    from contracts import C02_binding as B2
    items += [(B2.refresh_inputs_arg('C14'), None, B2.replay_inputs_arg)]
    # the setup inside reset() rebuilds the bus-status bookkeeping from scratch, so the devices of an out-of-service bus go off again
    from contracts import fn_connman as GC
    items += [(GC.conn_init('C14'), None, GC.replay_conn_init)]
    run_contracts(pack, items)
    RS.bounded_reset(pack, 'C14')
    from contracts.packutil import native_guard
    sname = 'C14/andes/utils/snapshot.py:save_ss;load_ss/bounded:snapshot-away-from-events-holds-the-saved-values-and-continues-like-the-saved-system'
    r = native_guard(pack, sname, RS.replay_snapshot)
    if r is not None:
        pack.bounded.append({'function': 'save_ss / load_ss / TDS.run (end to end)', 'kind': 'bounded native: kundur_full, snapshots at t = 2.3 and 0.5, continued 0.7 s',
                             'cases': r.get('tried', 0), 'counted_as_proved': False})
        if r.get('confirmed'):
            pack.violation(sname, {'bounded': True, 'inputs': r.get('inputs'), 'observed': r.get('observed'), 'native_cmd': r.get('native_cmd')})
    from contracts import bounded_resume as BR
    name = 'C14/andes/routines/tds.py:TDS.run(resumed)/bounded:interrupted-and-resumed-run-equals-the-uninterrupted-run'
    r = native_guard(pack, name, BR.run)
    if r is not None:
        n, bad = r
        pack.bounded.append({'function': 'TDS.run resumed (end to end)', 'kind': 'bounded native: kundur_full, splits %r' % BR.SPLITS,
                             'cases': n, 'counted_as_proved': False})
        if bad:
            pack.violation(name, {'bounded': True, 'inputs': bad, 'native_cmd': 'contracts/bounded_resume.py'})
    # hand-over lemma: ensures(run_1) /\ tf_2 >= tf_1 >= 0  ==>  requires(run_2)['resume-state'] and the resume branch
    t, tf1, tf2 = z3.Reals('t tf1 tf2')
    inv = z3.Bool('event_inv_and_step_size_inv')       # the same predicate instance: state is untouched between the calls
    hyps = [inv, t == tf1, tf1 >= 0, tf2 >= tf1]
    goal = z3.And(t >= 0, z3.Implies(t >= 0, z3.And(inv, t <= tf2)))
    r = prove('C14/andes/routines/tds.py:TDS.run;TDS.run/lemma:post(run_1)=>pre(run_2)-on-the-resume-branch', hyps, goal,
              keep_smt2=True)
    pack.add(r)
    if r.verdict != 'proved':
        pack.violation(r.name, {'solver': r.backend, 'model': r.model}, no_input=True)
    return pack.finish()
