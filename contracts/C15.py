"""
C15 -- stored and exported results are the simulated values, complete and labelled (partial).
Functions under contract: DAE.store (both selection modes), DAETimeSeries.unpack_np, DAE.write_npz (append protocol over a
ghost file), DAE.write_lst, Output.in1d / to_output_addr, storage arm of TDS.run (thinning).
"""
from contracts import fn_output as O
from contracts import fn_tds as T
from contracts.packutil import run_contracts, COMMON_ASSUME
from pyvc.report import Pack


def run(tier, seed):
    pack = Pack('C15', tier, seed)
    pack.trust('np.array(a) and a[int_array] return fresh arrays with equal / gathered contents (copy semantics)',
               'np.savez_compressed(file, data=X) makes the file hold X; np.load(file)["data"] returns it; np.vstack concatenates '
               'rows; np.isin / np.where have their textbook definitions; str.format is a function of its arguments',
               'rows of txyz are modelled as a z3 sequence of opaque rows (slice = SubSeq, vstack = Concat)')
    pack.assume(*COMMON_ASSUME)
    pack.assume('time stamps handed to DAE.store are new (strictly increasing time axis: C06 run-loop invariant)',
                'not decided by proof: the npz / csv encoders, TDSData loaders, from_csv replay, get_data and the pandas data frames (bounded native stand-ins only)')
    items = [(O.dae_store('C15', False), None, O.replay_dae_store), (O.dae_store('C15', True), None, O.replay_dae_store), (O.unpack_np('C15'),), (O.write_npz('C15'), None, O.replay_write_npz), (O.export_csv('C15'), None, O.replay_export_csv),
             (O.write_lst('C15'),), (O.to_output_addr('C15'), None, O.replay_to_output_addr), (O.set_output_subidx_tail('C15'), None, O.replay_output_selection)] + [(c,) for c in O.in1d('C15')] + \
            [(T.run('C15', drop=('success=>initialisation-test-not-failed',)), None, O.replay_thinning)]
    run_contracts(pack, items)
    O.bounded_loader_roundtrip(pack, 'C15')
    from contracts.packutil import native_guard
    tname = 'C15/andes/routines/tds.py:TDS.run/bounded:thinned-storage-keeps-rows-of-accepted-steps-only,also-when-the-run-stops-early'
    r = native_guard(pack, tname, O.replay_thinning)
    if r is not None:
        pack.bounded.append({'function': 'TDS.run with save_every = 2, 3, 5 (end to end)', 'runs': r.get('tried', 0), 'counted_as_proved': False,
                             'kind': 'bounded native: kundur_full, one run stopped by the angle criterion and one plain run, against storage at every step'})
        if r.get('confirmed'):
            pack.violation(tname, {'bounded': True, 'inputs': r.get('inputs'), 'observed': r.get('observed'), 'native_cmd': r.get('native_cmd')})
    from contracts import bounded_getdata as BG
    name = 'C15/andes/variables/dae.py:DAETimeSeries.get_data;unpack_df/bounded:accessors-return-the-stored-columns-under-the-right-names'
    r = native_guard(pack, name, BG.run)
    if r is not None:
        n, bad = r
        pack.bounded.append({'function': 'DAETimeSeries.get_data / _access_array / unpack_df (after real runs, with and without an Output selection)',
                             'checks': n, 'counted_as_proved': False, 'kind': 'bounded native: kundur_full, tf = 0.6 s'})
        if bad:
            pack.violation(name, {'bounded': True, 'inputs': bad, 'native_cmd': 'contracts/bounded_getdata.py'})
    return pack.finish()
