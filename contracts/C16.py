"""
C16 -- results do not depend on solver back-end, acceleration options or repetition (partial).
Functions under contract: SuiteSparseSolver.solve, KLUSolver/UMFPACKSolver.linsolve, SpSolve.solve, spmatrix_to_csc,
Solver.solve / linsolve -- against assumed kvxopt / SciPy contracts.  Cross-back-end numeric agreement and bit-identity
are not decided.
"""
from contracts import fn_solver as S
from contracts.packutil import run_contracts, COMMON_ASSUME
from pyvc.report import Pack


def run(tier, seed, pid='C16', pack=None):
    own = pack is None
    pack = pack or Pack(pid, tier, seed)
    pack.trust('kvxopt umfpack/klu: symbolic(A) depends only on the pattern of A; numeric(A, F) raises ValueError when F was '
               'built for another pattern and ArithmeticError when A is singular; solve(A, F, N, b) overwrites b with A^-1 b; '
               'linsolve(A, b) overwrites b with A^-1 b or raises ArithmeticError',
               'scipy.sparse.linalg.splu(A).solve(b) returns A^-1 b; A.CCS = (colptr, rowind, values) is compressed-column '
               'storage; csc_matrix((data, indices, indptr), shape) builds the matrix with that storage')
    pack.assume(*COMMON_ASSUME)
    pack.assume('matrices, vectors and factors are uninterpreted sorts; "A^-1 b" is an uninterpreted function (ring-level '
                'reasoning only)', 'numeric agreement across back ends: bounded native stand-in on one stock case only; not decided: bit-identical reruns, numba')
    items = [(S.suitesparse_solve(pid, 'umfpack'), None, S.replay_solvers), (S.suitesparse_solve(pid, 'klu'), None, S.replay_solvers), (S.suitesparse_linsolve(pid, 'KLUSolver', 'klu'),),
             (S.suitesparse_linsolve(pid, 'UMFPACKSolver', 'umfpack'),), (S.spsolve_solve(pid), None, S.replay_solvers), (S.refresh_symbolic(pid),), (S.spmatrix_to_csc(pid),),
             (S.solver_dispatch(pid, 'solve'), None, S.replay_dispatch), (S.solver_dispatch(pid, 'linsolve'), None, S.replay_dispatch)]
    items += [(c, None, S.replay_solvers) for c in S.wrappers(pid)]
    run_contracts(pack, items)
    # the two accumulation modes of the island patch of gy leave the same diagonal (in place: ipset; rebuild: gy + spmatrix)
    from contracts import C03_assembly as A3
    run_contracts(pack, [(A3.j_islands(pid), None, A3.replay_j_islands), (A3.j_islands_rebuild(pid), None, A3.replay_j_islands)])
    if own:
        # the Newton step hands the assembled matrix and residual to the selected back end and uses what it returns
        from contracts import fn_pflow as P
        run_contracts(pack, [(P.nr_step(pid), None, P.replay_nr_step)])
        # the time-domain Newton loop asks the back end for a fresh factorisation whenever it re-evaluated the Jacobian (SciPy's splu is
        # renewed only on request); the tolerance clause of the same contract belongs to C04 / C17 and is dropped here
        from contracts import fn_tds as T
        run_contracts(pack, [(T.step(pid, drop=('success=>last-correction-within-tol-and-not-NaN',)),)])
    if own:
        from contracts.packutil import native_guard
        from contracts import bounded_backends as BB
        name = 'C16/andes/linsolvers:Solver/bounded:power-flow,trajectory,eigenvalues-agree-across-back-ends-and-accumulation-modes'
        r = native_guard(pack, name, BB.run)
        if r is not None:
            n, bad = r
            pack.bounded.append({'function': 'PFlow / TDS / EIG with klu, umfpack, spsolve; ipadd 0/1; linsolve 0/1 (end to end)',
                                 'kind': 'bounded native: kundur_full', 'cases': n, 'counted_as_proved': False})
            if bad:
                pack.violation(name, {'bounded': True, 'inputs': bad, 'native_cmd': 'contracts/bounded_backends.py'})
        from contracts import bounded_hashseed as BH
        hname = 'C16/andes/system.py:System/bounded:fresh-processes-with-different-string-hash-seeds-give-bit-identical-solutions'
        r = native_guard(pack, hname, BH.run)
        if r is not None:
            n, bad = r
            pack.bounded.append({'function': 'PFlow.run (ieee14) and TDS.run (kundur_full, 0.5 s) in fresh interpreter processes', 'processes': n,
                                 'kind': 'bounded native: PYTHONHASHSEED = 0, 1, 2, 4; raw bytes of the solution vectors compared', 'counted_as_proved': False})
            if bad:
                pack.violation(hname, {'bounded': True, 'inputs': bad, 'native_cmd': 'contracts/bounded_hashseed.py'})
        return pack.finish()
