"""
C17 -- failure is reported as failure.
Functions under contract: PFlow.nr_step / nr_solve / run; ImplicitIter.step; TDS.run; (EIG, main, solvers: C17_more).
"""
from contracts import fn_pflow as P
from contracts import fn_tds as T
from contracts.packutil import run_contracts, COMMON_ASSUME
from pyvc.report import Pack


def run(tier, seed):
    pack = Pack('C17', tier, seed)
    pack.trust('PFlow.fg_update writes only dae.f and dae.g; System.j_update only the Jacobian blocks; PFlow.init leaves '
               'converged False, mis == [1], niter == 0, x_sol/y_sol None (assumed callee contract, read off its body)')
    pack.assume(*COMMON_ASSUME)
    pack.assume('"every infeasible input" is covered through path conditions: on every path that does not pass the '
                'routine\'s residual test the flag is False and the exit code non-zero',
                'A-newton: the residual is tested before the last Newton update is applied (stated, not decided)')
    items = [(P.nr_step('C17'), None, P.replay_nr_step), (P.nr_solve('C17'),), (P.run('C17'), None, P.replay_run),
             (T.step('C17'), T.WIT_F9, T.replay_step), (T.run('C17'), T.WIT_F18, T.replay_run)]
    # unparsable input: the status of reading the base case AND the additional file is what the loader reports
    from contracts import fn_main as FM
    items += [(FM.io_parse('C17'), None, FM.replay_io_parse)]
    run_contracts(pack, items)
    from contracts import C17_more
    C17_more.add_obligations(pack, tier)
    return pack.finish()
