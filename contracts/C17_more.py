def add_obligations(pack, tier):
    from contracts import C16
    from contracts import fn_eig as E
    from contracts.packutil import run_contracts
    C16.run(tier, 0, pid='C17', pack=pack)
    run_contracts(pack, [(E.pre_check('C17'), E.WIT_F16, E.replay_pre_check), (E.eig_run('C17'),)])
    from contracts import fn_criteria as K
    run_contracts(pack, [(K.deltadelta('C17'), None, K.replay_deltadelta)])
    K.bounded_types(pack, 'C17')
    from contracts import fn_main as MN
    run_contracts(pack, MN.items('C17'))
    # a failed setup never opens the gate that lets routines run (andes.main.run_case tests System.is_setup)
    from contracts import fn_sequence as Q
    run_contracts(pack, [(Q.system_setup('C17'), None, Q.replay_failures)])
    from contracts.packutil import native_guard
    from contracts import bounded_failure as BFL
    fname = 'C17/andes/routines:PFlow.run;TDS.run;EIG.run/bounded:infeasible-or-inconsistent-inputs-are-reported-as-failures'
    r = native_guard(pack, fname, BFL.run)
    if r is not None:
        nf, badf = r
        pack.bounded.append({'function': 'PFlow.run / TDS.run / EIG.run (end to end, failing inputs)', 'kind': 'bounded native: kundur_full, 5 scenarios',
                             'cases': nf, 'counted_as_proved': False})
        if badf:
            pack.violation(fname, {'bounded': True, 'inputs': badf, 'native_cmd': 'contracts/bounded_failure.py'})
