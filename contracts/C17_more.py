def add_obligations(pack, tier):
    from contracts import C16
    C16.run(tier, 0, pid='C17', pack=pack)
