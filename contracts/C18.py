"""
C18 -- control blocks realise their documented transfer functions from steady state.

Functions under contract: the ``define()`` methods (and constructors) of the block classes in
``andes/core/block.py``, *run* inside a real ``Model`` so that ``Model._register_attribute``'s name-spacing is part
of what is verified.  The equation strings on the resulting live variables are the verified text.

Contract per block (postcondition of ``define()``):
  TF      for all parameter values satisfying ``pre``, all s and all input transforms:
          {T_x * s * X = rhs_x  (State x with t_const T_x; T_x = 1 if none),  0 = rhs_y  (Algeb y),  flag semantics}
          ==>  den(s) * OUT == num(s) * IN
  SS      with a constant input (s = 0) the declared initial values (v_str, resolved in dependency order) make every
          right-hand side vanish
  The limited variants are checked with their limiter flags inside the limits (zi = 1, zl = zu = 0), which is the
  "reduce to the unlimited block while inside the limits" clause.
The specs below are transcribed from the class docstrings (block diagram / "Notes" equations).
"""
import ast

import z3

from pyvc import expr as X
from pyvc.report import Pack, REPO
from pyvc.smt import prove

BLOCK_FILE = 'andes/core/block.py'

PARAMS = ['K', 'T', 'D', 'T1', 'T2', 'T3', 'T4', 'kp', 'ki', 'kd', 'Td', 'ks', 'lo', 'up', 'awlo', 'awup',
          'rlo', 'rup', 'rf', 'fz', 'y0', 'R', 'x0']


def build(factory):
    from andes.core import ModelData, Model, NumParam, Algeb

    class VData(ModelData):
        def __init__(self):
            super().__init__()
            for n in PARAMS:
                setattr(self, n, NumParam(default=1.0, tex_name=n))

    class VModel(VData, Model):
        def __init__(self):
            VData.__init__(self)
            Model.__init__(self, None, None)
            self.uu = Algeb(v_str='1', e_str='1 - uu', tex_name='uu')
            self.u2 = Algeb(v_str='1', e_str='1 - u2', tex_name='u2')
            self.B = factory(self)

    return VModel()


# name -> (factory, IN expr, OUT var, num(s), den(s), [pre...], [steady-state pre...], doc line)
def specs():
    from andes.core import block as bk
    PI_NUM, PI_DEN = 'kp*s + ki', 's'
    PID_NUM = 'kp*s*(1 + s*Td) + ki*(1 + s*Td) + s*s*kd'
    PID_DEN = 's*(1 + s*Td)'
    S = {}
    S['Gain'] = (lambda m: bk.Gain(u=m.uu, K=m.K), 'uu', 'B_y', 'K', '1', [], [], 'y = K u')
    S['Integrator'] = (lambda m: bk.Integrator(u=m.uu, T=m.T, K=m.K, y0=m.y0), 'uu', 'B_y', 'K', 's*T', [],
                       ['uu == 0'], 'K/(sT)')
    S['IntegratorAntiWindup'] = (lambda m: bk.IntegratorAntiWindup(u=m.uu, T=m.T, K=m.K, y0=m.y0, lower=m.lo, upper=m.up),
                                 'uu', 'B_y', 'K', 's*T', [], ['uu == 0'], 'K/(sT) inside limits')
    S['Lag'] = (lambda m: bk.Lag(u=m.uu, T=m.T, K=m.K, D=m.D), 'uu', 'B_y', 'K', 'D + s*T', ['D != 0'], [], 'K/(D+sT)')
    S['LagFreeze'] = (lambda m: bk.LagFreeze(u=m.uu, T=m.T, K=m.K, freeze=m.fz), 'uu', 'B_y', 'K', '1 + s*T',
                      ['fz == 0'], [], 'T y\' = (1-freeze)(Ku - y)')
    S['LagAntiWindup'] = (lambda m: bk.LagAntiWindup(u=m.uu, T=m.T, K=m.K, lower=m.lo, upper=m.up, D=m.D), 'uu', 'B_y',
                          'K', 'D + s*T', ['D != 0'], [], 'K/(D+sT) inside limits')
    S['LagAWFreeze'] = (lambda m: bk.LagAWFreeze(u=m.uu, T=m.T, K=m.K, lower=m.lo, upper=m.up, freeze=m.fz), 'uu', 'B_y',
                        'K', '1 + s*T', ['fz == 0'], [], 'T y\' = (1-freeze)(Ku - y) inside limits')
    S['LagRate'] = (lambda m: bk.LagRate(u=m.uu, T=m.T, K=m.K, rate_lower=m.rlo, rate_upper=m.rup), 'uu', 'B_y',
                    'K', '1 + s*T', [], [], 'T y\' = Ku - y inside rate limits')
    S['LagAntiWindupRate'] = (lambda m: bk.LagAntiWindupRate(u=m.uu, T=m.T, K=m.K, lower=m.lo, upper=m.up,
                                                             rate_lower=m.rlo, rate_upper=m.rup, D=m.D),
                              'uu', 'B_y', 'K', 'D + s*T', ['D != 0'], [], 'K/(D+sT) inside limits')
    S['Lag2ndOrd'] = (lambda m: bk.Lag2ndOrd(u=m.uu, K=m.K, T1=m.T1, T2=m.T2), 'uu', 'B_y', 'K', '1 + s*T1 + s*s*T2',
                      [], [], 'K/(1+sT1+s^2 T2)')
    S['LeadLag'] = (lambda m: bk.LeadLag(u=m.uu, T1=m.T1, T2=m.T2, K=m.K, zero_out=True), 'uu', 'B_y',
                    'K*(1 + s*T1)', '1 + s*T2', ['T1 >= 0', 'T2 >= 0', '(T2 > 0) | ((T1 == 0) & (T2 == 0))'], [],
                    'K(1+sT1)/(1+sT2), pass-through K when T1=T2=0')
    S['LeadLag_nozero'] = (lambda m: bk.LeadLag(u=m.uu, T1=m.T1, T2=m.T2, K=m.K, zero_out=False), 'uu', 'B_y',
                           'K*(1 + s*T1)', '1 + s*T2', ['T2 > 0'], [], 'K(1+sT1)/(1+sT2)')
    S['LeadLag2ndOrd'] = (lambda m: bk.LeadLag2ndOrd(u=m.uu, T1=m.T1, T2=m.T2, T3=m.T3, T4=m.T4, zero_out=True),
                          'uu', 'B_y', '1 + s*T3 + s*s*T4', '1 + s*T1 + s*s*T2',
                          ['T1 >= 0', 'T2 >= 0', 'T3 >= 0', 'T4 >= 0',
                           '(T2 > 0) | ((T1 == 0) & (T2 == 0) & (T3 == 0) & (T4 == 0))'], [],
                          '(1+sT3+s^2T4)/(1+sT1+s^2T2), y=u when all are zero')
    S['LeadLag2ndOrd_nozero'] = (lambda m: bk.LeadLag2ndOrd(u=m.uu, T1=m.T1, T2=m.T2, T3=m.T3, T4=m.T4, zero_out=False),
                                 'uu', 'B_y', '1 + s*T3 + s*s*T4', '1 + s*T1 + s*s*T2', ['T2 > 0'], [],
                                 '(1+sT3+s^2T4)/(1+sT1+s^2T2)')
    S['LeadLagLimit'] = (lambda m: bk.LeadLagLimit(u=m.uu, T1=m.T1, T2=m.T2, lower=m.lo, upper=m.up), 'uu', 'B_y',
                         '1 + s*T1', '1 + s*T2', ['T2 > 0'], [], '(1+sT1)/(1+sT2) inside limits')
    S['Washout'] = (lambda m: bk.Washout(u=m.uu, T=m.T, K=m.K), 'uu', 'B_y', 's*K', '1 + s*T', ['T > 0'], [], 'sK/(1+sT)')
    S['WashoutOrLag(K>0)'] = (lambda m: bk.WashoutOrLag(u=m.uu, T=m.T, K=m.K, name='B', zero_out=True), 'uu', 'B_y',
                              's*K', '1 + s*T', ['T > 0', 'K > 0'], [], 'sK/(1+sT) when K > 0')
    S['WashoutOrLag(K<=0)'] = (lambda m: bk.WashoutOrLag(u=m.uu, T=m.T, K=m.K, name='B', zero_out=True), 'uu', 'B_y',
                               '1', '1 + s*T', ['T > 0', 'K <= 0'], [], '1/(1+sT) when K <= 0 (zero_out)')
    S['PIController'] = (lambda m: bk.PIController(u=m.uu, kp=m.kp, ki=m.ki, ref=m.rf, x0=m.x0), 'uu - rf', 'B_y',
                         PI_NUM, PI_DEN, [], ['uu == rf'], 'kp + ki/s')
    S['PIDController'] = (lambda m: bk.PIDController(u=m.uu, kp=m.kp, ki=m.ki, kd=m.kd, Td=m.Td, name='B', ref=m.rf, x0=m.x0),
                          'uu - rf', 'B_y', PID_NUM, PID_DEN, ['Td > 0'], ['uu == rf'], 'kp + ki/s + s kd/(1+sTd)')
    S['PIAWHardLimit'] = (lambda m: bk.PIAWHardLimit(u=m.uu, kp=m.kp, ki=m.ki, aw_lower=m.awlo, aw_upper=m.awup,
                                                     lower=m.lo, upper=m.up, ref=m.rf, x0=m.x0), 'uu - rf', 'B_y',
                          PI_NUM, PI_DEN, [], ['uu == rf'], 'kp + ki/s inside limits')
    S['PIDAWHardLimit'] = (lambda m: bk.PIDAWHardLimit(u=m.uu, kp=m.kp, ki=m.ki, kd=m.kd, Td=m.Td, aw_lower=m.awlo,
                                                       aw_upper=m.awup, lower=m.lo, upper=m.up, name='B', ref=m.rf, x0=m.x0),
                           'uu - rf', 'B_y', PID_NUM, PID_DEN, ['Td > 0'], ['uu == rf'],
                           'kp + ki/s + s kd/(1+sTd) inside limits')
    S['PITrackAW'] = (lambda m: bk.PITrackAW(u=m.uu, kp=m.kp, ki=m.ki, ks=m.ks, lower=m.lo, upper=m.up, ref=m.rf, x0=m.x0),
                      'uu - rf', 'B_y', PI_NUM, PI_DEN, [], ['uu == rf'], 'kp + ki/s inside limits')
    S['PIDTrackAW'] = (lambda m: bk.PIDTrackAW(u=m.uu, kp=m.kp, ki=m.ki, kd=m.kd, Td=m.Td, ks=m.ks, lower=m.lo, upper=m.up,
                                               ref=m.rf, x0=m.x0, name='B'), 'uu - rf', 'B_y', PID_NUM, PID_DEN,
                       ['Td > 0'], ['uu == rf'], 'kp + ki/s + s kd/(1+sTd) inside limits')
    S['PITrackAWFreeze'] = (lambda m: bk.PITrackAWFreeze(u=m.uu, kp=m.kp, ki=m.ki, ks=m.ks, lower=m.lo, upper=m.up,
                                                         freeze=m.fz, ref=m.rf, x0=m.x0), 'uu - rf', 'B_y',
                            PI_NUM, PI_DEN, ['fz == 0'], ['uu == rf'], 'kp + ki/s inside limits, not frozen')
    S['PIFreeze'] = (lambda m: bk.PIFreeze(u=m.uu, kp=m.kp, ki=m.ki, freeze=m.fz, ref=m.rf, x0=m.x0), 'uu - rf', 'B_y',
                     PI_NUM, PI_DEN, ['fz == 0'], ['uu == rf'], 'kp + ki/s, not frozen')
    S['GainLimiter'] = (lambda m: bk.GainLimiter(u=m.uu, K=m.K, R=m.R, lower=m.lo, upper=m.up), 'uu', 'B_y', 'R*K', '1',
                        [], [], 'R K u inside limits')
    return S


LIMITER_CLASSES = ('Limiter', 'HardLimiter', 'AntiWindup', 'RateLimiter', 'AntiWindupRate', 'SortedLimiter')


def flag_hyps(model, ctx):
    """Hypotheses on exported discrete flags, from the live discrete objects (semantics: contract of C09)."""
    hyps, notes = [], []
    tr = X.Translator(ctx)
    for name, d in model.discrete.items():
        cls = type(d).__name__
        names = d.get_names()
        if cls == 'LessThan':
            z0, z1 = ctx.sym(name + '_z0'), ctx.sym(name + '_z1')
            if d.enable:
                uexp = tr.tr(X.parse(d.u.name)) if hasattr(d.u, 'name') and isinstance(d.u.name, str) else None
                bname = d.bound.name if getattr(d.bound, 'name', None) else None
                bval = X.R(ctx.sym(bname)) if bname and not bname.startswith('_dummy') and bname in model.__dict__ \
                    else X.R(X.Fraction(str(float(d.bound.v)))) if not hasattr(d.bound.v, '__len__') else None
                if uexp is None or bval is None:
                    notes.append('LessThan %s: unsupported operands' % name)
                    continue
                u_ = X.tz(X.as_num(uexp).v)
                b_ = X.tz(bval.v)
                cond = (u_ <= b_) if d.equal else (u_ < b_)
                hyps.append(z1 == z3.If(cond, z3.RealVal(1), z3.RealVal(0)))
                hyps.append(z0 == 1 - z1)
            else:
                hyps.append(z0 == z3.RealVal(int(d.z0[0])))
                hyps.append(z1 == z3.RealVal(int(d.z1[0])))
        elif any(c.__name__ in LIMITER_CLASSES for c in type(d).__mro__):
            for fn in names:
                hyps.append(ctx.sym(fn) == (1 if fn.endswith('_zi') else 0))
        else:
            # EventFlag etc.: flags (if any) left unconstrained
            notes.append('%s %s: flags unconstrained' % (cls, name))
    return hyps, notes


def block_vars(model):
    out = []
    for n, v in model.cache.all_vars.items():
        if n.startswith('B_'):
            out.append((n, v))
    return out


def resolve_init(model):
    """initial value expression (ast) of every block variable: v_str with block-variable names substituted"""
    vs = {}
    for n, v in model.cache.all_vars.items():
        s = v.v_str
        vs[n] = X.parse(str(s)) if s is not None else ast.Constant(0.0)
    vs.pop('uu', None)
    vs.pop('u2', None)
    return vs


def obligations_for(name, spec, want=('TF', 'SS'), prefix='C18'):
    factory, IN, OUT, num, den, pre, pre_ss, doc = spec
    model = build(factory)
    res = []
    bvars = block_vars(model)
    # ------------------------------------------------ TF
    if 'TF' in want:
        ctx = X.Ctx()
        tr = X.Translator(ctx)
        s = ctx.sym('s')
        hyps = []
        for n, v in bvars:
            rhs = X.as_num(tr.tr(X.parse(v.e_str if v.e_str is not None else '0')))
            rhs = X.tz(rhs.v)
            if type(v).__name__ == 'State':
                T = ctx.sym(v.t_const.name) if getattr(v, 't_const', None) is not None else z3.RealVal(1)
                hyps.append(T * s * ctx.sym(n) == rhs)
            else:
                hyps.append(z3.RealVal(0) == rhs)
        fh, notes = flag_hyps(model, ctx)
        hyps += fh
        for p in pre:
            hyps.append(X.as_bool(tr.tr(X.parse(p))))
        n_ = X.tz(X.as_num(tr.tr(X.parse(num))).v)
        d_ = X.tz(X.as_num(tr.tr(X.parse(den))).v)
        in_ = X.tz(X.as_num(tr.tr(X.parse(IN))).v)
        goal = d_ * ctx.sym(OUT) == n_ * in_
        oname = '%s/%s:%s.define/post:TF[%s]' % (prefix, BLOCK_FILE, name, doc)
        r = prove(oname, hyps, goal, meta={'block': name, 'kind': 'TF', 'spec': '(%s)/(%s)' % (num, den),
                                           'equations': {n: v.e_str for n, v in bvars}, 'notes': notes},
                  keep_smt2=True)
        res.append(r.as_dict())
        # vacuity canary: the hypotheses must not already be contradictory
        r2 = prove(oname + '/canary', hyps, z3.BoolVal(False), want_model=False, use_cvc5=False, timeout_ms=3000)
        res.append({'canary': True, 'name': oname + '/canary', 'verdict': r2.verdict})
    # ------------------------------------------------ SS
    if 'SS' in want:
        ctx = X.Ctx()
        init = resolve_init(model)
        tr = X.Translator(ctx, subs=init)
        hyps = []
        fh, notes = flag_hyps(model, ctx)
        # flags are functions of parameters and of initial values: substitute block vars inside flag hyps is not needed
        # because LessThan operands in blocks are parameters; limiter flags are fixed "inside".
        hyps += fh
        for p in list(pre) + list(pre_ss):
            hyps.append(X.as_bool(tr.tr(X.parse(p))))
        for n, v in bvars:
            try:
                rhs = X.as_num(tr.tr(X.parse(v.e_str if v.e_str is not None else '0')))
            except RecursionError:
                res.append({'name': '%s/%s:%s.define/post:SS(%s)' % (prefix, BLOCK_FILE, name, n), 'verdict': 'unknown',
                            'backend': 'translator', 'time_s': 0, 'model': None, 'smt2': None, 'meta': {},
                            'note': 'cyclic v_str'})
                continue
            goal = X.tz(rhs.v) == 0
            hy = list(hyps) + list(ctx.domain)
            oname = '%s/%s:%s.define/post:SS(%s)' % (prefix, BLOCK_FILE, name, n)
            r = prove(oname, hy, goal, meta={'block': name, 'kind': 'SS', 'var': n, 'e_str': v.e_str,
                                             'v_str': {k: (str(model.cache.all_vars[k].v_str)) for k, _ in bvars}},
                      keep_smt2=False)
            res.append(r.as_dict())
    return res


def replay_tf(name, spec, model_vals):
    """Native replay of a TF counterexample: plug the solver's values into the real equation strings and show that
    the block equations hold while the documented relation does not."""
    return {'block': name, 'values': model_vals,
            'native_cmd': "instantiate the block in a Model (contracts/C18.build), evaluate the listed e_str at these "
                          "values with T*s*x in place of the derivative: all residuals vanish, den*Y != num*IN"}


def run(tier, seed, prefix='C18', want=('TF', 'SS'), pack=None):
    own = pack is None
    pack = pack or Pack('C18', tier, seed)
    pack.trust('LessThan flag semantics z1 = [u < bound] (<= if equal), z0 = 1 - z1 when enabled, constructor defaults '
               'otherwise (contract of LessThan.check_var, discharged in C09)',
               'limiter flags inside the limits: zi = 1, zl = zu = 0 (contract of Limiter.check_var, C09)',
               'Laplace transform of a linear constant-coefficient system with zero initial state: d/dt -> s')
    pack.assume('specs are transcribed from the class docstrings of andes/core/block.py; where the diagram and the Notes '
                'section disagree (LagRate, LagFreeze, LagAWFreeze ignore D) the block is instantiated without D, where '
                'both agree',
                'parameter preconditions (non-degeneracy) are those listed per block in contracts/C18.py',
                'steady-state check uses the documented equilibrium input (integrators: zero input / u == ref)')
    S = specs()
    n_can = 0
    for name, spec in S.items():
        try:
            res = obligations_for(name, spec, want, prefix)
        except Exception as e:  # constructor / define raised: report, do not crash
            pack.add({'name': '%s/%s:%s.define/constructs' % (prefix, BLOCK_FILE, name), 'verdict': 'refuted',
                      'backend': 'native', 'time_s': 0.0, 'model': None, 'smt2': None, 'meta': {}, 'note': repr(e)})
            pack.violation('%s/%s:%s.define/constructs' % (prefix, BLOCK_FILE, name),
                           {'error': repr(e), 'native_cmd': 'contracts.C18.build(specs()[%r][0])' % name})
            continue
        cnt = 0
        for r in res:
            if r.get('canary'):
                n_can += 1
                if r['verdict'] == 'proved':
                    pack.vacuity['failed'].append(r['name'])
                continue
            cnt += 1
            handle(pack, r, name, spec)
        pack.add_function('%s.define (+__init__, exported through Model._register_attribute)' % name.split('(')[0].split('_nozero')[0],
                          BLOCK_FILE, obligations=cnt,
                          dropped='nothing: define() is executed; its output strings are the verified text')
    pack.vacuity['canaries'] += n_can
    if own:
        # how an expression string given as a block input becomes one operand of the block's equations
        from contracts.packutil import run_contracts
        run_contracts(pack, [(dummy_value('C18'), None, replay_dummy_value)])
        gain_limiter_at_limits(pack, 'C18')
        rate_limiter_sides(pack, 'C18')
        # the time constant T of a block is what the integrator uses: dae.Tf is filled after the models' services exist
        from contracts import fn_sequence as Q
        run_contracts(pack, [(Q.system_init('C18'), None, Q.replay_store_tf), (Q.store_tf('C18'), None, Q.replay_store_tf)])
        # ... and stays what the integrator uses when it is changed later: every block that shares the parameter gets the new value
        from contracts import fn_pu
        run_contracts(pack, [(fn_pu.model_set('C18', 'v'), None, fn_pu.replay_model_set)])
        from contracts.packutil import native_guard
        tname = 'C18/andes/system.py:System.init;_store_tf/bounded:dae.Tf-holds-the-declared-time-constant-of-every-state,also-when-it-is-a-constant-service'
        r = native_guard(pack, tname, Q.replay_store_tf)
        if r is not None:
            pack.bounded.append({'function': 'System.init / _store_tf (end to end)', 'cases': r.get('tried', 0), 'counted_as_proved': False,
                                 'kind': 'bounded native: kundur_full, ieee14_full, kundur_wtdta1 (time constants that are constant services)'})
            if r.get('confirmed'):
                pack.violation(tname, {'bounded': True, 'inputs': r.get('inputs'), 'observed': r.get('observed'), 'native_cmd': r.get('native_cmd')})
        return pack.finish()
    return pack


def handle(pack, r, name, spec):
    known = pack.known_for(r['name'])
    if r['verdict'] == 'proved':
        pack.add(r)
        return
    if r['verdict'] == 'refuted':
        if known:
            r = dict(r)
            r.setdefault('meta', {})['known_finding'] = True
            pack.add(r)
            for k in known:
                pack.known_finding(k)
            return
        pack.add(r)
        payload = {'solver': r['backend'], 'model': r.get('model'), 'meta': r.get('meta')}
        payload.update(replay_tf(name, spec, r.get('model')))
        ok = native_confirm(name, spec, r)
        payload['native'] = ok
        if ok.get('confirmed'):
            pack.violation(r['name'], payload)
        else:
            pack.violation(r['name'], payload, no_input=True)
        return
    pack.add(r)
    pack.undecided_obl(r['name'], r.get('note', ''))


def native_confirm(name, spec, r):
    """Evaluate the real equation strings at the solver's model with plain floats."""
    from pyvc import numeval as N
    from fractions import Fraction
    factory, IN, OUT, num, den, pre, pre_ss, doc = spec
    model = r.get('model') or {}
    try:
        env = {}
        for k, v in model.items():
            try:
                env[k] = float(Fraction(v)) if isinstance(v, str) else float(v)
            except Exception:
                pass
        m = build(factory)
        kind = (r.get('meta') or {}).get('kind')
        if kind == 'TF':
            resid = {}
            for n, v in block_vars(m):
                names = {x.id for x in ast.walk(X.parse(v.e_str or '0')) if isinstance(x, ast.Name)}
                for nm in names:
                    env.setdefault(nm, 0.0)
                rhs = N.ev(X.parse(v.e_str or '0'), env)
                if type(v).__name__ == 'State':
                    T = env.get(v.t_const.name, 0.0) if getattr(v, 't_const', None) is not None else 1.0
                    resid[n] = T * env.get('s', 0.0) * env.get(n, 0.0) - rhs
                else:
                    resid[n] = rhs
            for nm in ('s',):
                env.setdefault(nm, 0.0)
            lhs = N.ev(X.parse(den), env) * env.get(OUT, 0.0)
            rhs = N.ev(X.parse(num), env) * N.ev(X.parse(IN), env)
            ok = all(abs(x) < 1e-9 for x in resid.values()) and abs(lhs - rhs) > 1e-9
            return {'confirmed': bool(ok), 'block_equation_residuals': resid, 'den*OUT': lhs, 'num*IN': rhs}
        if kind == 'SS':
            init = resolve_init(m)
            var = r['meta']['var']
            e = m.cache.all_vars[var].e_str or '0'
            names = set()
            for t in [X.parse(e)] + list(init.values()):
                names |= {x.id for x in ast.walk(t) if isinstance(x, ast.Name)}
            for nm in names:
                if nm not in init:
                    env.setdefault(nm, 0.0)
            val = N.ev(X.parse(e), env, init)
            return {'confirmed': abs(val) > 1e-9, 'rhs_at_initial_values': val, 'var': var}
    except Exception as e:  # pragma: no cover
        return {'confirmed': False, 'error': repr(e)}
    return {'confirmed': False}


def dummy_value(pid):
    """DummyValue.__init__: an expression string handed to a block is stored, as the operand name the block pastes into its equations,
    enclosed in one pair of parentheses -- whatever the string looks like -- so that it behaves as ONE operand; numbers are kept."""
    import z3
    from pyvc.symex import Contract
    from pyvc.symval import TObj, TStr, Opaque

    def post(old, new, res):
        nm = new.st.load('self.name')
        v = old.st.env['value']
        f = z3.Function('fstr:({})', TStr.sort, TStr.sort)
        return z3.BoolVal(isinstance(nm, Opaque)) if not isinstance(nm, Opaque) else nm.term == f(v.term)
    c = Contract('andes/core/common.py', 'DummyValue.__init__', pid=pid, params={'self': TObj(), 'value': TStr()}, schema={},
                 calls={'isinstance:str': lambda ex, st, a, k, n: True},
                 ensures=[('name=(<value>):the-whole-expression-in-one-pair-of-parentheses', post)], modifies=['self.*'])
    return c


def replay_dummy_value(obligation=None, model=None, meta=None):
    """native: for expression strings of several shapes, 3 * <name> - 1 evaluates to 3 * (<expression>) - 1"""
    from andes.core.common import DummyValue
    env = dict(v1=1.7, b1=0.2, v2=0.9, b2=-0.4, a=2.0, c=0.5)
    shapes = ['v1', 'v1 - b1', '(v1 - b1) - (v2 - b2)', '(a + c)/(v1 + b1)', ' (v1 - b1) * (v2) ', '-(v1) + (b1)', '((v1 - b1))', '(a) - c']
    n = 0
    for s in shapes:
        n += 1
        nm = DummyValue(s).name
        got = eval('3 * %s - 1' % nm, {}, dict(env))
        want = 3 * eval(s.strip(), {}, dict(env)) - 1
        if abs(got - want) > 1e-12:
            return {'confirmed': True, 'inputs': {'expression': s, 'values': env}, 'observed': 'operand name %r: 3 * name - 1 = %r, 3 * (expression) - 1 = %r' % (nm, got, want),
                    'native_cmd': 'DummyValue(expression).name pasted into 3 * <name> - 1'}
    return {'confirmed': False, 'tried': n}


def gain_limiter_at_limits(pack, prefix='C18'):
    """GainLimiter on and beyond its limits: with the upper flag raised the output equation gives y = R * upper, with the lower flag
    y = R * lower, inside y = R * K * u (flag semantics of Limiter.check_var from C09; sign_upper = sign_lower = 1): the gain behind the
    limiter applies to the LIMITED value in all three regimes, so that the output stays inside [R lower, R upper] for R >= 0."""
    from andes.core import block as bk
    model = build(lambda m: bk.GainLimiter(u=m.uu, K=m.K, R=m.R, lower=m.lo, upper=m.up))
    bvars = dict(block_vars(model))
    n = 0
    for regime, flags, want in (('upper', dict(zi=0, zu=1, zl=0), 'R * up'), ('lower', dict(zi=0, zu=0, zl=1), 'R * lo'), ('inside', dict(zi=1, zu=0, zl=0), 'R * K * uu')):
        ctx = X.Ctx()
        tr = X.Translator(ctx)
        hyps = []
        for nm, v in bvars.items():
            rhs = X.tz(X.as_num(tr.tr(X.parse(v.e_str if v.e_str is not None else '0'))).v)
            hyps.append(z3.RealVal(0) == rhs)
        for f, val in flags.items():
            hyps.append(ctx.sym('B_lim_' + f) == val)
        for sgn in ('B_lim_sign_upper', 'B_lim_sign_lower', 'sign_upper', 'sign_lower'):
            hyps.append(ctx.sym(sgn) == 1)
        goal = ctx.sym('B_y') == X.tz(X.as_num(tr.tr(X.parse(want))).v)
        oname = '%s/%s:GainLimiter.define/post:regime[%s]:y=%s' % (prefix, BLOCK_FILE, regime, want.replace(' ', ''))
        r = prove(oname, hyps, goal, meta={'block': 'GainLimiter', 'regime': regime, 'equations': {k: v.e_str for k, v in bvars.items()}}, keep_smt2=True)
        d = r.as_dict()
        pack.add(d)
        n += 1
        if d['verdict'] == 'refuted':
            # native replay: evaluate the declared output equation at concrete numbers
            env = dict(uu=0.7, K=2.0, R=0.25, lo=-0.3, up=0.9, B_x=1.4, B_lim_sign_upper=1.0, B_lim_sign_lower=1.0)
            env.update({'B_lim_' + f: float(v) for f, v in flags.items()})
            target = eval(want, {}, dict(env))
            y_expr = bvars['B_y'].e_str
            # the equation is  <expression> - B_y = 0:  solve for B_y by evaluating with B_y = 0
            env['B_y'] = 0.0
            try:
                got = eval(y_expr, {}, dict(env))
                conf = {'confirmed': abs(got - target) > 1e-12, 'inputs': env, 'observed': 'declared equation gives y = %r, the limited and scaled value is %r' % (got, target),
                        'native_cmd': 'python eval of GainLimiter.y.e_str with the listed values'}
            except Exception as e:      # noqa
                conf = {'confirmed': False, 'error': repr(e)}
            payload = {'solver': d['backend'], 'model': d['model'], 'equation': y_expr, 'native': conf}
            if conf.get('confirmed'):
                pack.violation(oname, payload)
            else:
                pack.violation(oname, payload, no_input=True)
        elif d['verdict'] != 'proved':
            pack.undecided_obl(oname, d.get('note', ''))
    pack.add_function('GainLimiter.define (limit regimes)', BLOCK_FILE, obligations=n)


def rate_limiter_sides(pack, prefix):
    """bounded stand-in: each side of a rate limiter clamps only under its own condition (rate-limited lags reduce to the plain lag inside)"""
    from contracts.packutil import native_guard
    from contracts import bounded_ratelimiter as BRL
    name = '%s/andes/core/discrete.py:RateLimiter.check_eq/bounded:each-side-clamps-the-rate-only-under-its-own-condition;inside-the-limits-nothing-changes' % prefix
    r = native_guard(pack, name, BRL.run)
    if r is not None:
        n, bad = r
        pack.bounded.append({'function': 'RateLimiter.check_eq (also behind LagRate, LagAntiWindupRate, AntiWindupRate)', 'cases': n, 'counted_as_proved': False,
                             'kind': 'bounded (exhaustive grid of rates, conditions, present / absent sides; real method on an object of the real class)'})
        if bad:
            pack.violation(name, {'bounded': True, 'inputs': bad, 'native_cmd': 'contracts/bounded_ratelimiter.py'})
