"""
C19 -- cross-references between devices are resolved completely or rejected.
Functions under contract: GroupBase.add / get_next_idx / idx2uid, Model._one_idx2uid / set_backref, ModelData.add,
IdxParam.add, System.add, DeviceFinder.find_or_add.  Bounded stand-ins (labelled): ModelData.find_idx and
GroupBase.find_idx (exhaustive small registries), System.collect_ref (stock cases).
"""
from contracts import fn_registry as G
from contracts.packutil import run_contracts, COMMON_ASSUME
from pyvc.report import Pack


def run(tier, seed):
    pack = Pack('C19', tier, seed)
    pack.trust('device idx values (ints, floats, strings) are an abstract key sort whose equality is Python dict-key equality',
               'GroupBase._1d_vectorize returns its list argument unchanged for list input',
               'BaseParam.add appends the value (C13)')
    pack.assume(*COMMON_ASSUME)
    pack.assume('registry invariant: uid is a bijection from the registered idx values onto [0, n) with the same domain as '
                '_idx2model (preserved by GroupBase.add; required by the lookups)',
                'DeviceFinder: the lookup relation target -> helper is a ghost map updated by every System.add of the call')
    items = [(G.group_add('C19'),), (G.get_next_idx('C19'),), (G.one_idx2uid('C19'), None, G.replay_model_idx2uid), (G.model_idx2uid('C19'), None, G.replay_model_idx2uid), (G.group_idx2uid('C19'),),
             (G.modeldata_add('C19'),), (G.idxparam_add('C19'), None, G.replay_idxparam_add), (G.system_add('C19'),), (G.find_or_add('C19'), None, G.replay_find_or_add),
             (G.set_backref_model('C19'),), (G.collect_ref_links('C19'), None, G.replay_collect_ref)]
    run_contracts(pack, items)
    bounded(pack, tier)
    return pack.finish()


def bounded(pack, tier, pid='C19'):
    from contracts import bounded_find_idx as BF, bounded_backref as BB
    from contracts.packutil import native_guard
    r = native_guard(pack, '%s/andes/models/group.py:GroupBase.find_idx/bounded:runs' % pid,
                     lambda: BF.run(3 if tier == 'thorough' else 2))
    if r is None:
        return
    n, mism = r
    pack.bounded.append({'function': 'ModelData.find_idx, GroupBase.find_idx', 'kind': 'bounded (exhaustive enumeration, native)',
                         'bound': '<=2 models x <=%d devices, values in {0,1}, <=2 query rows, 1-2 keys, allow_all in {F,T}'
                                  % (3 if tier == 'thorough' else 2),
                         'cases': n, 'mismatches': len(mism), 'counted_as_proved': False})
    for kind, w in mism.items():
        name = '%s/andes/models/group.py:%s/bounded:result-equals-oracle' % (pid, kind.split('(')[0])
        known = pack.known_for(name)
        if known:
            for k in known:
                pack.known_finding(k)
            continue
        pack.violation(name, {'bounded': True, 'inputs': w, 'native_cmd': 'contracts/bounded_find_idx.py'})
    mname = '%s/andes/core/model/modeldata.py:ModelData.find_idx/bounded:mixed-int-and-str-values-are-matched-as-python-objects' % pid
    r = native_guard(pack, mname, BF.run_mixed)
    if r is not None:
        nm, badm = r
        pack.bounded.append({'function': 'ModelData.find_idx, GroupBase.find_idx (mixed int / str registries)', 'cases': nm,
                             'kind': 'bounded (enumeration, native)', 'counted_as_proved': False})
        if badm:
            pack.violation(mname, {'bounded': True, 'inputs': badm, 'native_cmd': 'contracts/bounded_find_idx.py: run_mixed'})
    from contracts import bounded_group_lookup as BL
    r = native_guard(pack, '%s/andes/models/group.py:GroupBase.idx2model/bounded:runs' % pid, BL.run)
    if r is not None:
        n3, bad = r
        pack.bounded.append({'function': 'GroupBase.idx2model, GroupBase.get', 'kind': 'bounded (exhaustive enumeration, native)',
                             'bound': '2 models, 3 devices; queries of length 1-2 over {int idx, str idx, 2 unknown, None}; allow_none in {F,T}',
                             'cases': n3, 'mismatches': len(bad), 'counted_as_proved': False})
        for w in bad[:1]:
            pack.violation('%s/andes/models/group.py:GroupBase.idx2model;get/bounded:known->its-own-model-and-value;None-only-with-allow_none;unknown->KeyError' % pid,
                           {'bounded': True, 'inputs': w, 'native_cmd': 'contracts/bounded_group_lookup.py'})
    from contracts import bounded_dangling as BD
    dname = '%s/andes/system.py:System.setup;ExtParam.link_external/bounded:a-mandatory-reference-to-a-missing-device-is-rejected-by-setup' % pid
    r = native_guard(pack, dname, BD.run)
    if r is not None:
        n4, bad4 = r
        pack.bounded.append({'function': 'System.setup / link_ext_param / ExtParam.link_external / ExtService links (dangling mandatory references)',
                             'kind': 'bounded native: every mandatory IdxParam of every model present in %s pointed at a missing device, one at a time'
                                     % ', '.join(BD.CASES), 'cases': n4, 'mismatches': len(bad4), 'counted_as_proved': False})
        if bad4:
            pack.violation(dname, {'bounded': True, 'inputs': bad4, 'native_cmd': 'contracts/bounded_dangling.py'})
    r = native_guard(pack, '%s/andes/system.py:System.collect_ref/bounded:runs' % pid, BB.run)
    if r is None:
        return
    n2, mism2 = r
    pack.bounded.append({'function': 'System.collect_ref', 'kind': 'bounded (stock cases, native)', 'bound': ', '.join(BB.CASES),
                         'cases': n2, 'mismatches': len(mism2), 'counted_as_proved': False})
    for w in mism2[:1]:
        pack.violation('%s/andes/system.py:System.collect_ref/bounded:backref-lists-are-the-exact-inverse' % pid,
                       {'bounded': True, 'inputs': w, 'native_cmd': 'contracts/bounded_backref.py'})
    from contracts import bounded_registry as BR
    rname = '%s/andes/system.py:System.add;GroupBase.add;get_next_idx;idx2uid/bounded:registries-built-with-explicit,automatic,repeated-and-mixed-indices-stay-bijective' % pid
    r = native_guard(pack, rname, lambda: BR.run(getattr(pack, 'seed', 0) or 0))
    if r is not None:
        n3, bad3 = r
        pack.bounded.append({'function': 'System.add / GroupBase.add / get_next_idx / idx2uid / idx2model (sequences of additions)', 'calls': n3,
                             'kind': 'bounded native: 4 seeded sequences of 30 additions over Bus, PV, Slack with proposals None, 0, "0", 1, "1", 7, names, 2.0',
                             'counted_as_proved': False})
        if bad3:
            pack.violation(rname, {'bounded': True, 'inputs': bad3, 'native_cmd': 'contracts/bounded_registry.py'})
