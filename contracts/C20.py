"""
C20 -- the configuration in effect is the one the user supplied.
Functions under contract: Config._set (str / non-str), _add, check, as_dict; System._update_config_object;
call-order obligations on System.__init__ and BaseRoutine.__init__ (precedence is an ordering of load / add).
"""
from contracts import fn_config as C
from contracts.packutil import run_contracts, COMMON_ASSUME
from pyvc.report import Pack


def run(tier, seed):
    pack = Pack('C20', tier, seed)
    pack.trust('int(s) / float(s) are deterministic partial functions on strings (raise ValueError or return the number); '
               'str.count, str.split (n separators -> n+1 parts), str.strip are deterministic functions',
               'ConfigParser.set / add_section store the given strings; OrderedDict(list of pairs) holds those pairs')
    pack.assume(*COMMON_ASSUME)
    pack.assume('precedence dict > option > file > default follows from: Config._add never overwrites (proved) and the call '
                'order Config(dct=...) -> load(parser with options merged) -> add(defaults) (structural obligations)',
                'save -> load type preservation: every int/float/str value is written by str() and re-read through _set; '
                'int(str(n)) = n, float(str(x)) = x and int(str(x_float)) raising are assumed properties of the builtins',
                'not decided: ConfigParser interpolation (%), whitespace handling, boolean values')
    items = [(C.cfg_set('C20'), None, C.replay_cfg_set), (C.cfg_set_nonstr('C20'),), (C.cfg_add('C20'),), (C.cfg_check('C20'), None, C.replay_cfg_check),
             (C.cfg_as_dict('C20'), C.WIT_F20, C.replay_as_dict), (C.update_config_object('C20'),)] + [(c,) for c in C.cfg_load('C20')] + \
        [(C.get_config_path_c('C20'), None, C.replay_get_config_path)]
    # a run over several cases hands every keyword (config_option, config, config_path, ...) to each case
    from contracts import fn_main as FM
    items += [(FM.run_mp_proc('C20'), None, FM.replay_mp_kwargs)]
    run_contracts(pack, items)
    C.bounded_save_load(pack, 'C20')
    from contracts.packutil import native_guard
    pname = 'C20/andes/system.py;andes/routines:config/bounded:option-and-rc-file-values-are-in-effect-when-loaded-the-way-the-command-line-does(option>file>default)'
    r = native_guard(pack, pname, C.replay_precedence)
    if r is not None:
        pack.bounded.append({'function': 'andes.load with every argparse default present, -O options and an rc file (end to end)', 'scenarios': r.get('tried', 0),
                             'counted_as_proved': False, 'kind': 'bounded native: pjm5bus; TDS.qrt / kqrt / tstep / save_every / tf, PFlow.max_iter, System.freq'})
        if r.get('confirmed'):
            pack.violation(pname, {'bounded': True, 'inputs': r.get('inputs'), 'observed': r.get('observed'), 'native_cmd': r.get('native_cmd')})
    C.call_order(pack, 'C20', 'andes/system.py', 'System.__init__',
                 ['load_config_rc', 'self._update_config_object', 'Config', 'self.config.load', 'self.config.add', 'self.config.check'],
                 'file->options->dict->load->defaults->check')
    C.call_order(pack, 'C20', 'andes/routines/base.py', 'BaseRoutine.__init__', ['Config', 'self.config.load', 'self.config.add'],
                 'load-before-defaults')
    C.call_order(pack, 'C20', 'andes/core/common.py', 'Config.update', ['self._set', 'self.check'], 'set-then-check')
    return pack.finish()
