"""
Bounded stand-in (labelled bounded): on stock cases after set-up, power flow and TDS.init -- every state / algebraic variable of every
device owns exactly one slot, no slot is shared between internal variables, the slot's recorded name is "<variable> <model> <idx>",
every borrowed (external) variable points at the slot of the source variable of the device named by its index field, and the value
seen through the variable is the value stored in the DAE array at its address.
"""
CASES = ['kundur/kundur_full.xlsx', 'mixed:kundur', 'ieee14/ieee14_full.xlsx', 'ieee39/ieee39_full.xlsx']


def run(tier='quick'):
    import contextlib
    import io
    import logging
    import numpy as np
    import andes
    logging.getLogger('andes').setLevel(logging.CRITICAL)
    n = 0
    for case in (CASES if tier == 'thorough' else CASES[:3]):
        with contextlib.redirect_stdout(io.StringIO()), contextlib.redirect_stderr(io.StringIO()):
            ss = andes.load(__import__('contracts.mixed_case', fromlist=['resolve']).resolve(case), default_config=True, no_output=True)
            ss.PFlow.run()
            ss.TDS.init()
        owner = {'x': {}, 'y': {}}
        for mname, m in ss.models.items():
            if m.n == 0:
                continue
            for vname, var in list(m.states.items()) + list(m.algebs.items()):
                code = var.v_code
                names = ss.dae.x_name if code == 'x' else ss.dae.y_name
                arr = ss.dae.x if code == 'x' else ss.dae.y
                if len(var.a) != m.n:
                    return n, {'case': case, 'observed': '%s.%s has %d addresses for %d devices' % (mname, vname, len(var.a), m.n)}
                for k, a in enumerate(var.a):
                    n += 1
                    a = int(a)
                    if a in owner[code]:
                        return n, {'case': case, 'observed': 'slot %s[%d] given to %s.%s #%d and to %s' % (code, a, mname, vname, k, owner[code][a])}
                    owner[code][a] = '%s.%s #%d' % (mname, vname, k)
                    idx = m.idx.v[k]
                    # documented naming rule (_append_model_name): the model name is not repeated when the idx contains it; '_' -> ' '
                    label = idx if isinstance(idx, str) and mname in idx else '%s %s' % (mname, idx)
                    want = '%s %s' % (vname, label.replace('_', ' '))
                    if names[a] != want:
                        return n, {'case': case, 'observed': 'slot %s[%d] is named %r, it belongs to %r' % (code, a, names[a], want)}
                    if var.v[k] != arr[a]:
                        return n, {'case': case, 'observed': '%s reads %r, the DAE array holds %r at its address' % (want, float(var.v[k]), float(arr[a]))}
            for vname, var in list(m.states_ext.items()) + list(m.algebs_ext.items()):
                if var.indexer is None or var.n == 0:
                    continue
                src_holder = ss.__dict__[var.model]
                idxs = var.indexer.v
                flat = [i for sub in idxs for i in sub] if (len(idxs) and isinstance(idxs[0], (list, np.ndarray))) else list(idxs)
                for k, idx in enumerate(flat):
                    if idx is None:
                        continue
                    n += 1
                    want = int(src_holder.get(src=var.src, idx=idx, attr='a'))
                    if int(var.a[k]) != want:
                        return n, {'case': case, 'observed': '%s.%s #%d (-> %s %s) has address %d, the source variable %s has %d' % (
                            mname, vname, k, var.model, idx, int(var.a[k]), var.src, want)}
        for code, size in (('x', ss.dae.n), ('y', ss.dae.m)):
            if sorted(owner[code]) != list(range(size)):
                missing = sorted(set(range(size)) - set(owner[code]))[:5]
                return n, {'case': case, 'observed': '%s slots without an owner: %r' % (code, missing)}
    return n, None
