"""
Bounded stand-in (labelled bounded): power-flow solutions, a short trajectory and the eigenvalues of a stock case agree across the
interchangeable sparse back ends (klu, umfpack; spsolve for power flow and time domain), with in-place and rebuilt accumulation, and
with the one-shot entry point, and with the honest Newton variant through a line trip; a line outage between two power flows on the same System (pattern change) gives the solution of a
fresh System with that outage.
"""


def run():
    import contextlib
    import io
    import logging
    import numpy as np
    import andes
    logging.getLogger('andes').setLevel(logging.CRITICAL)
    case = andes.get_case('kundur/kundur_full.xlsx')
    n = 0

    def go(lib, ipadd=1, linsolve=0, eig=False, honest=0):
        with contextlib.redirect_stdout(io.StringIO()), contextlib.redirect_stderr(io.StringIO()):
            # the solver object of a routine is built from its configuration at construction: pass the choice as options
            opts = ['System.ipadd=%d' % ipadd] + ['%s.sparselib=%s' % (r, lib) for r in ('PFlow', 'TDS', 'EIG')] + \
                ['%s.linsolve=%d' % (r, linsolve) for r in ('PFlow', 'TDS', 'EIG')] + ['TDS.honest=%d' % honest]
            ss = andes.load(case, default_config=True, no_output=True, config_option=opts)
            used = {r.solver.sparselib for r in (ss.PFlow, ss.TDS, ss.EIG)}
            if used != {lib} or ss.config.ipadd != ipadd:
                return False, None, None, None, None
            ok = ss.PFlow.run()
            ypf = ss.dae.y.copy()
            mu = None
            if eig:
                ss.EIG.run()
                mu = np.sort_complex(np.array(ss.EIG.mu))
            ss.TDS.config.tf = 2.2
            ok = ss.TDS.run() and ok
        return ok, ypf, ss.dae.x.copy(), ss.dae.y.copy(), mu
    ref = go('klu', eig=True)
    if not ref[0]:
        return n, {'observed': 'reference run (klu) failed'}
    for lib, ipadd, linsolve, eig in (('umfpack', 1, 0, True), ('spsolve', 1, 0, False), ('klu', 0, 0, False), ('klu', 1, 1, False),
                                      ('umfpack', 0, 1, False)):
        n += 1
        r = go(lib, ipadd, linsolve, eig)
        what = {'sparselib': lib, 'ipadd': ipadd, 'linsolve': linsolve}
        if not r[0]:
            return n, dict(what, observed='run failed')
        d = [float(np.max(np.abs(a - b))) for a, b in zip(r[1:4], ref[1:4])]
        if d[0] > 1e-8 or max(d[1:]) > 1e-5:
            return n, dict(what, observed='differs from klu: power flow %.2e, trajectory end x %.2e, y %.2e' % tuple(d))
        if eig and (r[4].shape != ref[4].shape or np.max(np.abs(r[4] - ref[4])) > 1e-5):
            return n, dict(what, observed='eigenvalues differ from klu by %.2e' % float(np.max(np.abs(r[4] - ref[4]))))
    # the honest Newton variant (Jacobian rebuilt in every iteration) through the line trip at 2 s, on every back end
    ref_h = go('klu', honest=1)
    if not ref_h[0]:
        return n, {'observed': 'honest-Newton reference run (klu) failed'}
    for lib in ('umfpack', 'spsolve'):
        n += 1
        r = go(lib, honest=1)
        what = {'sparselib': lib, 'TDS.honest': 1}
        if not r[0]:
            return n, dict(what, observed='run with the honest Newton method failed (klu completes)')
        d = [float(np.max(np.abs(a - b))) for a, b in zip(r[1:4], ref_h[1:4])]
        if d[0] > 1e-8 or max(d[1:]) > 1e-6:
            return n, dict(what, observed='differs from klu: power flow %.2e, trajectory end x %.2e, y %.2e' % tuple(d))
    # two systems alive in one process, advanced in turns: nothing a solver object keeps between calls may leak from one to the other
    for lib in ('spsolve', 'klu', 'umfpack'):
        n += 1
        opts = ['%s.sparselib=%s' % (r_, lib) for r_ in ('PFlow', 'TDS', 'EIG')]
        with contextlib.redirect_stdout(io.StringIO()), contextlib.redirect_stderr(io.StringIO()):
            alone = andes.load(case, default_config=True, no_output=True, config_option=opts)
            alone.PFlow.run()
            for tf_ in (0.7, 1.3, 2.6):
                alone.TDS.config.tf = tf_
                ok0 = alone.TDS.run()
            a = andes.load(case, default_config=True, no_output=True, config_option=opts)
            b = andes.load(andes.get_case('ieee14/ieee14_full.xlsx'), default_config=True, no_output=True, config_option=opts)
            a.PFlow.run()
            b.PFlow.run()
            ok1 = True
            try:
                for tf_ in (0.7, 1.3, 2.6):
                    a.TDS.config.tf = tf_
                    ok1 = a.TDS.run() and ok1
                    b.TDS.config.tf = tf_
                    b.TDS.run()
            except Exception as e:      # noqa
                return n, {'sparselib': lib, 'observed': 'two systems advanced in turns: %r' % (e,)}
        if not (ok0 and ok1) or np.array(alone.dae.ts.t).shape != np.array(a.dae.ts.t).shape or \
                max(float(np.max(np.abs(alone.dae.x - a.dae.x))), float(np.max(np.abs(alone.dae.y - a.dae.y)))) > 1e-9:
            return n, {'sparselib': lib, 'observed': 'kundur_full advanced in three segments alone and in turns with a second system (ieee14_full): '
                                                       'completed %r / %r, stored steps %d / %d, final states differ by %.3e' % (
                           ok0, ok1, len(alone.dae.ts.t), len(a.dae.ts.t),
                           max(float(np.max(np.abs(alone.dae.x - a.dae.x))), float(np.max(np.abs(alone.dae.y - a.dae.y)))) if alone.dae.x.shape == a.dae.x.shape else float('nan'))}
    # pattern change between two solves on one System
    for lib in ('klu', 'umfpack'):
        n += 1
        with contextlib.redirect_stdout(io.StringIO()), contextlib.redirect_stderr(io.StringIO()):
            a = andes.load(case, default_config=True, no_output=True, config_option=['PFlow.sparselib=%s' % lib])
            a.PFlow.run()
            a.Line.alter('u', a.Line.idx.v[3], 0)
            ok_a = a.PFlow.run()
            b = andes.load(case, default_config=True, no_output=True, config_option=['PFlow.sparselib=%s' % lib])
            b.Line.alter('u', b.Line.idx.v[3], 0)
            ok_b = b.PFlow.run()
        if not (ok_a and ok_b) or np.max(np.abs(a.dae.y - b.dae.y)) > 1e-8:
            return n, {'sparselib': lib, 'observed': 'power flow after a line outage on the same System differs from a fresh System with that outage'}
    return n, None
