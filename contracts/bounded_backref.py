"""
Bounded stand-in (labelled bounded): System.collect_ref on stock cases -- every BackRef list equals the exact inverse of
the IdxParams that point to the device (once per referring parameter).  Bound: the listed stock cases.
collect_ref itself is outside the verified subset (lists of lists built by comprehension over range(model.n)).
"""
CASES = ['ieee14/ieee14_full.xlsx', 'kundur/kundur_full.xlsx', '5bus/pjm5bus.xlsx', 'mixed:kundur']


def run():
    import logging
    import andes
    logging.getLogger('andes').setLevel(logging.CRITICAL)
    n = 0
    mism = []
    for case in CASES:
        ss = andes.load(__import__('contracts.mixed_case', fromlist=['resolve']).resolve(case), default_config=True, no_output=True)
        holders = list(ss.models.values()) + list(ss.groups.values())
        for dest in holders:
            if dest.n == 0:
                continue
            for name, ref in dest.services_ref.items():
                # expected: for every model whose class_name or group equals `name`, every IdxParam with .model == dest
                expected = {idx: [] for idx in dest.uid}
                for m in ss.models.values():
                    if m.n == 0 or name not in (m.class_name, m.group):
                        continue
                    for idxp in m.idx_params.values():
                        targets = (dest.class_name, getattr(dest, 'group', None)) if dest.class_name in ss.models \
                            else (dest.class_name,)
                        if idxp.model not in targets:
                            continue
                        # a reference through the group reaches the model only if the group itself declares `name`
                        if idxp.model != dest.class_name and name not in ss.groups[idxp.model].services_ref:
                            continue
                        for mi, di in zip(m.idx.v, idxp.v):
                            if di in expected:
                                expected[di].append(mi)
                for idx, uid in dest.uid.items():
                    n += 1
                    got = list(ref.v[uid])
                    if sorted(map(str, got)) != sorted(map(str, expected[idx])):
                        mism.append({'case': case, 'holder': dest.class_name, 'backref': name, 'device': idx, 'got': got,
                                     'expected': expected[idx]})
    return n, mism


if __name__ == '__main__':
    print(run())
