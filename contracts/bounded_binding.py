"""
Bounded stand-in (labelled bounded; exhaustive over the shipped library): after a normal start (andes.System() loading the generated
code from disk) every slot of every model's ``calls`` holds the object of the model's OWN generated module that the slot's name calls
for -- f / g / sns / <name>_svc / <name>_ia / <group>_ii / <group>_ij / <jname>_update, the argument tables, triplet tables,
j_names, init_seq and the recorded md5 -- and the md5 recorded with the code equals the md5 of the model as constructed now.
"""


def run():
    import logging
    import andes
    from andes.shared import dilled_vars
    from andes.system import import_pycode
    logging.getLogger('andes').setLevel(logging.CRITICAL)
    ss = andes.System(default_config=True)
    pycode = import_pycode()
    if not pycode:
        return 0, {'observed': 'no generated code could be imported'}
    n = 0
    for name, m in ss.models.items():
        mod = pycode.__dict__.get(name)
        if mod is None:
            return n, {'model': name, 'observed': 'no generated module for this model'}
        d = mod.__dict__
        c = m.calls

        def bad(slot, got, want):
            return {'model': name, 'slot': slot, 'observed': 'holds %r, the generated module provides %r' % (
                getattr(got, '__name__', got), getattr(want, '__name__', want))}
        checks = [('calls.f', c.f, d.get('f_update')), ('calls.g', c.g, d.get('g_update')), ('calls.sns', c.sns, d.get('sns_update')),
                  ('calls.md5', c.md5, d.get('md5'))]
        for item in dilled_vars:
            checks.append(('calls.' + item, c.__dict__.get(item), d.get(item)))
        for inst in m.services.values():
            if inst.v_str is not None and inst.sequential is True:
                checks.append(('calls.s[%s]' % inst.name, c.s.get(inst.name), d.get(inst.name + '_svc')))
        for inst in m.cache.all_vars.values():
            if inst.v_str is not None:
                checks.append(('calls.ia[%s]' % inst.name, c.ia.get(inst.name), d.get(inst.name + '_ia')))
        for item in c.init_seq:
            if isinstance(item, list):
                key = '_'.join(item)
                checks.append(('calls.ii[%s]' % key, c.ii.get(key), d.get(key + '_ii')))
                checks.append(('calls.ij[%s]' % key, c.ij.get(key), d.get(key + '_ij')))
        for jname in c.j_names:
            checks.append(('calls.j[%s]' % jname, c.j.get(jname), d.get(jname + '_update')))
        def same(got, want):
            # the module is imported again here, so objects are compared by content: functions by name and code, tables by value
            if callable(want) or callable(got):
                return (callable(want) and callable(got) and got.__name__ == want.__name__ and got.__code__.co_code == want.__code__.co_code
                        and got.__code__.co_consts == want.__code__.co_consts and got.__code__.co_varnames == want.__code__.co_varnames)
            try:
                return bool(got == want)
            except Exception:      # noqa
                return repr(got) == repr(want)
        for slot, got, want in checks:
            n += 1
            optional = slot in ('calls.f', 'calls.g', 'calls.sns') or slot.startswith('calls.j[')
            if want is None and not optional:
                return n, {'model': name, 'slot': slot, 'observed': 'the generated module does not provide the object this slot calls for'}
            if not same(got, want):
                return n, bad(slot, got, want)
        n += 1
        if m.get_md5() != c.md5:
            return n, {'model': name, 'observed': 'md5 recorded with the loaded code differs from the md5 of the model as constructed now'}
    return n, None
