"""
Bounded stand-in (labelled bounded, never counted as proved) for System.connectivity: the *real* function body is called
unbound on a duck-typed stub system for every small network and compared with a union-find oracle.
Bound (quick): <= 4 buses, <= 3 branches (incl. parallel branches and self-loops), every on/off pattern, slack generators:
none / one / two (enabled or disabled) on every bus combination.  Thorough: <= 5 buses, <= 4 branches.
The Goderya closure works on kvxopt sparse products and is outside the verified subset.
"""
import itertools
import signal
from types import SimpleNamespace as NS

import numpy as np


class _Timeout(Exception):
    pass


def _alarm(signum, frame):
    raise _Timeout()


def make_stub(n, edges, status, slacks):
    """edges: list of (i, j); status: list of 0/1; slacks: list of (bus, u)"""
    class BusNS(NS):
        def idx2uid(self, idx):
            return [int(i) for i in idx]
    bus = BusNS(n=n, idx=NS(v=list(range(n))))
    line = NS(a1=NS(a=np.array([e[0] for e in edges], dtype=int)), a2=NS(a=np.array([e[1] for e in edges], dtype=int)),
              u=NS(v=np.array(status, dtype=float)))
    empty = NS(a1=NS(a=np.array([], dtype=int)), a2=NS(a=np.array([], dtype=int)), u=NS(v=np.array([])))
    fort = NS(a=NS(a=np.array([], dtype=int)), aa=NS(a=np.array([], dtype=int)), ab=NS(a=np.array([], dtype=int)),
              ac=NS(a=np.array([], dtype=int)), u=NS(v=np.array([])))
    slack = NS(bus=NS(v=[s[0] for s in slacks]), u=NS(v=np.array([s[1] for s in slacks], dtype=float)))
    tds = NS(config=NS(criteria=0), initialized=False)
    return NS(Bus=bus, Line=line, Jumper=empty, Fortescue=fort, Slack=slack, TDS=tds, summary=lambda: None)


def oracle(n, edges, status, slacks):
    parent = list(range(n))

    def find(x):
        while parent[x] != x:
            parent[x] = parent[parent[x]]
            x = parent[x]
        return x
    deg = [0] * n
    for (i, j), u in zip(edges, status):
        if u:
            deg[i] += 1
            deg[j] += 1
            parent[find(i)] = find(j)
    comps = {}
    for b in range(n):
        comps.setdefault(find(b), set()).add(b)
    parts = {frozenset(c) for c in comps.values()}
    isolated = {b for b in range(n) if deg[b] == 0}
    return parts, isolated


def cases(max_bus, max_branch):
    for n in range(1, max_bus + 1):
        pairs = [(i, j) for i in range(n) for j in range(i, n)]
        for m in range(0, max_branch + 1):
            for edges in itertools.combinations_with_replacement(pairs, m):
                for status in itertools.product((0, 1), repeat=m):
                    yield n, list(edges), list(status)


def slack_configs(n):
    yield []
    for b in range(n):
        yield [(b, 1)]
        yield [(b, 0)]
    for b1 in range(n):
        for b2 in range(b1, n):
            yield [(b1, 1), (b2, 1)]
            yield [(b1, 1), (b2, 0)]


def run(max_bus=4, max_branch=3, stop_after=3):
    from andes.system import System
    signal.signal(signal.SIGALRM, _alarm)
    n_cases = 0
    found = {}
    for n, edges, status in cases(max_bus, max_branch):
        parts, isolated = oracle(n, edges, status, None)
        for slacks in (slack_configs(n) if len(edges) <= 2 else [[], [(0, 1)], [(0, 1), (n - 1, 1)]]):
            n_cases += 1
            stub = make_stub(n, edges, status, slacks)
            signal.setitimer(signal.ITIMER_REAL, 2.0)
            try:
                System.connectivity(stub, info=False)
                err = None
            except _Timeout:
                err = 'does not terminate (2 s)'
            except Exception as e:   # noqa
                err = repr(e)
            finally:
                signal.setitimer(signal.ITIMER_REAL, 0)
            inputs = {'n_bus': n, 'branches': edges, 'status': status, 'slacks': slacks}
            if err is not None:
                kind = 'raises-or-hangs:all-buses-isolated' if len(isolated) == n else 'raises-or-hangs'
                found.setdefault(kind, dict(inputs, error=err))
                continue
            got_parts = {frozenset(int(b) for b in isl) for isl in stub.Bus.islands}
            if got_parts != parts:
                found.setdefault('islands-are-the-connected-components', dict(inputs, got=sorted(map(sorted, got_parts)),
                                                                            expected=sorted(map(sorted, parts))))
            if set(int(b) for b in stub.Bus.islanded_buses) != isolated:
                found.setdefault('isolated-buses-are-the-degree-zero-nodes', dict(inputs, got=list(stub.Bus.islanded_buses),
                                                                                expected=sorted(isolated)))
            # classification of each island set by the number of enabled slacks inside
            exp_nosw, exp_msw = [], []
            for k, isl in enumerate(stub.Bus.island_sets):
                cnt = sum(1 for b, u in slacks if u == 1 and b in [int(x) for x in isl])
                if cnt == 0:
                    exp_nosw.append(k)
                elif cnt >= 2:
                    exp_msw.append(k)
            if list(stub.Bus.nosw_island) != exp_nosw or list(stub.Bus.msw_island) != exp_msw:
                found.setdefault('islands-classified-by-number-of-enabled-slacks',
                                 dict(inputs, got={'nosw': list(stub.Bus.nosw_island), 'msw': list(stub.Bus.msw_island)},
                                      expected={'nosw': exp_nosw, 'msw': exp_msw}))
    return n_cases, found


if __name__ == '__main__':
    import sys
    import time
    t = time.time()
    n, f = run(int(sys.argv[1]), int(sys.argv[2]))
    print(n, time.time() - t)
    for k, v in f.items():
        print(k, v)
