"""Bounded stand-in (native, labelled; never counted as proved) for C19: every mandatory reference (IdxParam with mandatory=True) of every
model present in the stock Kundur case, pointed at a device that does not exist, must be rejected by System.setup (False or a lookup error) --
for references to a single model and to a group alike."""
import logging

CASES = ('kundur/kundur_full.xlsx',)


def _rejected(ss):
    try:
        ok = ss.setup()
    except (KeyError, IndexError, ValueError, TypeError):
        return True
    return ok is False


def run():
    import andes
    from andes.core.param import IdxParam
    logging.disable(logging.CRITICAL)
    try:
        n, bad = 0, []
        for case in CASES:
            path = andes.get_case(case)
            ss0 = andes.load(path, default_config=True, no_output=True, setup=False)
            targets = []
            for name, mdl in ss0.models.items():
                if mdl.n == 0:
                    continue
                for pname, p in mdl.params.items():
                    if isinstance(p, IdxParam) and p.get_property('mandatory') and p.model is not None and pname != 'idx':
                        targets.append((name, pname, p.model))
            for name, pname, tgt in targets:
                ss = andes.load(path, default_config=True, no_output=True, setup=False)
                ss.__dict__[name].params[pname].v[0] = 'no_such_device_999'
                n += 1
                if not _rejected(ss):
                    bad.append({'case': case, 'model': name, 'param': pname, 'target': tgt, 'value': 'no_such_device_999',
                                'observed': 'System.setup() accepted the dangling reference'})
        return n, bad
    finally:
        logging.disable(logging.NOTSET)


if __name__ == '__main__':
    print(run())
