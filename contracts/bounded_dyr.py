"""
The PSS/E dynamic-data (DYR) import is driven by a table, andes/io/psse-dyr.yaml: per record type the input names, the static devices
to find, the fields to fetch from them (``get``) and the destination parameters (``outputs``).

Two checks (C13: a RAW + DYR pair and its ANDES image describe the same system):

* ``table_obligations``: declaration-level and exhaustive over the table -- an entry that fetches the in-service status ``u`` of the
  static generator a machine replaces hands it to the machine (``outputs.u == 'u'``); every destination parameter named in ``outputs``
  exists on the destination model; every name an output expression reads is an input, a found device or a fetched field.
* ``run`` (bounded, native): the stock ieee14 RAW + DYR pair with each machine in turn out of service in the RAW text: every machine
  built from a DYR record carries the status of the static generator it names, and that is the STAT of the RAW record.
"""
import os
import re


def _table():
    import yaml
    import andes
    path = os.path.join(os.path.dirname(andes.__file__), 'io', 'psse-dyr.yaml')
    with open(path) as f:
        return yaml.safe_load(f), os.path.relpath(path, os.environ.get('VERIF_REPO', '/repo'))


def table_obligations(pack, pid):
    import andes
    import logging
    logging.getLogger('andes').setLevel(logging.CRITICAL)
    table, rel = _table()
    ss = andes.System(default_config=True, no_undill=True)
    n = 0
    for name, e in table.items():
        if not isinstance(e, dict):
            continue
        get, outs, find, inputs = e.get('get') or {}, e.get('outputs') or {}, e.get('find') or {}, e.get('inputs') or []
        dest = e.get('destination', name)
        checks = []
        if 'u' in get:
            src = get['u']
            from_gen = isinstance(src, dict) and any(isinstance(v, dict) and v.get('src') == 'u' for v in src.values())
            checks.append(('status-fetched-from-the-static-device-is-handed-to-the-destination(outputs.u=u)', from_gen and outs.get('u') == 'u',
                           {'get.u': src, 'outputs.u': outs.get('u')}))
        if dest in ss.models:
            params = set(ss.models[dest].params) | set(getattr(ss.models[dest], 'params_ext', {}))
            unknown = sorted(k for k in outs if k not in params)
            checks.append(('every-output-names-a-parameter-of-%s' % dest, not unknown, {'unknown': unknown}))
        known = set(inputs) | set(find) | set(get)
        unbound = []
        for k, expr in outs.items():
            head = str(expr).split(';')[0]
            for tok in re.findall(r'[A-Za-z_]\w*(?:\.[A-Za-z_]\w*)?', head):
                base = tok.split('.')[-1] if tok.split('.')[0] == name else tok
                if base not in known and tok not in known and not re.fullmatch(r'\d+', tok):
                    unbound.append((k, tok))
        checks.append(('every-name-an-output-reads-is-an-input,a-found-device-or-a-fetched-field', not unbound, {'unbound': unbound[:5]}))
        for label, ok, meta in checks:
            nm = '%s/%s:%s/post[%s]' % (pid, rel, name, label)
            n += 1
            pack.add({'name': nm, 'verdict': 'proved' if ok else 'refuted', 'backend': 'structural', 'time_s': 0.0, 'model': None, 'smt2': None,
                      'meta': meta, 'note': ''})
            if not ok:
                pack.violation(nm, {'observed': meta, 'entry': name}, no_input=True)
    pack.add_function('PSS/E DYR import table (per record type: status hand-over, destination parameters, bound names)', rel, obligations=n)
    return n


def _with_stat(raw_text, bus_off):
    out, in_gen, stats = [], False, {}
    for line in raw_text.splitlines():
        if 'Begin Generator data' in line:
            in_gen = True
            out.append(line)
            continue
        if in_gen and line.strip().startswith('0 '):
            in_gen = False
        if in_gen:
            fields = line.split(',')
            if int(fields[0]) == bus_off:
                fields[14] = '0'
                line = ','.join(fields)
            stats[int(fields[0])] = int(fields[14])
        out.append(line)
    return '\n'.join(out) + '\n', stats


def run():
    import contextlib
    import io
    import logging
    import shutil
    import tempfile
    import andes
    logging.getLogger('andes').setLevel(logging.CRITICAL)
    raw_src, dyr_src = andes.get_case('ieee14/ieee14.raw'), andes.get_case('ieee14/ieee14.dyr')
    raw_text = open(raw_src).read()
    _, stats0 = _with_stat(raw_text, None)
    n = 0
    tmp = tempfile.mkdtemp(prefix='verif_dyr_')
    try:
        for bus_off in [None] + sorted(stats0):
            text, stats = _with_stat(raw_text, bus_off)
            raw, dyr = os.path.join(tmp, 'c.raw'), os.path.join(tmp, 'c.dyr')
            open(raw, 'w').write(text)
            shutil.copy(dyr_src, dyr)
            with contextlib.redirect_stdout(io.StringIO()), contextlib.redirect_stderr(io.StringIO()):
                ss = andes.load(raw, addfile=dyr, default_config=True, no_output=True)
            n += 1
            what = {'case': 'ieee14.raw + ieee14.dyr', 'machine set out of service in the RAW text (bus)': bus_off}
            if ss is None:
                return n, dict(what, observed='the pair did not load')
            for gname in ('PV', 'Slack'):
                g = ss.__dict__[gname]
                for idx, bus, u in zip(g.idx.v, g.bus.v, g.u.v):
                    if int(u) != stats[int(bus)]:
                        return n, dict(what, observed='%s %r at bus %r has u = %r, the RAW record says STAT = %r' % (gname, idx, bus, u, stats[int(bus)]))
            for mname in ('GENROU', 'GENCLS', 'GENSAL'):
                m = ss.__dict__.get(mname)
                if m is None or m.n == 0:
                    continue
                for idx, bus, gen, u in zip(m.idx.v, m.bus.v, m.gen.v, m.u.v):
                    su = float(ss.StaticGen.get(src='u', idx=gen, attr='v'))
                    if float(u) != su or int(u) != stats[int(bus)]:
                        return n, dict(what, observed='%s %r at bus %r is built with u = %r; the static generator %r it replaces has u = %r (RAW STAT = %r)' % (
                            mname, idx, bus, float(u), gen, su, stats[int(bus)]))
    finally:
        shutil.rmtree(tmp, ignore_errors=True)
    return n, None


CHAIN = ('REGCA1', 'REECA1', 'WTDTA1', 'WTARA1', 'WTPTA1', 'WTTQA1')


def run_records():
    """bounded, native: a renewable-generator chain (REGCA1, REECA1, WTDTA1, WTARA1, WTPTA1, WTTQA1) written as DYR records with a
    distinct value in every position, added to ieee14.raw at the machine of bus 8 and loaded without setup: every destination parameter
    that the table fills from a record position holds the value at that position (read from the record text, not from the loader)"""
    import contextlib
    import io
    import logging
    import shutil
    import tempfile
    import andes
    logging.getLogger('andes').setLevel(logging.CRITICAL)
    table, _ = _table()
    tmp = tempfile.mkdtemp(prefix='verif_dyr_')
    n = 0
    try:
        raw, dyr = os.path.join(tmp, 'c.raw'), os.path.join(tmp, 'c.dyr')
        shutil.copy(andes.get_case('ieee14/ieee14.raw'), raw)
        text, vals_of = '', {}
        for name in CHAIN:
            ins = table[name]['inputs'][2:]
            vals = [round(0.011 * (k + 1), 4) for k in range(len(ins))]
            vals_of[name] = dict(zip(ins, vals))
            text += "8 '%s' 1 %s /\n" % (name, ' '.join(map(str, vals)))
        open(dyr, 'w').write(text)
        what = {'case': 'ieee14.raw + generated DYR records at bus 8', 'records': list(CHAIN)}
        with contextlib.redirect_stdout(io.StringIO()), contextlib.redirect_stderr(io.StringIO()):
            ss = andes.load(raw, addfile=dyr, default_config=True, no_output=True, setup=False)
        if ss is None:
            return 1, dict(what, observed='the pair did not load')
        for name in CHAIN:
            dest = table[name].get('destination', name)
            m = ss.__dict__[dest]
            if m.n != 1:
                return n, dict(what, observed='%d %s device(s) built from one %s record' % (m.n, dest, name))
            for key, expr in (table[name].get('outputs') or {}).items():
                if expr not in vals_of[name]:
                    continue            # found / fetched / computed fields are covered by the table obligations
                n += 1
                p = m.__dict__.get(key)
                got = None if p is None else p.v[0]
                if p is None or abs(float(got) - vals_of[name][expr]) > 1e-12:
                    return n, dict(what, observed='%s record position %r = %r is to fill %s.%s, which %s' % (
                        name, expr, vals_of[name][expr], dest, key, 'does not exist (the value is dropped)' if p is None else 'holds %r' % (got,)))
    finally:
        shutil.rmtree(tmp, ignore_errors=True)
    return n, None
