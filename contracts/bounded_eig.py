"""
Bounded stand-in (labelled bounded / sampled, never counted as proved) for EIG.calc_As incl. _reorder:
the real methods are called unbound on a stub with small random DAE Jacobians; the eigenvalues of the returned state matrix
are compared with the finite generalised eigenvalues of (fx - fy gy^-1 gx, diag(Tf)) from scipy.linalg.eig.
Bound: n in 2..4 states, m in 1..2 algebraic variables, every subset of zero time constants (not all), 6 random draws each.
"""
import itertools
from types import SimpleNamespace as NS

import numpy as np


def run(seed=0, draws=6):
    from kvxopt import matrix, sparse
    import scipy.linalg
    from andes.routines.eig import EIG
    from andes.linsolvers.solverbase import Solver
    import logging
    logging.getLogger("andes").setLevel(logging.CRITICAL)
    rng = np.random.RandomState(seed)
    n_cases = 0
    found = {}
    for n in (2, 3, 4):
        for m in (1, 2):
            for zsub in itertools.chain.from_iterable(itertools.combinations(range(n), r) for r in range(0, n)):
                for _ in range(draws):
                    fx, fy = rng.randn(n, n), rng.randn(n, m)
                    gx, gy = rng.randn(m, n), rng.randn(m, m) + 3 * np.eye(m)
                    Tf = rng.uniform(0.5, 2.0, n)
                    for z in zsub:
                        Tf[z] = 0.0
                    dae = NS(n=n, m=m, fx=sparse(matrix(fx)), fy=sparse(matrix(fy)), gx=sparse(matrix(gx)), gy=sparse(matrix(gy)),
                             Tf=Tf.copy(), x_name=['x%d' % i for i in range(n)])
                    stub = NS(system=NS(dae=dae), solver=Solver('klu'), x_name=[])
                    for name in ('find_zero_states', '_reduce', '_reorder'):
                        setattr(stub, name, getattr(EIG, name).__get__(stub))
                    n_cases += 1
                    A = fx - fy @ np.linalg.solve(gy, gx)
                    ref = scipy.linalg.eig(A, np.diag(Tf), right=False)
                    ref = np.sort_complex(ref[np.isfinite(ref)])
                    inputs = {'n': n, 'm': m, 'zero_time_constants_at': list(zsub), 'Tf': Tf.tolist()}
                    kind = 'with-zero-time-constants' if zsub else 'no-zero-time-constants'
                    try:
                        As = EIG.calc_As(stub)
                        got = np.sort_complex(np.linalg.eigvals(np.array(matrix(As))))
                    except Exception as e:   # noqa
                        found.setdefault('spectrum-is-the-finite-generalised-spectrum:' + kind, dict(inputs, error=repr(e)))
                        continue
                    def same_multiset(a, b):
                        if len(a) != len(b):
                            return False
                        b = list(b)
                        for x in a:
                            d = [abs(x - y) for y in b]
                            j = int(np.argmin(d))
                            if d[j] > 1e-6 * max(1.0, abs(x)):
                                return False
                            b.pop(j)
                        return True
                    if not same_multiset(got, ref):
                        found.setdefault('spectrum-is-the-finite-generalised-spectrum:' + kind,
                                         dict(inputs, got=[complex(x) for x in got][:6], expected=[complex(x) for x in ref][:6]))
    return n_cases, found


if __name__ == '__main__':
    n, f = run()
    print(n)
    for k, v in f.items():
        print(k, v)
