"""
Bounded stand-in (labelled bounded): on stock cases without zero time constants the eigenvalues reported by EIG.run equal those of
T^-1 (fx - fy gy^-1 gx) computed here with dense NumPy from the assembled matrices; the three counts partition the spectrum by the
sign of the real part; every mode's participation factors are non-negative and sum to one; after all generator inertias are changed
in one call the second EIG.run reports the spectrum of the changed system.
"""
CASES = ['kundur/kundur_full.xlsx', 'ieee14/ieee14_full.xlsx', 'mixed:kundur']


def reference(ss):
    import numpy as np
    from kvxopt import matrix
    fx, fy, gx, gy = [np.array(matrix(ss.dae.__dict__[n])) for n in ('fx', 'fy', 'gx', 'gy')]
    # time constants taken from the parameters of the models (not from the cached dae.Tf)
    Tf = np.ones(ss.dae.n)
    for m in ss.models.values():
        if m.n == 0 or not m.flags.tds:
            continue
        for st in m.states.values():
            if st.t_const is not None and len(st.a):
                Tf[st.a] = st.t_const.v
    return np.linalg.eigvals(np.diag(1.0 / Tf) @ (fx - fy @ np.linalg.solve(gy, gx)))


def matched(a, b, tol=1e-6):
    import numpy as np
    a, b = list(a), list(b)
    if len(a) != len(b):
        return False
    for x in a:
        k = int(np.argmin([abs(x - y) for y in b]))
        if abs(x - b[k]) > tol * max(1.0, abs(x)):
            return False
        b.pop(k)
    return True


def run():
    import contextlib
    import io
    import logging
    import numpy as np
    import andes
    logging.getLogger('andes').setLevel(logging.CRITICAL)
    n = 0
    for case in CASES:
        with contextlib.redirect_stdout(io.StringIO()), contextlib.redirect_stderr(io.StringIO()):
            ss = andes.load(__import__('contracts.mixed_case', fromlist=['resolve']).resolve(case), default_config=True, no_output=True)
            ss.PFlow.run()
            ok = ss.EIG.run()
        if np.any(np.array(ss.dae.Tf) == 0):
            continue
        for step in ('first run', 'after halving every generator inertia in one call'):
            n += 1
            if step != 'first run':
                gen = ss.GENROU
                with contextlib.redirect_stdout(io.StringIO()), contextlib.redirect_stderr(io.StringIO()):
                    gen.set('M', list(gen.idx.v), 'v', 0.5 * np.array(gen.M.v))
                    ok = ss.EIG.run()
            mu = np.array(ss.EIG.mu)
            what = {'case': case, 'step': step}
            if not ok or not matched(mu, reference(ss)):
                return n, dict(what, observed='reported eigenvalues differ from those of T^-1 (fx - fy gy^-1 gx) built from the assembled matrices')
            tol = ss.EIG.config.tol
            want = (int(np.sum(mu.real > tol)), int(np.sum(np.abs(mu.real) <= tol)), int(np.sum(mu.real < -tol)))
            got = (int(ss.EIG.n_positive), int(ss.EIG.n_zeros), int(ss.EIG.n_negative))
            if got != want:
                return n, dict(what, observed='(n_positive, n_zeros, n_negative) = %r, the spectrum gives %r' % (got, want))
            pf = np.array(ss.EIG.pfactors)
            if np.any(pf < 0) or not np.allclose(pf.sum(axis=1), 1.0, atol=1e-3):
                return n, dict(what, observed='participation factors: per-mode sums in [%.4f, %.4f]' % (float(pf.sum(axis=1).min()), float(pf.sum(axis=1).max())))
    return n, None
