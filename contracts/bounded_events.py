"""
Bounded stand-in (labelled bounded): event schedules on kundur_full built through the public API -- toggles on and off the step grid,
two models with coincident times, a fault with clearance, overlapping faults, a parameter alteration, a disabled event, an event beyond tf.  Every timer
callback is wrapped by a recorder.  Checked: each enabled event with 0 < t <= tf acts exactly once, at a step that ends exactly at its
time, on exactly the addressed device; disabled events and events beyond tf never act; time stamps increase strictly; the run ends at tf.
"""


def scenario(extra, tf, tstep=None):
    import contextlib
    import io
    import logging
    import numpy as np
    import andes
    logging.getLogger('andes').setLevel(logging.CRITICAL)
    with contextlib.redirect_stdout(io.StringIO()), contextlib.redirect_stderr(io.StringIO()):
        ss = andes.load(andes.get_case('kundur/kundur_full.xlsx'), default_config=True, no_output=True, setup=False)
        for tg in list(ss.Toggle.idx.v):
            ss.Toggle.alter('u', tg, 0)
        for model, params in extra:
            ss.add(model, params)
        ss.setup()
        ss.PFlow.run()
        ss.TDS.config.tf = tf
        if tstep:
            ss.TDS.config.tstep = tstep
        log = []
        for mname in ('Toggle', 'Fault', 'Alter'):
            m = ss.__dict__[mname]
            for tname, timer in m.timer_params.items():
                if timer.callback is None:
                    continue

                def wrapped(is_time, cb=timer.callback, mname=mname, tname=tname, m=m):
                    acted = cb(is_time)
                    fired = [m.idx.v[k] for k in range(m.n) if is_time[k] and m.u.v[k] != 0]
                    if fired:
                        log.append((float(ss.dae.t), mname, tname, tuple(fired)))
                    return acted
                timer.callback = wrapped
        ok = ss.TDS.run()
    return ss, ok, log, np.array(ss.dae.ts.t)


def run():
    import numpy as np
    n = 0
    scen = [
        ('toggle off the step grid and a second toggle of the same line', 1.5,
         [('Toggle', dict(model='Line', dev='Line_8', t=0.4321)), ('Toggle', dict(model='Line', dev='Line_8', t=0.9))]),
        ('coincident events of two models, fault with clearance', 1.6,
         [('Fault', dict(bus=7, tf=0.5, tc=0.6, xf=0.05)), ('Toggle', dict(model='Line', dev='Line_5', t=0.6)),
          ('Alter', dict(model='TGOV1', dev=1, src='R', attr='v', method='*', amount=1.1, t=0.5))]),
        ('disabled event and event beyond tf', 1.0,
         [('Toggle', dict(model='Line', dev='Line_8', t=0.5, u=0)), ('Toggle', dict(model='Line', dev='Line_5', t=2.5)),
          ('Toggle', dict(model='Line', dev='Line_3', t=0.25))]),
        ('two lines tripped at the same instant and reclosed together', 1.0,
         [('Toggle', dict(model='Line', dev='Line_8', t=0.4)), ('Toggle', dict(model='Line', dev='Line_5', t=0.4)),
          ('Toggle', dict(model='Line', dev='Line_8', t=0.7)), ('Toggle', dict(model='Line', dev='Line_5', t=0.7)),
          ('Toggle', dict(model='Line', dev='Line_3', t=0.7))]),
        ('a fault is cleared at the instant another one is applied', 1.0,
         [('Fault', dict(bus=7, tf=0.3, tc=0.5, xf=0.05)), ('Fault', dict(bus=9, tf=0.5, tc=0.6, xf=0.05))]),
        ('overlapping faults on two buses: the second is applied and cleared while the first is on', 1.0,
         [('Fault', dict(bus=7, tf=0.3, tc=0.6, xf=0.05)), ('Fault', dict(bus=9, tf=0.4, tc=0.5, xf=0.05))]),
        ('an event late in a long run (relative tolerances grow with time)', 12.4,
         [('Toggle', dict(model='Line', dev='Line_8', t=12.0)), ('Toggle', dict(model='Line', dev='Line_8', t=12.25))]),
        ('event times that are not multiples of any decimal grid', 1.2,
         [('Toggle', dict(model='Line', dev='Line_8', t=1.0 / 9.0)), ('Toggle', dict(model='Line', dev='Line_8', t=0.6180339887498949)),
          ('Fault', dict(bus=7, tf=0.3141592653589793, tc=0.3141592653589793 + 5.0 / 60.0, xf=0.05)),
          ('Alter', dict(model='TGOV1', dev=1, src='R', attr='v', method='*', amount=1.1, t=0.7071067811865476))]),
    ]
    for label, tf, extra in scen:
        n += 1
        ss, ok, log, t = scenario(extra, tf)
        what = {'scenario': label, 'events': [(m, {k: v for k, v in p.items()}) for m, p in extra], 'tf': tf}
        if not ok:
            return n, dict(what, observed='run failed')
        if np.any(np.diff(t) <= 0) or t[-1] != tf:
            return n, dict(what, observed='time axis: strictly increasing %r, ends at %r' % (bool(np.all(np.diff(t) > 0)), float(t[-1])))
        want = []
        for m, p in extra:
            if p.get('u', 1) == 0:
                continue
            times = [('t', p['t'])] if 't' in p else [('tf', p['tf']), ('tc', p['tc'])]
            for tname, tv in times:
                if 0 < tv <= tf:
                    want.append((tv, m, tname))
        got = [(a, b, c) for a, b, c, _ in log]
        for w in want:
            k = got.count(w)
            if k != 1:
                return n, dict(what, observed='event %r acted %d times (log %r)' % (w, k, log))
            if not np.any(t == w[0]):
                return n, dict(what, observed='no step ends exactly at %r' % w[0])
        extra_fired = [g for g in got if g not in want]
        if extra_fired:
            return n, dict(what, observed='unexpected event actions %r' % extra_fired)
        # the effects themselves: a line's status is its initial status flipped once per due toggle; every fault that was cleared is off
        flips = {}
        for m, p in extra:
            if m == 'Toggle' and p.get('u', 1) != 0 and p.get('model') == 'Line' and 0 < p['t'] <= tf:
                flips[p['dev']] = flips.get(p['dev'], 0) + 1
        for dev, k in flips.items():
            u_now = float(ss.Line.get('u', dev, 'v'))
            if u_now != float((1 + k) % 2):
                return n, dict(what, observed='%s was toggled %d time(s) from in service, its status is now %r' % (dev, k, u_now))
        # ... and is on from its own tf to its own tc, whatever other faults do meanwhile: the faulted bus stays depressed in between
        ys = np.array(ss.dae.ts.y)
        for m, p in extra:
            if m == 'Fault' and p.get('u', 1) != 0:
                a = ss.Bus.get('v', p['bus'], 'a')
                inside = (t > p['tf']) & (t < min(p['tc'], tf))
                if inside.any() and ys[inside, a].max() >= 0.75 * ys[0, a]:
                    k = int(np.argmax(np.where(inside, ys[:, a], -1.0)))
                    return n, dict(what, observed='the fault on bus %r lasts from %r to %r, yet at t = %r the bus voltage is %.3f (%.3f before the fault)' % (
                        p['bus'], p['tf'], p['tc'], float(t[k]), float(ys[k, a]), float(ys[0, a])))
        fk = 0
        for m, p in extra:
            if m == 'Fault':
                if p.get('u', 1) != 0 and 0 < p['tc'] <= tf and float(ss.Fault.uf.v[fk]) != 0.0:
                    return n, dict(what, observed='fault #%d (bus %r, cleared at %r) is still applied at the end of the run (uf = %r)' % (fk, p['bus'], p['tc'], float(ss.Fault.uf.v[fk])))
                fk += 1
    return n, None


def run_coincident_alter():
    """two enabled Alter events on the same field of the same device at the same instant both take effect, in device order (like the
    same two events a little apart); coincident events on two different devices do not disturb each other"""
    import contextlib
    import io
    import logging
    import numpy as np
    import andes
    logging.getLogger('andes').setLevel(logging.CRITICAL)
    n = 0
    for label, second_dev, times in (('same device, same instant', 'PQ_0', (0.5, 0.5)), ('same device, 0.1 s apart', 'PQ_0', (0.5, 0.6)),
                                     ('two devices, same instant', 'PQ_1', (0.5, 0.5))):
        n += 1
        with contextlib.redirect_stdout(io.StringIO()), contextlib.redirect_stderr(io.StringIO()):
            ss = andes.load(andes.get_case('kundur/kundur_full.xlsx'), default_config=True, no_output=True, setup=False)
            for tg in list(ss.Toggle.idx.v):
                ss.Toggle.alter('u', tg, 0)
            ss.add('Alter', dict(t=times[0], model='PQ', dev='PQ_0', src='Ppf', attr='v', method='+', amount=0.2))
            ss.add('Alter', dict(t=times[1], model='PQ', dev=second_dev, src='Ppf', attr='v', method='*', amount=1.05))
            ss.setup()
            ss.PFlow.run()
            ss.TDS.config.tf = 0.4
            ok = ss.TDS.run()
            before = {d: float(ss.PQ.get(src='Ppf', attr='v', idx=d)) for d in ('PQ_0', 'PQ_1')}
            ss.TDS.config.tf = 0.8
            ok = ok and ss.TDS.run()
        if not ok:
            return n, {'scenario': label, 'observed': 'run failed'}
        after = {d: float(ss.PQ.get(src='Ppf', attr='v', idx=d)) for d in ('PQ_0', 'PQ_1')}
        want = dict(before)
        want['PQ_0'] = before['PQ_0'] + 0.2
        want[second_dev] = want[second_dev] * 1.05
        for d in want:
            if abs(after[d] - want[d]) > 1e-9:
                return n, {'scenario': label, 'events': 'Alter(PQ_0.Ppf += 0.2 at %r), Alter(%s.Ppf *= 1.05 at %r)' % (times[0], second_dev, times[1]),
                           'observed': '%s.Ppf = %r after the events, expected %r (value before the events %r)' % (d, after[d], want[d], before[d])}
    return n, None
