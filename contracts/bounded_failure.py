"""
Bounded stand-in (labelled bounded): infeasible or inconsistent inputs on stock cases are reported as failures end to end --
a power flow cut off after one iteration, a time-domain run and an eigenvalue analysis requested after that failed power flow, a
dynamic initialisation that cannot balance (governor limit below the dispatch), an out-of-step run stopped by the angle criterion, a
case whose exciter refers to a generator that does not exist (setup fails; the command-line entry point must return a non-zero code).
Checked: the routine's return value is False (where the code is meant to return it), System.exit_code is non-zero, and no result is
presented as converged.
"""


def run():
    import contextlib
    import io
    import logging
    import numpy as np
    import andes
    logging.getLogger('andes').setLevel(logging.CRITICAL)
    case = andes.get_case('kundur/kundur_full.xlsx')
    n = 0

    def quiet():
        return contextlib.redirect_stdout(io.StringIO())
    # 1-3: failed power flow, then TDS and EIG
    n += 1
    with quiet():
        ss = andes.load(case, default_config=True, no_output=True, config_option=['PFlow.max_iter=1'])
        ok = ss.PFlow.run()
    if ok is not False or ss.PFlow.converged or ss.exit_code == 0:
        return n, {'scenario': 'power flow limited to one iteration', 'observed': 'run() -> %r, converged %r, exit_code %r' % (ok, ss.PFlow.converged, ss.exit_code)}
    n += 1
    with quiet():
        ok = ss.TDS.run()
    if ok is not False or ss.TDS.initialized:
        return n, {'scenario': 'TDS.run after a failed power flow', 'observed': 'run() -> %r, initialized %r' % (ok, ss.TDS.initialized)}
    n += 1
    with quiet():
        ok = ss.EIG.run()
    if ok is not False:
        return n, {'scenario': 'EIG.run after a failed power flow', 'observed': 'run() -> %r' % (ok,)}
    # 4: inconsistent dynamic data: initialisation test fails; the exit code must say so after the run as well
    n += 1
    with quiet():
        ss = andes.load(case, default_config=True, no_output=True)
        ss.TGOV1.alter('VMAX', ss.TGOV1.idx.v[0], 0.1)
        ss.PFlow.run()
        ss.TDS.config.tf = 0.2
        ss.TDS.run()
    if ss.TDS.test_ok is not False or ss.exit_code == 0:
        return n, {'scenario': 'TGOV1.VMAX = 0.1 below the dispatched power', 'observed': 'test_ok %r, exit_code after TDS.run %r' % (ss.TDS.test_ok, ss.exit_code)}
    # 5: out-of-step run
    n += 1
    with quiet():
        ss = andes.load(case, default_config=True, no_output=True, setup=False)
        for tg in list(ss.Toggle.idx.v):
            ss.Toggle.alter('u', tg, 0)
        ss.add('Fault', dict(bus=7, tf=1.0, tc=1.8, xf=0.0001))
        ss.setup()
        ss.PFlow.run()
        ss.TDS.config.tf = 6.0
        ok = ss.TDS.run()
    delta = ss.dae.x[ss.GENROU.delta.a]
    spread = float(np.max(delta) - np.min(delta))
    if spread > np.deg2rad(ss.TDS.config.ddelta_limit) and (ok is not False or ss.exit_code == 0):
        return n, {'scenario': 'bolted fault on bus 7 cleared after 0.8 s', 'observed': 'rotor angle spread %.1f deg, run() -> %r, exit_code %r, t_end %.3f' % (
            np.rad2deg(spread), ok, ss.exit_code, float(ss.dae.t))}
    # 6: inconsistent dynamic data that setup() itself rejects (an exciter pointing at a generator that does not exist): the system is not
    #    set up, the command-line entry point refuses to run routines and returns a non-zero code
    import os
    import shutil
    import tempfile
    from andes.main import run as main_run
    n += 1
    tmp = tempfile.mkdtemp(prefix='verif_fail_')
    try:
        with quiet(), contextlib.redirect_stderr(io.StringIO()):
            ss = andes.load(case, default_config=True, no_output=True, setup=False)
            ss.EXDC2.alter('syn', ss.EXDC2.idx.v[0], 99)
            ok = ss.setup()
            andes.io.xlsx.write(ss, os.path.join(tmp, 'dangling.xlsx'), overwrite=True)
        if ok is not False or ss.is_setup or ss.exit_code == 0:
            return n, {'scenario': 'EXDC2.syn = 99 (no such generator)', 'observed': 'setup() -> %r, is_setup %r, exit_code %r' % (ok, ss.is_setup, ss.exit_code)}
        with quiet(), contextlib.redirect_stderr(io.StringIO()):
            try:
                code = main_run('dangling.xlsx', input_path=tmp, cli=True, verbose=50, default_config=True, no_output=True)
            except SystemExit as e:      # noqa
                code = e.code
        if code == 0 or code is None or code is False:
            return n, {'scenario': 'andes run on a case whose exciter points at generator 99 (does not exist)', 'observed': 'exit code %r' % (code,)}
    finally:
        shutil.rmtree(tmp, ignore_errors=True)
    return n, None
