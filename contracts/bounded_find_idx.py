"""
Bounded stand-in (labelled bounded, never counted as proved): ModelData.find_idx and GroupBase.find_idx are run natively on
every small registry and compared with an oracle.  Bound: <= 2 models x <= 3 devices, parameter values in {0, 1},
<= 2 query rows, one or two keys, allow_none / allow_all in {False, True}.
The functions are outside the verified subset (zip(*values), nested list comprehensions over lists of lists).
"""
import itertools


def build(devs_a, devs_b):
    from andes.core import ModelData, NumParam, IdxParam
    from andes.models.group import GroupBase

    class D(ModelData):
        def __init__(self):
            super().__init__()
            self.bus = IdxParam()
            self.k = NumParam()

    class G(GroupBase):
        pass
    g = G()
    models = []
    for name, devs in (('A', devs_a), ('B', devs_b)):
        m = D()
        m.class_name = name
        for i, (bus, k) in enumerate(devs):
            idx = '%s%d' % (name, i)
            m.add(idx=idx, bus=bus, k=k)
            g.add(idx, m)
        for p in m.params.values():
            p.to_array() if hasattr(p, 'to_array') else None
        g.add_model(name, m)
        models.append(m)
    return g, models


def oracle_model(m, keys, values, allow_all):
    out = []
    for row in zip(*values):
        hits = [m.idx.v[pos] for pos in range(m.n) if all(m.__dict__[key].v[pos] == row[j] for j, key in enumerate(keys))]
        out.append(hits)
    return out


def run(max_dev=3):
    """returns (n_cases, mismatches) where a mismatch is a dict describing the first failing inputs per kind"""
    import logging
    logging.getLogger('andes').setLevel(logging.CRITICAL)
    vals = (0, 1)
    dev_sets = []
    for n in range(0, max_dev + 1):
        for combo in itertools.product(itertools.product(vals, vals), repeat=n):
            dev_sets.append(list(combo))
    # keep the enumeration small: models with up to max_dev devices, second model up to 2
    sets_a = [d for d in dev_sets if len(d) <= max_dev]
    sets_b = [d for d in dev_sets if len(d) <= 2]
    queries = []
    for nq in (1, 2):
        for q in itertools.product(vals, repeat=nq):
            queries.append((['bus'], [list(q)]))
        for q in itertools.product(itertools.product(vals, vals), repeat=nq):
            queries.append((['bus', 'k'], [[x[0] for x in q], [x[1] for x in q]]))
    n = 0
    mism = {}
    for da in sets_a:
        for db in sets_b:
            if len(da) + len(db) == 0:
                continue
            g, (ma, mb) = build(da, db)
            for keys, values in queries:
                for allow_all in (False, True):
                    # ---- model level
                    for m in (ma, mb):
                        if m.n == 0:
                            continue
                        exp = oracle_model(m, keys, values, allow_all)
                        n += 1
                        try:
                            got = m.find_idx(keys if len(keys) > 1 else keys[0], values if len(keys) > 1 else values[0],
                                             allow_none=True, default=None, allow_all=allow_all)
                        except Exception as e:   # noqa
                            got = repr(e)
                        want = [(h if h else [None]) if allow_all else (h[0] if h else None) for h in exp]
                        if got != want:
                            mism.setdefault('ModelData.find_idx', {'model': m.class_name, 'devices': da if m is ma else db,
                                                                   'keys': keys, 'values': values, 'allow_all': allow_all,
                                                                   'got': got, 'expected': want})
                    # ---- group level
                    ea, eb = oracle_model(ma, keys, values, True) if ma.n else [[] for _ in values[0]], \
                        oracle_model(mb, keys, values, True) if mb.n else [[] for _ in values[0]]
                    n += 1
                    try:
                        got = g.find_idx(keys if len(keys) > 1 else keys[0], values if len(keys) > 1 else values[0],
                                         allow_none=True, default=None, allow_all=allow_all)
                    except Exception as e:   # noqa
                        got = repr(e)
                    want_all = [(a + b) if (a + b) else [None] for a, b in zip(ea, eb)]
                    want = want_all if allow_all else [w[0] for w in want_all]
                    if got != want:
                        kind = 'GroupBase.find_idx(allow_all=%s)' % allow_all
                        mism.setdefault(kind, {'devices_A': da, 'devices_B': db, 'keys': keys, 'values': values,
                                               'allow_all': allow_all, 'got': got, 'expected': want})
    return n, mism


if __name__ == '__main__':
    n, m = run()
    print(n, m)



def run_mixed():
    """registries that mix numeric and string values (idx and a reference field): a lookup finds a device only through a value that
    is equal to the stored one as a Python object (1 is not '1'); returns (n_cases, first mismatch or None)"""
    import logging
    from andes.core import ModelData, IdxParam
    from andes.models.group import GroupBase
    logging.getLogger('andes').setLevel(logging.CRITICAL)

    class D(ModelData):
        def __init__(self):
            super().__init__()
            self.bus = IdxParam()
    n = 0
    for idxs, buses in (([1, 'G4', 2, 'x1'], [10, 'b2', 'b2', 11]), (['BusFreq_1', 'BusFreq_2', 101], [1, 2, 9]), ([5, 6], ['a', 5])):
        m = D()
        m.class_name = 'A'
        g = GroupBase()
        for i, b in zip(idxs, buses):
            m.add(idx=i, bus=b)
            g.add(i, m)
        g.add_model('A', m)
        for key, stored in (('idx', idxs), ('bus', buses)):
            for q in list(stored) + [str(x) for x in stored if not isinstance(x, str)] + ['nope', 12345]:
                hits = [idxs[k] for k in range(len(idxs)) if stored[k] == q and type(stored[k]) is type(q)]
                want = [hits[0]] if hits else [None]
                for holder, label in ((m, 'ModelData'), (g, 'GroupBase')):
                    n += 1
                    try:
                        got = list(holder.find_idx(key, [q], allow_none=True, default=None))
                    except Exception as e:      # noqa
                        got = repr(e)
                    if got != want:
                        return n, {'registry idx': idxs, 'registry bus': buses,
                                   'call': "%s.find_idx(%r, [%r], allow_none=True, default=None)" % (label, key, q),
                                   'observed': repr(got), 'expected': repr(want)}
    return n, None
