"""Bounded stand-in (native, labelled; never counted as proved) for C05: IEEEG1 turbine fractions K1..K8 that do not add up to one (the
model documents that they are normalised) -- every governor's fractions scaled by a common factor below and above one; the dynamic
initialisation must succeed with zero residuals, as it does for the stock data."""
import logging

CASE = 'kundur/kundur_ieeeg1.json'
FACTORS = (0.5, 0.8, 1.6)


def run():
    import andes
    import numpy as np
    logging.disable(logging.CRITICAL)
    try:
        n, bad = 0, []
        for fac in FACTORS:
            ss = andes.load(andes.get_case(CASE), default_config=True, no_output=True)
            for k in range(1, 9):
                name = 'K%d' % k
                for idx, v in zip(list(ss.IEEEG1.idx.v), list(ss.IEEEG1.params[name].vin)):
                    ss.IEEEG1.alter(name, idx, float(v) * fac)
            ss.PFlow.run()
            ok = ss.TDS.init()
            n += 1
            res = float(max(np.max(np.abs(ss.dae.g)), np.max(np.abs(ss.dae.f[ss.dae.Tf != 0])) if ss.dae.n else 0.0))
            if (ok is False) or ss.exit_code != 0 or not res < 1e-6:
                bad.append({'case': CASE, 'fractions scaled by': fac, 'observed': {'TDS.init': str(ok), 'exit_code': int(ss.exit_code),
                                                                                   'max residual after init': res}})
        return n, bad
    finally:
        logging.disable(logging.NOTSET)


if __name__ == '__main__':
    print(run())
