"""
Bounded stand-in (labelled bounded): the accessors of the in-memory time series after real runs of kundur_full (tf = 0.6 s, residuals
stored).  get_data(var), get_data((v1, v2)), get_data(var, a=[...]) and get_data(var, rhs=True) return exactly the columns of the stored
arrays at the addresses of the variables (x / y by v_code; f for the equation of a state, h for an external algebraic variable);
the data frames df_x, df_y, df_xy carry one row per stored step, indexed by the stored times, in columns labelled with the output names,
holding the stored values.  With an Output device that restricts storage to one model and one variable, get_data returns the values of
the unrestricted run for the selected addresses and nothing for unselected variables; the frames carry exactly the selected names.
"""


def _run(selection, devs=None):
    import contextlib
    import io
    import logging
    import andes
    logging.getLogger('andes').setLevel(logging.CRITICAL)
    with contextlib.redirect_stdout(io.StringIO()), contextlib.redirect_stderr(io.StringIO()):
        ss = andes.load(andes.get_case('kundur/kundur_full.xlsx'), default_config=True, no_output=True, setup=False)
        for k, (model, varname) in enumerate(selection):
            row = dict(model=model, varname=varname)
            if devs and devs[k] is not None:
                row['dev'] = devs[k]
            ss.add('Output', row)
        ss.setup()
        ss.TDS.config.tf = 0.6
        ss.TDS.config.store_f = 1
        ss.TDS.config.store_h = 1
        ss.TDS.config.store_i = 1
        ss.PFlow.run()
        ok = ss.TDS.run()
    return ss, ok


def run():
    import numpy as np
    n = 0
    ss, ok = _run([])
    if not ok:
        return n, {'observed': 'run failed'}
    ts = ss.dae.ts
    t, X, Y, F, H, Ii = np.array(ts.t), np.array(ts.x), np.array(ts.y), np.array(ts.f), np.array(ts.h), np.array(ts.i)
    arrays = {'x': X, 'y': Y, 'f': F, 'h': H, 'i': Ii}
    om, dl, bv, ba, vf = ss.GENROU.omega, ss.GENROU.delta, ss.Bus.v, ss.GENROU.a, ss.EXDC2.vout

    def same(got, want, what):
        if got is None or np.shape(got) != np.shape(want) or not np.array_equal(np.asarray(got), want):
            return {'call': what, 'observed': 'shape %r, expected shape %r%s' % (np.shape(got), np.shape(want), '' if got is None or np.shape(got) != np.shape(want) else
                                                                                  '; max difference %.3e' % float(np.max(np.abs(np.asarray(got) - want))))}
        return None
    checks = [
        ('get_data(GENROU.omega)', lambda: ts.get_data(om), X[:, om.a]),
        ('get_data(Bus.v)', lambda: ts.get_data(bv), Y[:, bv.a]),
        ('get_data(EXDC2.vout)', lambda: ts.get_data(vf), arrays[vf.v_code][:, vf.a]),
        ('get_data((GENROU.delta, Bus.v, GENROU.omega))', lambda: ts.get_data((dl, bv, om)), np.hstack((X[:, dl.a], Y[:, bv.a], X[:, om.a]))),
        ('get_data(GENROU.omega, a=[2, 0])', lambda: ts.get_data(om, a=[2, 0]), X[:, om.a[[2, 0]]]),
        ('get_data((GENROU.delta, Bus.v), a=[1])', lambda: ts.get_data((dl, bv), a=[1]), np.hstack((X[:, dl.a[[1]]], Y[:, bv.a[[1]]]))),
        ('get_data(GENROU.omega, rhs=True)', lambda: ts.get_data(om, rhs=True), F[:, om.a]),
        ('get_data(GENROU.a [external], rhs=True)', lambda: ts.get_data(ba, rhs=True), arrays[ba.r_code][:, ba.r]),
    ]
    for what, call, want in checks:
        n += 1
        bad = same(call(), want, what)
        if bad:
            return n, bad
    for name, arr, labels in (('df_x', X, list(ss.dae.x_name_output)), ('df_y', Y, list(ss.dae.y_name_output)),
                              ('df_xy', np.hstack((X, Y)), list(ss.dae.x_name_output) + list(ss.dae.y_name_output))):
        n += 1
        df = getattr(ts, name)
        if list(df.columns) != labels:
            return n, {'call': 'ts.' + name, 'observed': 'column labels differ from the output names (first labels %r / %r)' % (list(df.columns)[:3], labels[:3])}
        if not np.array_equal(np.asarray(df.index, dtype=float), t) or not np.array_equal(df.to_numpy(), arr):
            return n, {'call': 'ts.' + name, 'observed': 'index / values differ from the stored times / arrays'}
    # restricted storage
    s2, ok = _run([('GENROU', 'omega'), ('Bus', 'v')])
    if not ok:
        return n, {'observed': 'run with an Output selection failed'}
    t2 = s2.dae.ts
    n += 1
    if not np.array_equal(np.array(t2.t), t):
        return n, {'call': 'run with Output selection', 'observed': 'stored times differ from the unrestricted run'}
    for what, var2, want in (('get_data(GENROU.omega) with Output(GENROU.omega), Output(Bus.v)', s2.GENROU.omega, X[:, om.a]),
                             ('get_data(Bus.v) with Output(GENROU.omega), Output(Bus.v)', s2.Bus.v, Y[:, bv.a])):
        n += 1
        got = t2.get_data(var2)
        if got is None or np.shape(got) != np.shape(want) or not np.allclose(got, want, rtol=0, atol=1e-12):
            return n, {'call': what, 'observed': 'shape %r (expected %r) or values differ from the unrestricted run' % (np.shape(got), np.shape(want))}
    n += 1
    got = t2.get_data(s2.GENROU.delta)
    if got is not None and np.shape(got)[1] != 0:
        return n, {'call': 'get_data(GENROU.delta) with Output(GENROU.omega), Output(Bus.v)', 'observed': 'returned %d columns for a variable that is not stored' % np.shape(got)[1]}
    n += 1
    want_x = [ss.dae.x_name[i] for i in sorted(om.a)]
    if list(t2.df_x.columns) != want_x:
        return n, {'call': 'ts.df_x with Output(GENROU.omega)', 'observed': 'columns %r, expected %r' % (list(t2.df_x.columns), want_x)}
    if not np.allclose(t2.df_x.to_numpy(), X[:, sorted(om.a)], rtol=0, atol=1e-12):
        return n, {'call': 'ts.df_x with Output(GENROU.omega)', 'observed': 'values differ from the unrestricted run'}
    # overlapping selections: all bus voltages, everything of bus 3, all bus voltages once more
    s3, ok = _run([('Bus', 'v'), ('Bus', None), ('Bus', 'v')], devs=[None, 3, None])
    if not ok:
        return n, {'observed': 'run with overlapping Output selections failed'}
    t3 = s3.dae.ts
    n += 1
    for nm, idx in (('xidx', list(s3.Output.xidx)), ('yidx', list(s3.Output.yidx))):
        if len(set(idx)) != len(idx) or idx != sorted(idx):
            return n, {'call': 'Output rows (Bus, v), (Bus, dev=3), (Bus, v)', 'observed': 'Output.%s is not strictly increasing: %r' % (nm, [int(i) for i in idx])}
    labels = list(t3.df_y.columns)
    if len(set(labels)) != len(labels):
        return n, {'call': 'ts.df_y with overlapping Output rows', 'observed': 'a variable is stored in more than one column: %r' % labels}
    for k in range(s3.Bus.n):
        n += 1
        got = t3.get_data(s3.Bus.v, a=[k])
        want = Y[:, bv.a[[k]]]
        if got is None or np.shape(got) != np.shape(want) or not np.allclose(got, want, rtol=0, atol=1e-12):
            return n, {'call': 'get_data(Bus.v, a=[%d]) with Output rows (Bus, v), (Bus, dev=3), (Bus, v)' % k,
                       'observed': 'shape %r (expected %r) or values differ from the unrestricted run' % (np.shape(got), np.shape(want))}
    return n, None
