"""
Bounded stand-in (labelled bounded): GroupBase.idx2model and GroupBase.get on a small real group (two stub models registered through
GroupBase.add_model / add), exhaustive over idx in {registered int, registered str, the registered falsy indices 0 and '', unknown, None} x allow_none in {False, True},
scalar and list form.  Oracle: a registered idx gives its own model / value; None is accepted only with allow_none (giving
None / the default); everything else raises KeyError -- a dangling reference is never resolved to something else.
"""
import itertools


def run():
    from types import SimpleNamespace
    import numpy as np
    from andes.models.group import GroupBase

    class Stub:
        def __init__(self, name, vals):
            self.class_name = name
            self.vals = dict(vals)
            self.n = len(vals)

        def get(self, src, idx, attr='v', allow_none=False, default=0.0):
            return np.array([self.vals[i] for i in idx]) if isinstance(idx, (list, tuple, np.ndarray)) else self.vals[idx]

    g = GroupBase()
    ma, mb = Stub('A', {1: 10.0, 2: 20.0, 0: 5.0}), Stub('B', {'G4': 40.0, '': 45.0})
    g.add_model('A', ma)
    g.add_model('B', mb)
    for idx, m in ((1, ma), (2, ma), ('G4', mb), (0, ma), ('', mb)):
        g.add(idx, m)
    owner = {1: ma, 2: ma, 'G4': mb, 0: ma, '': mb}       # 0 and '' are ordinary (falsy) indices, not "no device"
    n, bad = 0, []
    universe = [1, 'G4', 0, '', 'nope', 99, None]
    for allow_none in (False, True):
        for q in [[x] for x in universe] + [list(p) for p in itertools.product(universe, repeat=2)]:
            n += 1
            if any(x is None for x in q) and not allow_none:
                want = KeyError
            elif any(x is not None and x not in owner for x in q):
                want = KeyError
            else:
                want = [None if x is None else owner[x] for x in q]
            try:
                got = g.idx2model(q, allow_none=allow_none)
            except KeyError:
                got = KeyError
            except Exception as e:      # noqa
                got = repr(e)
            if got is not want and got != want:
                bad.append({'call': 'GroupBase.idx2model(%r, allow_none=%r)' % (q, allow_none),
                            'observed': 'KeyError' if got is KeyError else repr([getattr(x, 'class_name', x) for x in got] if isinstance(got, list) else got),
                            'expected': 'KeyError' if want is KeyError else repr([getattr(x, 'class_name', x) for x in want])})
    # GroupBase.get: element k of the result is the value of device idx[k] (whatever the order, with repeats, across models);
    # None positions give the default
    class M2:
        def __init__(self, name, idxs, vals):
            self.class_name, self.n = name, len(idxs)
            self.uid = {i: k for k, i in enumerate(idxs)}
            self.__dict__['p'] = SimpleNamespace(v=np.array(vals, dtype=float), a=np.array([100 + int(10 * x) for x in vals]))

        def idx2uid(self, idx):
            return [self.uid[i] for i in idx] if isinstance(idx, (list, tuple, np.ndarray)) else self.uid[idx]
    g2 = GroupBase()
    g2.common_params.append('p')
    m1, m2 = M2('A', [1, 2, 3], [1.1, 2.2, 3.3]), M2('B', ['G4', 'G5'], [4.4, 5.5])
    g2.add_model('A', m1)
    g2.add_model('B', m2)
    val = {}
    for mdl in (m1, m2):
        for i, k in mdl.uid.items():
            g2.add(i, mdl)
            val[i] = (float(mdl.__dict__['p'].v[k]), int(mdl.__dict__['p'].a[k]))
    queries = [list(q) for r in (1, 2, 3) for q in itertools.permutations([1, 2, 3, 'G4', 'G5'], r)] + \
        [[3, 2, 1, 'G5', 'G4'], [1, 1, 2], ['G5', 'G4'], [2, 'G4', 1, 'G5', 3], [1, None, 3], [None, 'G5', 'G4']]
    for q in queries:
        for attr, pos in (('v', 0), ('a', 1)):
            n += 1
            allow = any(x is None for x in q)
            want = [(-7.0 if x is None else float(val[x][pos])) for x in q]
            try:
                got = [float(x) for x in np.ravel(g2.get('p', q, attr=attr, allow_none=allow, default=-7.0))]
            except Exception as e:      # noqa
                got = repr(e)
            if got != want:
                bad.append({'call': "GroupBase.get('p', %r, attr=%r, allow_none=%r, default=-7.0)" % (q, attr, allow), 'observed': repr(got),
                            'expected': repr(want)})
                return n, bad
    return n, bad
