"""
Bounded stand-in (labelled bounded): "repeating a run in a fresh process gives bit-identical results" -- the same power flow (ieee14) and
a short time-domain run (kundur_full, 0.5 s) in fresh interpreter processes started with different string-hash seeds
(PYTHONHASHSEED = 0, 1, 2, 4): the raw bytes of the solution vectors must be identical.  Anything whose order depends on the iteration
order of a set of strings (summation order of the residual contributions, for instance) differs between such processes.
"""
import os
import subprocess
import sys

CHILD = r'''
import hashlib, logging, sys
import numpy as np
import andes
logging.getLogger('andes').setLevel(logging.CRITICAL)
ss = andes.load(andes.get_case('ieee14/ieee14.raw'), default_config=True, no_output=True)
ss.PFlow.run()
h1 = hashlib.sha256(np.ascontiguousarray(ss.dae.y).tobytes()).hexdigest()[:16]
s2 = andes.load(andes.get_case('kundur/kundur_full.xlsx'), default_config=True, no_output=True)
s2.PFlow.run()
s2.TDS.config.tf = 0.5
s2.TDS.config.no_tqdm = 1
s2.TDS.run()
h2 = hashlib.sha256(np.ascontiguousarray(s2.dae.x).tobytes() + np.ascontiguousarray(s2.dae.y).tobytes()).hexdigest()[:16]
print('HASHES', h1, h2, repr(float(ss.dae.y[2])))
'''


def run(seeds=(0, 1, 2, 4)):
    from concurrent.futures import ThreadPoolExecutor

    def one(seed):
        env = dict(os.environ, PYTHONHASHSEED=str(seed))
        r = subprocess.run([sys.executable, '-c', CHILD], env=env, capture_output=True, text=True, timeout=900)
        line = [l for l in r.stdout.splitlines() if l.startswith('HASHES')]
        return seed, (line[0].split()[1:] if line else None), r.stderr[-300:]
    with ThreadPoolExecutor(max_workers=len(seeds)) as ex:
        res = list(ex.map(one, seeds))
    for seed, h, err in res:
        if h is None:
            return len(res), {'PYTHONHASHSEED': seed, 'observed': 'the child process produced no result: %s' % err}
    first = res[0][1]
    for seed, h, _ in res[1:]:
        if h[:2] != first[:2]:
            return len(res), {'processes': {'PYTHONHASHSEED=%d' % s: hh for s, hh, _ in res},
                              'observed': 'fresh processes that differ only in the string-hash seed give different bits (power-flow hash, TDS hash, y[2])'}
    return len(res), None
