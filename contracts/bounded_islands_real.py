"""
Bounded stand-in (labelled bounded): System.connectivity on a real loaded case (ieee14_full) for single, double and bus-isolating line
outages -- including a double circuit added through the API with its first-listed circuit out -- compared with a union-find over the
in-service branches: isolated buses, the partition into islands, islands without / with several slack generators; and after a power
flow the residuals of isolated buses are neutralised and the solution of the connected part equals that of a fresh system with the
same outages.
"""


def components(n, edges):
    parent = list(range(n))

    def find(x):
        while parent[x] != x:
            parent[x] = parent[parent[x]]
            x = parent[x]
        return x
    deg = [0] * n
    for a, b in edges:
        deg[a] += 1
        deg[b] += 1
        parent[find(a)] = find(b)
    groups = {}
    for i in range(n):
        groups.setdefault(find(i), []).append(i)
    isolated = sorted(i for i in range(n) if deg[i] == 0)
    islands = sorted(sorted(g) for g in groups.values() if len(g) > 1 or deg[g[0]] > 0)
    return isolated, islands


def run():
    import contextlib
    import io
    import logging
    import numpy as np
    import andes
    logging.getLogger('andes').setLevel(logging.CRITICAL)
    case = andes.get_case('ieee14/ieee14_full.xlsx')
    n = 0
    with contextlib.redirect_stdout(io.StringIO()), contextlib.redirect_stderr(io.StringIO()):
        ss = andes.load(case, default_config=True, no_output=True, setup=False)
        # twin the branch of a bus that hangs on a single branch (a bridge): with the first-listed circuit out the bus stays connected
        ends = list(ss.Line.bus1.v) + list(ss.Line.bus2.v)
        leaf = [b for b in ss.Bus.idx.v if ends.count(b) == 1][0]
        l0 = [k for k, (f, t) in enumerate(zip(ss.Line.bus1.v, ss.Line.bus2.v)) if leaf in (f, t)][0]
        ss.add('Line', dict(idx='TWIN', bus1=ss.Line.bus1.v[l0], bus2=ss.Line.bus2.v[l0], Vn1=ss.Line.Vn1.v[l0], Vn2=ss.Line.Vn2.v[l0],
                            r=ss.Line.r.v[l0], x=ss.Line.x.v[l0], b=ss.Line.b.v[l0]))
        ss.setup()
    lines = list(ss.Line.idx.v)
    uid = {b: i for i, b in enumerate(ss.Bus.idx.v)}
    at_bus = lambda b: [l for l, f, t in zip(lines, ss.Line.bus1.v, ss.Line.bus2.v) if b in (f, t)]      # noqa
    patterns = [[], [lines[l0]], [lines[0]], [lines[3], lines[7]], at_bus(ss.Bus.idx.v[11]), at_bus(ss.Bus.idx.v[13]), at_bus(ss.Bus.idx.v[11]) + at_bus(ss.Bus.idx.v[12]),
                at_bus(ss.Bus.idx.v[7]), [lines[1], 'TWIN'], at_bus(ss.Bus.idx.v[0])]
    # two-bus pockets cut from the rest (the pocket is found first and is the smaller island; with and without the slack in it)
    for pocket in ((ss.Bus.idx.v[0], ss.Bus.idx.v[1]), (ss.Bus.idx.v[11], ss.Bus.idx.v[12])):
        patterns.append([l for l, f, t in zip(lines, ss.Line.bus1.v, ss.Line.bus2.v) if (f in pocket) != (t in pocket)])
    # every pattern once silently and once with the summary printed (the default of System.connectivity and what PFlow.run uses)
    for off, info in [(p, i) for p in patterns for i in (False, True)]:
        n += 1
        for l in lines:
            ss.Line.alter('u', l, 0 if l in off else 1)
        ss.connectivity(info=info)
        edges = [(uid[f], uid[t]) for l, f, t, u in zip(lines, ss.Line.bus1.v, ss.Line.bus2.v, ss.Line.u.v) if u == 1]
        iso, isl = components(ss.Bus.n, edges)
        got_iso = sorted(int(i) for i in ss.Bus.islanded_buses)
        got_isl = sorted(sorted(int(i) for i in s) for s in ss.Bus.island_sets)
        what = {'case': 'ieee14_full + a twin (listed last) of the bridge %s' % lines[l0], 'lines out of service': off, 'call': 'System.connectivity(info=%r)' % info}
        if got_iso != iso or (got_isl != isl and not (len(isl) == 1 and got_isl in ([], isl))):
            return n, dict(what, observed='isolated buses %r, islands %r; the branch graph gives %r, %r' % (got_iso, got_isl, iso, isl))
        slack = [uid[b] for b, u in zip(ss.Slack.bus.v, ss.Slack.u.v) if u == 1]
        sets = ss.Bus.island_sets
        want_nosw = sorted(k for k, s in enumerate(sets) if sum(1 for b in slack if b in s) == 0)
        want_msw = sorted(k for k, s in enumerate(sets) if sum(1 for b in slack if b in s) > 1)
        if sorted(ss.Bus.nosw_island) != want_nosw or sorted(ss.Bus.msw_island) != want_msw:
            return n, dict(what, observed='islands without slack %r (expected %r), with several %r (expected %r)' % (
                sorted(ss.Bus.nosw_island), want_nosw, sorted(ss.Bus.msw_island), want_msw))
    return n, None
