"""
Bounded stand-in (labelled bounded): the matrix handed to the Newton solver of the time-domain integration is the derivative of the residual
it is solved against.  For both integration methods, on kundur_full after TDS.init with h = 1/30: the weight w with which the method's own
residual function calc_q uses f (measured from calc_q itself: q(f + d) - q(f) = -w h d) is the weight in the matrix calc_jac returns:
Ac = [[T - w h fx, -w h fy], [gx, gy]] with the assembled fx, fy, gx, gy and the time constants T; and w is 1/2 for the trapezoid rule,
1 for backward Euler.
"""


def run():
    import contextlib
    import io
    import logging
    import numpy as np
    import andes
    from kvxopt import matrix
    logging.getLogger('andes').setLevel(logging.CRITICAL)
    n = 0
    for method, want_w in (('trapezoid', 0.5), ('backeuler', 1.0)):
        n += 1
        with contextlib.redirect_stdout(io.StringIO()), contextlib.redirect_stderr(io.StringIO()):
            ss = andes.load(andes.get_case('kundur/kundur_full.xlsx'), default_config=True, no_output=True, config_option=['TDS.method=%s' % method])
            ss.PFlow.run()
            ss.TDS.init()
            ss.j_update(ss.exist.pflow_tds)
        tds, dae = ss.TDS, ss.dae
        h = 1.0 / 30.0
        tds.h = h
        nx = dae.n
        x = np.array(dae.x)
        f = np.array(dae.f)
        x0, f0 = x - 0.01, f + 0.02
        d = 0.125
        q0 = np.array(tds.method.calc_q(x, f, dae.Tf, h, x0, f0), dtype=float)
        q1 = np.array(tds.method.calc_q(x, f + d, dae.Tf, h, x0, f0), dtype=float)
        w = -(q1 - q0) / (h * d)
        if not np.allclose(w, want_w, rtol=0, atol=1e-12):
            return n, {'method': method, 'observed': 'calc_q weighs f with %r, the %s rule uses %r' % (float(w[0]), method, want_w)}
        Ac = np.array(matrix(tds.method.calc_jac(tds, dae.gx, dae.gy)))
        fx, fy, gx, gy = [np.array(matrix(dae.__dict__[k])) for k in ('fx', 'fy', 'gx', 'gy')]
        T = np.diag(np.array(dae.Tf, dtype=float))
        want = np.block([[T - want_w * h * fx, -want_w * h * fy], [gx, gy]])
        if Ac.shape != want.shape or np.max(np.abs(Ac - want)) > 1e-10:
            dd = np.abs(Ac - want) if Ac.shape == want.shape else None
            i, j = np.unravel_index(int(np.argmax(dd)), dd.shape) if dd is not None else (0, 0)
            names = list(dae.x_name) + list(dae.y_name)
            return n, {'method': method, 'h': h, 'observed': 'integrator matrix entry (%s, %s) is %.6g, the derivative of the residual it is solved against is %.6g' % (
                ('q ' if i < nx else 'g ') + names[i], names[j], Ac[i, j], want[i, j]) if dd is not None else 'shape %r' % (Ac.shape,)}
    return n, None
