"""
Bounded stand-in (labelled bounded): the assembled matrices dae.fx, fy, gx, gy agree with central finite differences of the assembled
residuals (f, g) at the operating point after TDS.init, for stock cases, before and after opening a line (without and with the
connectivity check that patches islanded buses) and after altering a machine damping and an exciter gain (parameters that enter only
Jacobian blocks without variable arguments).  Entries whose finite difference straddles a limiter breakpoint are not compared.
"""
CASES = ['kundur/kundur_full.xlsx', 'ieee14/ieee14_full.xlsx', 'mixed:kundur']


def fd_check(ss, label):
    import numpy as np
    from kvxopt import matrix
    models = ss.exist.pflow_tds
    n, m = ss.dae.n, ss.dae.m
    x0, y0 = ss.dae.x.copy(), ss.dae.y.copy()

    def residual(xy):
        ss.dae.x[:] = xy[:n]
        ss.dae.y[:] = xy[n:]
        ss.vars_to_models()
        ss.TDS.fg_update(models)
        return np.concatenate((ss.dae.f.copy(), ss.dae.g.copy()))
    xy0 = np.concatenate((x0, y0))
    residual(xy0)
    ss.j_update(models)
    J = np.zeros((n + m, n + m))
    J[:n, :n] = np.array(matrix(ss.dae.fx))
    J[:n, n:] = np.array(matrix(ss.dae.fy))
    J[n:, :n] = np.array(matrix(ss.dae.gx))
    J[n:, n:] = np.array(matrix(ss.dae.gy))
    flags0 = snapshot_flags(ss)
    names = list(ss.dae.x_name) + list(ss.dae.y_name)
    worst = []
    checked = 0
    for j in range(n + m):
        d = 1e-6 * max(1.0, abs(xy0[j]))
        e = np.zeros(n + m)
        e[j] = d
        rp = residual(xy0 + e)
        fp = snapshot_flags(ss)
        rm = residual(xy0 - e)
        fm = snapshot_flags(ss)
        if fp != flags0 or fm != flags0:
            continue                      # a discrete flag flips inside the stencil: the derivative is one-sided there
        col = (rp - rm) / (2 * d)
        err = np.abs(col - J[:, j])
        # rows of islanded buses are patched (diagonal eps) and residuals forced to zero: consistent by construction
        tol = 2e-4 * (1.0 + np.abs(J[:, j]))
        bad = np.where(err > tol)[0]
        checked += 1
        for i in bad:
            i = int(i)
            worst.append((('f ' if i < n else 'g ') + names[i], names[j], float(J[i, j]), float(col[i])))
    residual(xy0)
    return checked, worst


def snapshot_flags(ss):
    out = []
    for m in ss.exist.pflow_tds.values():
        for d in m.discrete.values():
            for f in d.export_flags if hasattr(d, 'export_flags') else ():
                v = getattr(d, f, None)
                if v is not None:
                    out.append(tuple(map(float, list(v) if hasattr(v, '__len__') else [v])))
    return tuple(out)


def run():
    import contextlib
    import io
    import logging
    import andes
    logging.getLogger('andes').setLevel(logging.CRITICAL)
    total = 0
    for case in CASES:
        with contextlib.redirect_stdout(io.StringIO()), contextlib.redirect_stderr(io.StringIO()):
            ss = andes.load(__import__('contracts.mixed_case', fromlist=['resolve']).resolve(case), default_config=True, no_output=True)
            ss.PFlow.run()
            ss.TDS.init()
            k, bad = fd_check(ss, case + ' after TDS.init')
            total += k
            label = case + ' after TDS.init'
            if not unlisted(case, bad):
                ss.Line.alter('u', ss.Line.idx.v[2], 0)
                label = case + ' after opening ' + str(ss.Line.idx.v[2])
                k, bad = fd_check(ss, label)
                total += k
            if not unlisted(case, bad):
                # parameters that enter the Jacobian only through blocks without any variable argument (machine damping, exciter gain)
                ss.GENROU.alter('D', ss.GENROU.idx.v[0], 3.0 + float(ss.GENROU.get('D', ss.GENROU.idx.v[0], 'vin')))
                exc = [m for m in (ss.EXDC2, ss.EXST1, ss.ESST3A) if m.n > 0][0]
                exc.alter('KA', exc.idx.v[0], 1.7 * float(exc.get('KA', exc.idx.v[0], 'vin')))
                label = case + ' after opening a line and altering GENROU.D and %s.KA' % exc.class_name
                k, bad = fd_check(ss, label)
                total += k
        for row, col, ja, jf in bad:
            if any(c == case and re.fullmatch(pr, row) and re.fullmatch(pc, col) for c, pr, pc in KNOWN):
                seen_known.append((case, row, col))
        new = unlisted(case, bad)
        if new:
            row, col, ja, jf = new[0]
            return total, {'case': label, 'observed': 'd(%s)/d(%s): assembled %.6g, finite difference %.6g (%d entries differ)' % (row, col, ja, jf, len(new))}
    return total, None


import re      # noqa

# F33: residual dependence through a VarService is not differentiated (approximate Jacobian by design)
KNOWN = [('ieee14/ieee14_full.xlsx', r'g (VB_x|IN) ESST3A \d+', r'(Id|Iq|vd|vq) GENROU \d+')]
seen_known = []


def unlisted(case, bad):
    return [b for b in bad if not any(c == case and re.fullmatch(pr, b[0]) and re.fullmatch(pc, b[1]) for c, pr, pc in KNOWN)]
