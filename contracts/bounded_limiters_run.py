"""
Bounded stand-in (labelled bounded): limiter flags and limited quantities during real simulations (stock cases with their events, run in
resumed segments so that the state can be inspected at several instants, some with binding limiters).  For every limiter with both
limits: the three flags are 0/1 and exactly one is set per device; with zi the input lies inside [lower, upper], with zu it is at or
above upper, with zl at or below lower (tolerance 5e-4, limits as the limiter sees them: signs, allowed adjustment); for anti-windup
limiters the state itself lies inside [lower, upper] and a pegged state has zero derivative.
"""
CASES = [('ieee14/ieee14_fault.xlsx', (0.5, 1.05, 1.2, 1.6, 2.5)), ('kundur/kundur_full.xlsx', (1.0, 2.05, 2.5, 3.5))]


def limits(d):
    import numpy as np
    up = -d.upper.v if getattr(d, 'sign_upper', None) is not None and np.all(d.sign_upper.v == -1) else d.upper.v
    lo = -d.lower.v if getattr(d, 'sign_lower', None) is not None and np.all(d.sign_lower.v == -1) else d.lower.v
    n = len(np.atleast_1d(d.u.v))
    return np.broadcast_to(np.asarray(lo, dtype=float), (n,)), np.broadcast_to(np.asarray(up, dtype=float), (n,))


def run():
    import contextlib
    import io
    import logging
    import numpy as np
    import andes
    from andes.core.discrete import Limiter, AntiWindup, SortedLimiter, RateLimiter, AntiWindupRate
    logging.getLogger('andes').setLevel(logging.CRITICAL)
    checked = binding = 0
    tol = 1e-6                 # anti-windup states are clamped exactly
    ftol = 5e-4                # flags are taken before the last Newton update (|increment| < tol = 1e-4)
    for case, stops in CASES:
        with contextlib.redirect_stdout(io.StringIO()), contextlib.redirect_stderr(io.StringIO()):
            ss = andes.load(andes.get_case(case), default_config=True, no_output=True)
            ss.PFlow.run()
        for tf in stops:
            with contextlib.redirect_stdout(io.StringIO()), contextlib.redirect_stderr(io.StringIO()):
                ss.TDS.config.tf = tf
                if not ss.TDS.run():
                    return checked, {'case': case, 'observed': 'run to t=%r failed' % tf}
            for mname, m in ss.models.items():
                if m.n == 0:
                    continue
                for dname, d in m.discrete.items():
                    if not isinstance(d, Limiter) or isinstance(d, (SortedLimiter, RateLimiter, AntiWindupRate)) or d.no_lower or d.no_upper:
                        continue
                    checked += 1
                    zi, zl, zu = [np.asarray(x, dtype=float) for x in (d.zi, d.zl, d.zu)]
                    lo, up = limits(d)
                    u = np.asarray(d.u.v, dtype=float)
                    where = {'case': case, 't': float(ss.dae.t), 'limiter': '%s.%s' % (mname, dname)}
                    if not (np.all(np.isin(zi, (0, 1))) and np.all(np.isin(zl, (0, 1))) and np.all(np.isin(zu, (0, 1))) and np.all(zi + zl + zu == 1)):
                        return checked, dict(where, observed='flags not a 0/1 partition: zi %r zl %r zu %r' % (zi.tolist(), zl.tolist(), zu.tolist()))
                    binding += int(np.any(zi == 0))
                    if isinstance(d, AntiWindup):
                        if np.any(u > up + tol) or np.any(u < lo - tol):
                            k = int(np.argmax(np.maximum(u - up, lo - u)))
                            return checked, dict(where, observed='anti-windup state %r outside [%r, %r] (device #%d)' % (float(u[k]), float(lo[k]), float(up[k]), k))
                    else:
                        bad = ((zi == 1) & ((u > up + ftol) | (u < lo - ftol))) | ((zu == 1) & (u < up - ftol)) | ((zl == 1) & (u > lo + ftol))
                        if np.any(bad):
                            k = int(np.argmax(bad))
                            return checked, dict(where, observed='device #%d: input %r, limits [%r, %r], flags zi/zl/zu = %r/%r/%r' % (
                                k, float(u[k]), float(lo[k]), float(up[k]), zi[k], zl[k], zu[k]))
    return checked, (None if binding > 0 else {'observed': 'no limiter was binding in any inspected instant: the check is vacuous'})


STORED_CASES = [('ieee14/ieee14_ac8b.xlsx', 3.0), ('ieee14/ieee14_fault.xlsx', 2.5), ('kundur/kundur_aw.xlsx', 3.0)]


def run_stored():
    """every stored instant of whole runs: the state behind each anti-windup limiter with constant limits stays inside [lower, upper]
    (tolerance 5e-4: five times the Newton tolerance of the run; the unchanged tree stays below 1e-4), and at least one such state sat on
    a limit and was released again (else the check would be vacuous)."""
    import contextlib
    import io
    import logging
    import os
    import numpy as np
    import andes
    from andes.core.discrete import AntiWindup, AntiWindupRate
    from andes.core.var import BaseVar
    logging.getLogger('andes').setLevel(logging.CRITICAL)
    tol = 5e-4
    checked = released = 0
    for case, tf in STORED_CASES:
        path = andes.get_case(case)
        if not os.path.isfile(path):
            continue
        with contextlib.redirect_stdout(io.StringIO()), contextlib.redirect_stderr(io.StringIO()):
            ss = andes.load(path, default_config=True, no_output=True)
            ss.PFlow.run()
            ss.TDS.config.tf = tf
            if not ss.TDS.run():
                return checked, {'case': case, 'observed': 'run to t=%r failed' % tf}
        t, X = np.array(ss.dae.ts.t), np.array(ss.dae.ts.x)
        for mname, m in ss.models.items():
            if m.n == 0:
                continue
            for dname, d in m.discrete.items():
                if not isinstance(d, AntiWindup) or isinstance(d, AntiWindupRate) or d.no_lower or d.no_upper:
                    continue
                if isinstance(d.lower, BaseVar) or isinstance(d.upper, BaseVar) or not hasattr(d.u, 'a') or len(np.atleast_1d(d.u.a)) == 0:
                    continue
                lo, up = limits(d)
                xs = X[:, np.atleast_1d(d.u.a)]
                checked += xs.size
                exc = np.maximum(xs - up[None, :], lo[None, :] - xs)
                at = exc >= -1e-7
                for k in range(xs.shape[1]):
                    idx = np.where(at[:, k])[0]
                    if len(idx) and np.any(~at[idx[0]:, k]):
                        released += 1
                if np.any(exc > tol):
                    i, k = np.unravel_index(int(np.argmax(exc)), exc.shape)
                    return checked, {'case': case, 'limiter': '%s.%s' % (mname, dname), 't': float(t[i]), 'device': int(k),
                                     'observed': 'stored state %r outside [%r, %r] by %.3e' % (float(xs[i, k]), float(lo[k]), float(up[k]), float(exc[i, k]))}
    return checked, (None if released > 0 else {'observed': 'no anti-windup state was pegged and released in any run: the check is vacuous'})


def run_moving_limit():
    """a state stays pegged at an upper limit that moves between two evaluations (limits that are variables: a low-voltage power logic, a
    voltage-dependent ceiling): after each evaluation the pegged state holds the limit of THAT evaluation, its derivative is zero, and the
    write-back entry (x_set) the integrator uses carries that same current value"""
    import numpy as np
    from andes.core.discrete import AntiWindup
    from contracts.fn_discrete import _P
    n = 0
    for limits in ((1.0, 0.6, 0.3), (0.9, 0.9), (1.0, 1.0, 0.2)):      # falling or constant limits: the state stays pegged
        st = _P([2.0], 'x')
        st.e = np.array([0.5])          # pushing against the upper limit all the time
        st.a = np.array([3])
        up = _P([limits[0]], 'upper')
        aw = AntiWindup(st, _P([-1.0], 'lower'), up)
        aw.list2array(1)
        aw.zu0 = np.zeros(1)
        aw.zl0 = np.zeros(1)
        for it, lim in enumerate(limits):
            n += 1
            up.v[:] = lim
            st.v[:] = max(st.v[0], lim + 0.1) if it == 0 else st.v      # first above the limit; later the value the integrator wrote back
            st.e[:] = 0.5
            aw.check_var()
            aw.check_eq(niter=0)
            what = {'upper limit over successive evaluations': list(limits[:it + 1]), 'derivative': 0.5}
            if float(st.v[0]) != lim or float(st.e[0]) != 0.0:
                return n, dict(what, observed='after evaluation %d the state is %r with derivative %r, the limit is %r' % (it, float(st.v[0]), float(st.e[0]), lim))
            entries = [(np.asarray(a).tolist(), np.asarray(v).tolist()) for a, v, _ in aw.x_set]
            if entries != [([3], [lim])]:
                return n, dict(what, observed='write-back entries after evaluation %d: %r, expected the current limit %r at address 3' % (it, entries, lim))
            st.v[:] = aw.x_set[0][1]          # what System.fg_to_dae writes into dae.x
    return n, None
