"""
Bounded stand-in (labelled bounded; exhaustive over the shipped library): the checksum that decides whether generated code is stale
(Model.get_md5) changes whenever one declared string the generator reads is changed.  For every shipped model and every variable
(v_str, v_iter, e_str, diag_eps), service (v_str, sequential) and discrete component (export_flags) the field is perturbed in place,
the checksum recomputed and the field restored.
"""


def run(models=None):
    import logging
    import andes
    logging.getLogger('andes').setLevel(logging.CRITICAL)
    ss = andes.System(default_config=True, no_undill=True, autogen_stale=False)
    n = 0
    for mname, m in ss.models.items():
        if models is not None and mname not in models:
            continue
        base = m.get_md5()
        if m.get_md5() != base:
            return n, {'model': mname, 'observed': 'two consecutive get_md5() calls differ'}

        def changed(obj, attr, new):
            old = getattr(obj, attr)
            setattr(obj, attr, new)
            try:
                return m.get_md5() != base
            finally:
                setattr(obj, attr, old)
        for vname, v in m.cache.all_vars.items():
            for attr in ('v_str', 'v_iter', 'e_str'):
                if getattr(v, attr, None) is not None:
                    n += 1
                    if not changed(v, attr, '(%s) + 0.25' % getattr(v, attr)):
                        return n, {'model': mname, 'field': '%s.%s' % (vname, attr), 'observed': 'checksum unchanged after the string was changed'}
            if getattr(v, 'diag_eps', None) is not None:
                n += 1
                if not changed(v, 'diag_eps', (v.diag_eps or 0.0) + 1e-3 if not isinstance(v.diag_eps, bool) else (not v.diag_eps)):
                    return n, {'model': mname, 'field': '%s.diag_eps' % vname, 'observed': 'checksum unchanged after the value was changed'}
        for sname, s in m.services.items():
            if getattr(s, 'v_str', None) is not None:
                n += 1
                if not changed(s, 'v_str', '(%s) + 0.25' % s.v_str):
                    return n, {'model': mname, 'field': '%s.v_str' % sname, 'observed': 'checksum unchanged after the string was changed'}
            n += 1
            if not changed(s, 'sequential', not s.sequential):
                return n, {'model': mname, 'field': '%s.sequential' % sname, 'observed': 'checksum unchanged after the flag was changed'}
        for dname, d in m.discrete.items():
            n += 1
            if not changed(d, 'export_flags', list(d.export_flags) + ['zq']):
                return n, {'model': mname, 'field': '%s.export_flags' % dname, 'observed': 'checksum unchanged after a flag was added'}
    return n, (None if n > 0 else {'observed': 'no field was perturbed'})
