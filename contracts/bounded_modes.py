"""
Bounded stand-in (labelled bounded): stock cases whose models have mode selectors (Switcher) are initialised once per allowed option
of every selector (all devices of the model set to that option; for the dual-input stabiliser the second input is given a non-zero
gain and time constant so that the selected signal matters), every disturbance disabled: TDS.init reports success with residuals
below tolerance and a 0.5 s undisturbed run stays put (tolerance 1e-3; the internal filter states of IEEEST listed as known finding
F32 are not compared).  Quick tier: stabilisers and ESST1A; thorough tier: also the renewable models.
"""
QUICK = [('kundur/kundur_st2cut.xlsx', 'ST2CUT', 'MODE', [1, 2, 3, 4, 5, 6], {}),
         ('kundur/kundur_st2cut.xlsx', 'ST2CUT', 'MODE2', [1, 2, 3, 4, 5, 6], {'K2': 1.0, 'T2': 0.5}),
         ('kundur/kundur_ieeest.xlsx', 'IEEEST', 'MODE', [1, 2, 3, 4, 5, 6], {}),
         ('ieee14/ieee14_esst1a.xlsx', 'ESST1A', 'UELc', [0, 1, 2, 3], {}), ('ieee14/ieee14_esst1a.xlsx', 'ESST1A', 'VOSc', [0, 1, 2], {})]
MORE = [('ieee14/ieee14_wt3.xlsx', m, p, [0, 1], {}) for m, p in (
    ('REECA1', 'PFFLAG'), ('REECA1', 'VFLAG'), ('REECA1', 'QFLAG'), ('REECA1', 'PFLAG'), ('REECA1', 'PQFLAG'), ('REPCA1', 'VCFlag'), ('REPCA1', 'RefFlag'),
    ('REPCA1', 'Fflag'), ('REPCA1', 'PLflag'), ('WTTQA1', 'Tflag'))] + [('ieee14/ieee14_pvd1.xlsx', 'PVD1', 'pqflag', [0, 1], {}), ('ieee14/ieee14_esd1.xlsx', 'ESD1', 'pqflag', [0, 1], {})]


def run(tier='quick'):
    import contextlib
    import io
    import logging
    import re
    import warnings
    import numpy as np
    import andes
    logging.getLogger('andes').setLevel(logging.CRITICAL)
    n = 0
    for case, mdl, par, options, extra in (QUICK + MORE if tier == 'thorough' else QUICK):
        for opt in options:
            n += 1
            with contextlib.redirect_stdout(io.StringIO()), contextlib.redirect_stderr(io.StringIO()), warnings.catch_warnings(), np.errstate(all='ignore'):
                warnings.simplefilter('ignore')
                # the selectors are set in the input data, i.e. before the system is set up (their flags are evaluated once)
                ss = andes.load(andes.get_case(case), default_config=True, no_output=True, setup=False)
                for evt in ('Toggle', 'Fault', 'Alter'):
                    m = getattr(ss, evt)
                    for i in list(m.idx.v):
                        m.alter('u', i, 0)
                M = ss.__dict__[mdl]
                for i in list(M.idx.v):
                    M.alter(par, i, opt)
                    for k, v in extra.items():
                        M.alter(k, i, v)
                ss.setup()
                ss.PFlow.run()
                ss.TDS.init()
                res = np.abs(np.array(ss.dae.fg))
                tol = ss.TDS.config.tol
                what = {'case': case, 'setting': '%s.%s = %r for every device%s' % (mdl, par, opt, ''.join(', %s = %r' % kv for kv in extra.items()))}
                if ss.TDS.test_ok is not True or not float(np.max(res)) < tol:
                    j = int(np.argmax(res))
                    return n, dict(what, observed='TDS.init: test_ok = %r, largest residual %.3e at <%s>' % (ss.TDS.test_ok, float(res[j]), ss.dae.xy_name[j]))
                xy0 = np.array(ss.dae.xy)
                ss.TDS.config.tf = 0.5
                ok = ss.TDS.run()
            keep = np.array([not re.fullmatch(r'(F1_x|F2_x1) IEEEST \d+', nm) for nm in ss.dae.xy_name])
            drift = np.abs(np.array(ss.dae.xy) - xy0) * keep
            if not ok or float(np.max(drift)) > 1e-3:
                j = int(np.argmax(drift))
                return n, dict(what, observed='undisturbed run: ok = %r, <%s> moved by %.3e within 0.5 s' % (ok, ss.dae.xy_name[j], float(drift[j])))
    return n, None
