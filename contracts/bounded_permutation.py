"""
Bounded stand-in (labelled bounded): results do not depend on the order in which devices are listed in the input.  The sheets of stock
xlsx cases are written back with their rows shuffled (seeded), both files are loaded, solved (power flow, time-domain run through the
stock event) and compared by variable NAME (names carry the device idx): the same set of names, values equal within 1e-6.  Every link
between devices is by idx, so addresses, links, back references and lookups must all follow the idx rather than the position.
"""
CASES = ['kundur/kundur_full.xlsx', 'ieee14/ieee14_full.xlsx', 'mixed:kundur']


def run(seed=0):
    import contextlib
    import io
    import logging
    import os
    import random
    import shutil
    import tempfile
    import numpy as np
    import pandas as pd
    import andes
    logging.getLogger('andes').setLevel(logging.CRITICAL)
    tmp = tempfile.mkdtemp(prefix='verif_perm_')
    n = 0
    try:
        for case in CASES:
            from contracts import mixed_case
            src = mixed_case.resolve(case)
            if src.endswith('.json'):
                import json
                with open(src) as fjs:
                    sheets = {k: pd.DataFrame(v) for k, v in json.load(fjs).items()}
            else:
                sheets = pd.read_excel(src, sheet_name=None, index_col=0)
            for trial in range(2):
                n += 1
                rnd = random.Random(seed * 100 + trial)
                path = os.path.join(tmp, 'perm%d.xlsx' % trial)
                with pd.ExcelWriter(path) as w:
                    for name, df in sheets.items():
                        order = list(range(len(df)))
                        rnd.shuffle(order)
                        df.iloc[order].reset_index(drop=True).to_excel(w, sheet_name=name)
                res = []
                for f in (src, path):
                    with contextlib.redirect_stdout(io.StringIO()), contextlib.redirect_stderr(io.StringIO()):
                        ss = andes.load(f, default_config=True, no_output=True)
                        ok = ss.PFlow.run()
                        ypf = dict(zip(ss.dae.y_name, np.array(ss.dae.y)))
                        ss.TDS.config.tf = 2.5
                        ok = ss.TDS.run() and ok
                    res.append((ok, ypf, dict(zip(list(ss.dae.x_name) + list(ss.dae.y_name), np.concatenate((ss.dae.x, ss.dae.y))))))
                what = {'case': case, 'rows of every sheet shuffled with seed': seed * 100 + trial}
                if not (res[0][0] and res[1][0]):
                    return n, dict(what, observed='a run failed (original: %r, shuffled: %r)' % (res[0][0], res[1][0]))
                for label, a, b in (('power flow', res[0][1], res[1][1]), ('end of the time-domain run', res[0][2], res[1][2])):
                    if set(a) != set(b):
                        return n, dict(what, observed='%s: variable names differ, e.g. %r' % (label, sorted(set(a) ^ set(b))[:3]))
                    worst = max(a, key=lambda k: abs(a[k] - b[k]))
                    if not abs(a[worst] - b[worst]) <= 1e-6:
                        return n, dict(what, observed='%s: %r = %.8g with the original order, %.8g with the shuffled order' % (label, worst, a[worst], b[worst]))
    finally:
        shutil.rmtree(tmp, ignore_errors=True)
    return n, None
