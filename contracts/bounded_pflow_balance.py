"""
Bounded stand-in (labelled bounded): end-to-end power balance of converged power flows against the *input data*.
Small networks are built through the public API (System.add / setup / PFlow.run) with every branch feature at once -- off-nominal
tap with a phase shift, asymmetric terminal shunts and line charging, device MVA / kV bases that differ from the system and bus
bases, a fixed shunt, constant-power loads, a PV and a slack unit -- and the bus admittance matrix is rebuilt here from the raw
input values (``vin``) with the textbook per-unit ratios and the pi-model.  Checked at every bus: |V conj(Y V) - S_scheduled| < 1e-5,
the PV / slack set-points, and that the same physical network entered on three different device bases has one solution.
"""
import numpy as np

TOL = 1e-5


def mismatch(ss):
    Sb = float(ss.config.mva)
    pos = {b: i for i, b in enumerate(ss.Bus.idx.v)}
    nb = ss.Bus.n
    kv = np.asarray(ss.Bus.Vn.vin, dtype=float)
    V = np.asarray(ss.Bus.v.v) * np.exp(1j * np.asarray(ss.Bus.a.v))
    Y = np.zeros((nb, nb), dtype=complex)
    L = ss.Line
    for k in range(L.n):
        if L.u.v[k] == 0:
            continue
        f, t = pos[L.bus1.v[k]], pos[L.bus2.v[k]]
        zn, zb = L.Vn1.vin[k] ** 2 / L.Sn.vin[k], kv[f] ** 2 / Sb
        ys = 1.0 / (complex(L.r.vin[k], L.x.vin[k]) * zn / zb)
        yf = complex(L.g1.vin[k] + L.g.vin[k] / 2, L.b1.vin[k] + L.b.vin[k] / 2) * zb / zn
        yt = complex(L.g2.vin[k] + L.g.vin[k] / 2, L.b2.vin[k] + L.b.vin[k] / 2) * zb / zn
        m = L.tap.vin[k] * np.exp(1j * L.phi.vin[k])
        Y[f, f] += (ys + yf) / abs(m) ** 2
        Y[f, t] += -ys / np.conj(m)
        Y[t, f] += -ys / m
        Y[t, t] += ys + yt
    for k in range(ss.Shunt.n):
        if ss.Shunt.u.v[k]:
            i = pos[ss.Shunt.bus.v[k]]
            Y[i, i] += complex(ss.Shunt.g.vin[k], ss.Shunt.b.vin[k]) * (kv[i] ** 2 / Sb) / (ss.Shunt.Vn.vin[k] ** 2 / ss.Shunt.Sn.vin[k])
    S = np.zeros(nb, dtype=complex)
    for k in range(ss.PQ.n):
        if ss.PQ.u.v[k]:
            S[pos[ss.PQ.bus.v[k]]] -= complex(ss.PQ.p0.vin[k], ss.PQ.q0.vin[k])
    for k in range(ss.PV.n):
        if ss.PV.u.v[k]:
            S[pos[ss.PV.bus.v[k]]] += complex(ss.PV.p0.vin[k], ss.PV.q.v[k])
    for k in range(ss.Slack.n):
        if ss.Slack.u.v[k]:
            S[pos[ss.Slack.bus.v[k]]] += complex(ss.Slack.p.v[k], ss.Slack.q.v[k])
    return V * np.conj(Y @ V) - S


def build(xf_sn, xf_vn1, line_sn, tap, phi):
    import andes
    kz = (230.0 ** 2 / 100.0) / (xf_vn1 ** 2 / xf_sn)          # system-base pu -> transformer-base pu
    kl = 100.0 / line_sn                                        # system MVA -> line MVA (same kV)
    ss = andes.System(default_config=True, no_output=True)
    for i, kvn in [(1, 230), (2, 230), (3, 230), (4, 115), (5, 115)]:
        ss.add('Bus', dict(idx=i, name='B%d' % i, Vn=kvn))
    ss.add('Slack', dict(idx='G1', bus=1, Vn=230, v0=1.03, a0=0.0))
    ss.add('PV', dict(idx='G2', bus=3, Vn=230, v0=1.02, p0=0.6))
    ss.add('PQ', dict(idx='LD2', bus=2, Vn=230, p0=0.9, q0=0.3))
    ss.add('PQ', dict(idx='LD4', bus=4, Vn=115, p0=0.4, q0=0.12))
    ss.add('PQ', dict(idx='LD5', bus=5, Vn=115, p0=0.15, q0=0.05))
    ss.add('Shunt', dict(idx='SH5', bus=5, Vn=110, Sn=50, g=0.002, b=0.08))
    ss.add('Line', dict(idx='L12', bus1=1, bus2=2, Vn1=230, Vn2=230, Sn=line_sn, r=0.010 / kl, x=0.08 / kl, b=0.12 * kl, g=0.004 * kl))
    ss.add('Line', dict(idx='L23', bus1=2, bus2=3, Vn1=230, Vn2=230, r=0.012, x=0.09, b=0.10, b1=0.03, g1=0.002, b2=0.01))
    ss.add('Line', dict(idx='L13', bus1=1, bus2=3, Vn1=230, Vn2=230, r=0.015, x=0.11, b=0.14))
    ss.add('Line', dict(idx='T24', bus1=2, bus2=4, Sn=xf_sn, Vn1=xf_vn1, Vn2=115, r=0.004 * kz, x=0.07 * kz, b=0.02 / kz, b1=0.015 / kz,
                        g2=0.003 / kz, trans=1, tap=tap, phi=phi))
    ss.add('Line', dict(idx='L45', bus1=4, bus2=5, Vn1=115, Vn2=115, r=0.02, x=0.10, b=0.02))
    ss.setup()
    return ss


def run():
    import logging
    logging.getLogger('andes').setLevel(logging.CRITICAL)
    n = 0
    for tap, phi in ((1.0, 0.0), (0.95, 0.0), (1.06, 0.04)):
        ref = None
        for label, xf_sn, xf_vn1, line_sn in (('system base', 100.0, 230.0, 100.0), ('transformer on 242 kV', 100.0, 242.0, 100.0),
                                              ('transformer on 242 kV / 150 MVA, line on 250 MVA', 150.0, 242.0, 250.0)):
            n += 1
            ss = build(xf_sn, xf_vn1, line_sn, tap, phi)
            ss.PFlow.config.report = 0
            what = {'tap': tap, 'phi': phi, 'bases': label}
            if not ss.PFlow.run():
                return n, dict(what, observed='power flow did not converge')
            mm = float(np.max(np.abs(mismatch(ss))))
            if not mm < TOL:
                worst = int(np.argmax(np.abs(mismatch(ss))))
                return n, dict(what, observed='power balance of the input data violated at bus %s: |dS| = %.3e' % (ss.Bus.idx.v[worst], mm))
            if abs(ss.Bus.v.v[0] - 1.03) > 1e-8 or abs(ss.Bus.a.v[0]) > 1e-8 or abs(ss.Bus.v.v[2] - 1.02) > 1e-8:
                return n, dict(what, observed='slack / PV set-point not met: V = %r' % np.round(ss.Bus.v.v, 8).tolist())
            sol = np.concatenate((ss.Bus.v.v, ss.Bus.a.v))
            if ref is None:
                ref = sol
            elif np.max(np.abs(sol - ref)) > 1e-6:
                return n, dict(what, observed='solution depends on the device base: max difference %.3e' % float(np.max(np.abs(sol - ref))))
            # the answer does not depend on what the object has been through: reset and solve again
            ss.reset()
            if not ss.PFlow.run():
                return n, dict(what, observed='power flow after System.reset() did not converge')
            again = np.concatenate((ss.Bus.v.v, ss.Bus.a.v))
            mm = float(np.max(np.abs(mismatch(ss))))
            if np.max(np.abs(again - sol)) > 1e-8 or not mm < TOL:
                return n, dict(what, observed='after System.reset() the power flow differs from the first solution by %.3e (balance of the input data %.3e)' % (
                    float(np.max(np.abs(again - sol))), mm))
    return n, None
