"""
Bounded stand-in (labelled bounded): every power-flow variant (full Newton, dishonest Newton, SciPy's Newton-Krylov) on stock cases: whenever
convergence is reported, the assembled residual re-evaluated at the returned point is small (1e-4) and the voltages agree with the full
Newton solution (1e-4).
"""
CASES = ['ieee39/ieee39.xlsx', 'kundur/kundur.raw', 'ieee14/ieee14.raw']


def run():
    import contextlib
    import io
    import logging
    import numpy as np
    import andes
    logging.getLogger('andes').setLevel(logging.CRITICAL)
    n = 0
    for case in CASES:
        ref = None
        for method in ('NR', 'dishonest', 'NK'):
            n += 1
            with contextlib.redirect_stdout(io.StringIO()), contextlib.redirect_stderr(io.StringIO()):
                ss = andes.load(andes.get_case(case), default_config=True, no_output=True, config_option=['PFlow.method=%s' % method])
                ok = ss.PFlow.run()
                if ok:
                    ss.PFlow.fg_update()
            what = {'case': case, 'PFlow.method': method}
            if ss.PFlow.config.method != method:
                return n, dict(what, observed='the configured method is %r' % ss.PFlow.config.method)
            if not ok:
                if method == 'NR':
                    return n, dict(what, observed='the full Newton method did not converge on a stock case')
                continue
            res = float(np.max(np.abs(ss.dae.g)))
            if not res < 1e-4:
                j = int(np.argmax(np.abs(ss.dae.g)))
                return n, dict(what, observed='convergence reported but the residual at the returned point is %.3e at <%s>' % (res, ss.dae.y_name[j]))
            sol = np.concatenate((ss.Bus.v.v, ss.Bus.a.v))
            if ref is None:
                ref = sol
            elif float(np.max(np.abs(sol - ref))) > 1e-4:
                return n, dict(what, observed='bus voltages differ from the full Newton solution by %.3e' % float(np.max(np.abs(sol - ref))))
    return n, None
