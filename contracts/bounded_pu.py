"""
Bounded stand-in (labelled bounded): on stock cases and on one case with a device on foreign bases, every numeric parameter that
carries a per-unit flag satisfies  v = vin * <textbook ratio for that flag>  with the ratio rebuilt here from the device ratings (Sn,
Vn / Vn1) and the base voltage of the bus the device sits on; unflagged parameters keep v = vin; after Model.alter the pair
(v, vin) of the altered device follows the same relation for both attribute modes.
"""
CASES = ['kundur/kundur_full.xlsx', 'ieee14/ieee14_full.xlsx', 'ieee14/ieee14_solar.xlsx']
FLAGS = ('power', 'ipower', 'voltage', 'current', 'z', 'y')


def ratios(ss, mdl):
    import numpy as np
    Sb = ss.config.mva
    n = mdl.n
    Sn = np.asarray(mdl.Sn.v if 'Sn' in mdl.__dict__ else np.full(n, Sb), dtype=float)
    Vb = Vn = np.ones(n)
    if 'bus' in mdl.__dict__:
        Vb = np.asarray(ss.Bus.get(src='Vn', idx=mdl.bus.v, attr='v'), dtype=float)
        Vn = np.asarray(mdl.Vn.v, dtype=float) if 'Vn' in mdl.__dict__ else Vb
    elif 'bus1' in mdl.__dict__:
        Vb = np.asarray(ss.Bus.get(src='Vn', idx=mdl.bus1.v, attr='v'), dtype=float)
        Vn = np.asarray(mdl.Vn1.v, dtype=float) if 'Vn1' in mdl.__dict__ else Vb
    Zn, Zb = Vn ** 2 / Sn, Vb ** 2 / Sb
    return {'power': Sn / Sb, 'ipower': Sb / Sn, 'voltage': Vn / Vb, 'current': (Sn / Vn) / (Sb / Vb), 'z': Zn / Zb, 'y': Zb / Zn}


def check_system(ss, label):
    import numpy as np
    n = 0
    for mname, mdl in ss.models.items():
        if mdl.n == 0 or 'node' in mdl.__dict__ or 'node1' in mdl.__dict__:
            continue
        r = ratios(ss, mdl)
        for pname, p in mdl.num_params.items():
            if p.vin is None or np.ndim(p.vin) != 1 or len(p.vin) != mdl.n:
                continue
            flags = [f for f in FLAGS if p.get_property(f)]
            if any(p.get_property(f) for f in ('dc_voltage', 'dc_current', 'r', 'g')):
                continue
            n += 1
            vin = np.asarray(p.vin, dtype=float)
            want = vin * (r[flags[0]] if flags else 1.0)
            if len(flags) > 1 or not np.allclose(np.asarray(p.v, dtype=float), want, rtol=1e-12, atol=1e-14, equal_nan=True):
                k = int(np.argmax(np.abs(np.nan_to_num(np.asarray(p.v, dtype=float) - want))))
                return n, {'case': label, 'observed': '%s.%s (flags %r) device %r: v = %r, vin = %r, vin * ratio = %r' % (
                    mname, pname, flags, mdl.idx.v[k], float(p.v[k]), float(vin[k]), float(want[k]))}
    return n, None


def run():
    import contextlib
    import io
    import logging
    import numpy as np
    import andes
    logging.getLogger('andes').setLevel(logging.CRITICAL)
    total = 0
    for case in CASES:
        with contextlib.redirect_stdout(io.StringIO()), contextlib.redirect_stderr(io.StringIO()):
            ss = andes.load(andes.get_case(case), default_config=True, no_output=True)
        n, bad = check_system(ss, case)
        total += n
        if bad:
            return total, bad
    # devices whose ratings differ from the system / bus bases, then alterations in both attribute modes
    with contextlib.redirect_stdout(io.StringIO()), contextlib.redirect_stderr(io.StringIO()):
        ss = andes.load(andes.get_case('ieee14/ieee14_full.xlsx'), default_config=True, no_output=True, setup=False)
        ss.add('Shunt', dict(idx='SHX', bus=5, Sn=40.0, Vn=0.92 * float(ss.Bus.Vn.v[4]), g=0.01, b=0.2))
        ss.add('Line', dict(idx='LX', bus1=4, bus2=5, Sn=250.0, Vn1=1.05 * float(ss.Bus.Vn.v[3]), Vn2=float(ss.Bus.Vn.v[4]), r=0.01, x=0.1,
                            b=0.05, g1=0.001, b2=0.02))
        ss.setup()
    n, bad = check_system(ss, 'ieee14_full + a shunt (40 MVA, 0.92 Vb) and a line (250 MVA, 1.05 Vb)')
    total += n
    if bad:
        return total, bad
    ss.Line.alter('x', 'LX', 0.2)                       # input-base value
    ss.Line.alter('b', 'LX', 0.01, attr='vin')       # attr='vin': the value given is the system-base value, vin follows
    ss.GENROU.alter('M', ss.GENROU.idx.v[0], 9.0)
    n, bad = check_system(ss, 'the same after Line.alter(x), Line.alter(b, attr=vin), GENROU.alter(M)')
    total += n
    k = ss.Line.idx2uid('LX')
    if not bad and (ss.Line.x.vin[k] != 0.2 or abs(ss.Line.b.v[k] - 0.01) > 1e-15 or ss.GENROU.M.vin[0] != 9.0):
        bad = {'case': 'alter', 'observed': 'after alter: x.vin %r (0.2), b.v %r (0.01), M.vin %r (9.0)' % (
            float(ss.Line.x.vin[k]), float(ss.Line.b.v[k]), float(ss.GENROU.M.vin[0]))}
    return total, bad
