"""
Bounded stand-in (labelled bounded): RateLimiter.check_eq -- the rate (the equation value of a state) is clamped to the lower rate limit
where it is below it AND the lower limit is enabled by ITS condition (no condition = enabled), likewise for the upper limit with its own
condition; a disabled limiter, or a side declared absent, changes nothing; inside the limits the block is the unlimited block.
Exhaustive over a grid: rates {-3, -1, 0, 1, 3}, limits (-2, 2), lower / upper condition in {none, 0, 1} independently, each side present or
absent, limiter enabled or not, two devices with different rates.  The real method runs on an object of the real class built without its
constructor (only the attributes check_eq reads are set).
"""


def run():
    import itertools
    import numpy as np
    from types import SimpleNamespace
    from andes.core.discrete import RateLimiter
    n = 0
    rates = (-3.0, -1.0, 0.0, 1.0, 3.0)
    for e0 in itertools.product(rates, repeat=2):
        for lc, uc, no_l, no_u, en in itertools.product((None, 0.0, 1.0), (None, 0.0, 1.0), (False, True), (False, True), (True, False)):
            lim = object.__new__(RateLimiter)
            lim.__dict__.update(enable=en, rate_no_lower=no_l, rate_no_upper=no_u, zlr=np.zeros(2), zur=np.zeros(2),
                                u=SimpleNamespace(e=np.array(e0)), rate_lower=SimpleNamespace(v=np.array([-2.0, -2.0])),
                                rate_upper=SimpleNamespace(v=np.array([2.0, 2.0])),
                                rate_lower_cond=None if lc is None else SimpleNamespace(v=np.array([lc, lc])),
                                rate_upper_cond=None if uc is None else SimpleNamespace(v=np.array([uc, uc])))
            n += 1
            RateLimiter.check_eq(lim)
            want = []
            for e in e0:
                if en and not no_l and e < -2.0 and lc != 0.0:
                    e = -2.0
                if en and not no_u and e > 2.0 and uc != 0.0:
                    e = 2.0
                want.append(e)
            got = np.asarray(lim.u.e, dtype=float).tolist()
            if got != want:
                return n, {'rates before': list(e0), 'rate limits': [-2.0, 2.0], 'lower condition': lc, 'upper condition': uc, 'lower side absent': no_l,
                           'upper side absent': no_u, 'limiter enabled': en,
                           'observed': 'rates after check_eq %r; each side clamps only under its own condition: %r' % (got, want)}
    return n, None
