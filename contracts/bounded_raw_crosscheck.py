"""
Bounded stand-in (labelled bounded): the PSS/E RAW reader (tokeniser and record functions) against the xlsx form of the SAME stock cases,
which the distribution ships side by side: for ieee14 and wecc every input-base parameter of Bus, Line, PQ, PV, Slack and Shunt read from
the .raw file equals the one read from the _full.xlsx file (same number of devices, same order; the thermal ratings rate_a/b/c, which the
xlsx files do not carry, are not compared).
"""
PAIRS = [('ieee14/ieee14.raw', 'ieee14/ieee14_full.xlsx'), ('wecc/wecc.raw', 'wecc/wecc_full.xlsx')]
SKIP = {'name', 'rate_a', 'rate_b', 'rate_c'}


def run():
    import contextlib
    import io
    import logging
    import numpy as np
    import andes
    logging.getLogger('andes').setLevel(logging.CRITICAL)
    n = 0
    for raw, xl in PAIRS:
        with contextlib.redirect_stdout(io.StringIO()), contextlib.redirect_stderr(io.StringIO()):
            a = andes.load(andes.get_case(raw), default_config=True, no_output=True)
            b = andes.load(andes.get_case(xl), default_config=True, no_output=True)
        if a is None or b is None:
            return n, {'files': [raw, xl], 'observed': 'a case could not be loaded'}
        for m in ('Bus', 'Line', 'PQ', 'PV', 'Slack', 'Shunt'):
            ma, mb = a.__dict__[m], b.__dict__[m]
            if ma.n != mb.n:
                return n, {'files': [raw, xl], 'model': m, 'observed': '%d devices read from the raw file, %d from the xlsx file' % (ma.n, mb.n)}
            if ma.n == 0:
                continue
            da, db = ma.as_df(vin=True), mb.as_df(vin=True)
            for col in da.columns:
                if col in SKIP or col not in db.columns:
                    continue
                n += 1
                try:
                    x, y = np.asarray(da[col], dtype=float), np.asarray(db[col], dtype=float)
                    same = np.allclose(x, y, rtol=1e-6, atol=1e-9, equal_nan=True)
                    detail = '' if same else 'largest difference %.6g at device #%d (%r vs %r)' % (
                        float(np.nanmax(np.abs(x - y))), int(np.nanargmax(np.abs(x - y))), float(x[int(np.nanargmax(np.abs(x - y)))]), float(y[int(np.nanargmax(np.abs(x - y)))]))
                except (TypeError, ValueError):
                    same = [str(v) for v in da[col]] == [str(v) for v in db[col]]
                    detail = '' if same else 'values %r vs %r' % (list(da[col])[:4], list(db[col])[:4])
                if not same:
                    return n, {'files': [raw, xl], 'model': m, 'parameter': col, 'observed': detail}
    return n, None
