"""
Bounded stand-in (labelled bounded): code regenerated inside a running process is the code that runs afterwards.  In a child process whose
home directory holds a copy of the generated code: a System is constructed (the generated package is imported), the residual string of
one model is edited (its constructor is patched), a second System is constructed in the same process -- the stale code is detected,
regenerated and reloaded -- and the function the model now calls must be the regenerated one (its source carries the edit, its md5 is
the model's).
"""
import os
import shutil
import subprocess
import sys
import tempfile

CHILD = r'''
import inspect, logging, sys
import andes
from andes.models.shunt.shunt import ShuntModel
logging.getLogger('andes').setLevel(logging.CRITICAL)
ss0 = andes.System(default_config=True)              # the generated package is imported in this process now
stale0 = list(ss0._find_stale_models().keys())
orig = ShuntModel.__init__
def edited(self, system=None, config=None):
    orig(self, system, config)
    self.v.e_str = '(%s) + 0.125' % self.v.e_str
ShuntModel.__init__ = edited
ss1 = andes.System(default_config=True)              # stale code of the edited models is detected, regenerated and reloaded
out = []
for mname in ('Shunt',):
    m = ss1.__dict__[mname]
    vals = m.calls.g(*[1.0] * len(m.calls.g_args))          # the function object in use, evaluated at all-ones
    out.append('%s:%s:%s' % (mname, any(abs((float(x) % 1) - 0.125) < 1e-12 for x in vals), m.get_md5() == m.calls.md5))
print('RESULT', stale0, ' '.join(out))
'''


def run():
    home = os.path.expanduser('~')
    src = os.path.join(home, '.andes', 'pycode')
    tmp = tempfile.mkdtemp(prefix='verif_regen_')
    try:
        if os.path.isdir(src):
            os.makedirs(os.path.join(tmp, '.andes'))
            shutil.copytree(src, os.path.join(tmp, '.andes', 'pycode'))
        env = dict(os.environ, HOME=tmp)
        r = subprocess.run([sys.executable, '-c', CHILD], env=env, capture_output=True, text=True, timeout=1800)
        line = [l for l in r.stdout.splitlines() if l.startswith('RESULT')]
        what = {'sequence': "System(); the declared residual of Shunt gets '+ 0.125' (constructor patched); System() again in the same process"}
        if not line:
            return 1, dict(what, observed='the child process produced no result: %s' % (r.stderr[-400:],))
        if 'Shunt:True:True' not in line[0]:
            return 1, dict(what, observed='model : the residual function it calls, evaluated, carries the edit : the md5 of the code in use is the md5 of the model -- %s' % line[0][7:])
    finally:
        shutil.rmtree(tmp, ignore_errors=True)
    return 1, None
