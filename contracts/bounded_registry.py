"""
Bounded stand-in (labelled bounded): device registries built through System.add with explicit, automatic, repeated, zero-valued and
mixed int / str indices, for a model that is alone in its group (Bus) and for two models sharing a group (PV, Slack in StaticGen).
After every call: the returned idx is registered, no idx is registered twice in a group, a free proposal is kept as given, a taken one
is replaced by an unused one; afterwards idx2uid / the uid maps give each device its position, the group maps each idx to the model that
owns it, and both lookups raise KeyError for an idx that was never registered.
"""


def _vector_forms(m, mine):
    """list, numpy-array, nested-list and with-None queries of Model.idx2uid return the positions of the devices, in query order"""
    import numpy as np
    want = list(range(len(mine)))
    forms = [('list', list(mine)), ('reversed list', list(mine)[::-1]), ('nested list', [list(mine[:1]), list(mine[1:])] if len(mine) > 1 else None),
             ('list with None', [None] + list(mine))]
    if mine and len(set(type(i) for i in mine)) == 1:
        forms.append(('numpy array', np.array(mine)))
    for what, q in forms:
        if q is None:
            continue
        try:
            got = list(m.idx2uid(q))
        except Exception as e:    # noqa
            return {'observed': 'idx2uid(%s %r) raised %r' % (what, q, e)}
        w = want[::-1] if what == 'reversed list' else ([None] + want if what == 'list with None' else want)
        if got != w:
            return {'observed': 'idx2uid(%s %r) = %r, the devices sit at positions %r' % (what, q, got, w)}
    return None


def run(seed=0):
    import logging
    import random
    import andes
    logging.getLogger('andes').setLevel(logging.CRITICAL)
    rnd = random.Random(seed)
    n = 0
    for trial in range(4):
        ss = andes.System(default_config=True, no_undill=True)
        proposals = [None, None, None, 0, '0', 1, '1', 7, 'Bus_2', 'Bus_3', 'PV_1', 'Slack_1', 'x', 2.0, 'PV_2']
        log = []
        ss.add('Bus', dict(Vn=110.0, idx=100))
        for step in range(30):
            model = rnd.choice(['Bus', 'Bus', 'PV', 'Slack'])
            prop = rnd.choice(proposals)
            group = ss.__dict__[ss.__dict__[model].group]
            taken_before = set(group._idx2model.keys()) if hasattr(group, '_idx2model') else set()
            params = dict(idx=prop)
            params.update(dict(Vn=110.0) if model == 'Bus' else dict(bus=100))
            n += 1
            got = ss.add(model, params)
            what = {'trial': trial, 'step': step, 'call': 'System.add(%r, idx=%r)' % (model, prop), 'registered before': sorted(map(repr, taken_before))}
            if prop is not None and prop not in taken_before and (got != prop or type(got) is not type(prop)):
                return n, dict(what, observed='free proposal %r was replaced by %r' % (prop, got))
            if got in taken_before:
                return n, dict(what, observed='returned idx %r was already registered in the group' % (got,))
            if got not in group._idx2model or group._idx2model[got] is not ss.__dict__[model]:
                return n, dict(what, observed='returned idx %r is not registered to %s in group %s' % (got, model, group.class_name))
            log.append((model, got))
        for mname in ('Bus', 'PV', 'Slack'):
            m = ss.__dict__[mname]
            mine = [g for (mm, g) in log if mm == mname]
            if mname == 'Bus':
                mine = [100] + mine
            n += 1
            if list(m.idx.v) != mine:
                return n, {'trial': trial, 'model': mname, 'observed': 'idx list %r, devices were added as %r' % (list(m.idx.v), mine)}
            for pos, idx in enumerate(mine):
                if m.idx2uid(idx) != pos or m.uid[idx] != pos:
                    return n, {'trial': trial, 'model': mname, 'observed': 'idx2uid(%r) = %r, uid map %r, device position %d' % (idx, m.idx2uid(idx), m.uid.get(idx), pos)}
            if len(set(map(repr, mine))) != len(mine):
                return n, {'trial': trial, 'model': mname, 'observed': 'an idx is registered twice: %r' % (mine,)}
            bad = _vector_forms(m, mine)
            if bad:
                return n, dict(bad, trial=trial, model=mname)
            for missing in ('never', -5):
                try:
                    r = m.idx2uid(missing)
                    return n, {'trial': trial, 'model': mname, 'observed': 'idx2uid(%r) returned %r for an idx that was never registered' % (missing, r)}
                except KeyError:
                    pass
        grp = ss.StaticGen
        for mm, g in log:
            if mm in ('PV', 'Slack') and grp.idx2model(g) is not ss.__dict__[mm]:
                return n, {'trial': trial, 'observed': 'StaticGen.idx2model(%r) is %r, the device belongs to %s' % (g, grp.idx2model(g), mm)}
    # registries of plain integers in every order of adding: consecutive numbers added out of order (first and last in place or not),
    # numbers with gaps, a one-based and a zero-based range; scalar, list, numpy-array and nested-list queries agree with the positions
    import itertools
    import numpy as np
    orders = [list(p) for p in itertools.permutations([1, 2, 3, 4])] + [[1, 3, 2, 4, 5], [0, 2, 1, 3], [5, 4, 3, 2, 1], [10, 12, 11, 13],
                                                                        [1, 2, 4, 3, 6, 5, 7], [3, 1, 2], [1, 2, 3, 5], [2, 4, 3, 1, 5]]
    for order in orders:
        ss = andes.System(default_config=True, no_undill=True)
        for i in order:
            ss.add('Bus', dict(Vn=110.0, idx=i))
        for i in order[::-1]:
            ss.add('PQ', dict(bus=i, idx=i, p0=0.01 * i))
        n += 1
        for m, mine in ((ss.Bus, order), (ss.PQ, order[::-1])):
            bad = _vector_forms(m, mine)
            if bad:
                return n, dict(bad, model=m.class_name, added_in_order=mine)
            for q in ([mine[0], mine[-1]], mine[1:], mine[::-1], sorted(mine), [mine[len(mine) // 2]] * 3):
                for form in (list(q), np.array(q)):
                    got = list(m.idx2uid(form))
                    want = [mine.index(i) for i in q]
                    if got != want:
                        return n, {'model': m.class_name, 'added_in_order': mine, 'observed': 'idx2uid(%r) = %r, the devices sit at positions %r' % (form, got, want)}
        # an idx that was never registered is refused -- also one that merely looks like a registered one (2.5 next to 2, '3' next to 3)
        for m, mine in ((ss.Bus, order), (ss.PQ, order[::-1])):
            for missing in (mine[0] + 0.5, str(mine[0]), '%d.0' % mine[-1], -1, 10 ** 6, mine[0] + 0.999999):
                for q in (missing, [mine[0], missing]):
                    try:
                        r = m.idx2uid(q)
                    except KeyError:
                        continue
                    return n, {'model': m.class_name, 'added_in_order': mine, 'observed': 'idx2uid(%r) returned %r; %r was never registered' % (q, r, missing)}
        grp = ss.ACTopology
        got = list(grp.idx2uid(sorted(order)))
        want = [order.index(i) for i in sorted(order)]
        if got != want:
            return n, {'group': 'ACTopology', 'added_in_order': order, 'observed': 'idx2uid(%r) = %r, positions are %r' % (sorted(order), got, want)}
    # generated names are tested against the whole GROUP: a device of another model may already carry the name the generator tries next
    for taken_by, auto_model in (('Slack', 'PV'), ('PV', 'Slack')):
        ss = andes.System(default_config=True, no_undill=True)
        ss.add('Bus', dict(Vn=110.0, idx=100))
        ss.add(taken_by, dict(bus=100))                                   # group count 1
        clash = '%s_%d' % (auto_model, 3)
        ss.add(taken_by, dict(bus=100, idx=clash))                        # group count 2: the other model will try '<auto_model>_3' next
        n += 1
        try:
            got = ss.add(auto_model, dict(bus=100))
        except Exception as e:      # noqa
            return n, {'sequence': "add(%r); add(%r, idx=%r); add(%r) without idx" % (taken_by, taken_by, clash, auto_model), 'observed': 'the last addition raised %r' % (e,)}
        grp = ss.StaticGen
        if got == clash or grp.idx2model(got) is not ss.__dict__[auto_model] or grp.idx2model(clash) is not ss.__dict__[taken_by] or grp.n != ss.PV.n + ss.Slack.n:
            return n, {'sequence': "add(%r); add(%r, idx=%r); add(%r) without idx" % (taken_by, taken_by, clash, auto_model),
                       'observed': 'generated idx %r; group size %d, models hold %d devices' % (got, grp.n, ss.PV.n + ss.Slack.n)}
    return n, None
