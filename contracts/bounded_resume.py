"""
Bounded stand-in (labelled bounded): a run that is interrupted and resumed (tf extended, TDS.run() again) ends in the same state as the
uninterrupted run, its time axis is strictly increasing without a duplicated stamp, hits every event time and ends at tf.
Case kundur_full (line trip at t = 2), splits well before, just before, exactly at and just after the event, and two splits in a row.
"""
SPLITS = [[1.0], [1.99], [2.0], [2.0001], [0.7, 2.3]]
TF = 3.0


def run():
    import contextlib
    import io
    import logging
    import numpy as np
    import andes
    logging.getLogger('andes').setLevel(logging.CRITICAL)

    def load():
        ss = andes.load(andes.get_case('kundur/kundur_full.xlsx'), default_config=True, no_output=True)
        ss.PFlow.run()
        return ss
    with contextlib.redirect_stdout(io.StringIO()), contextlib.redirect_stderr(io.StringIO()):
        ref = load()
        ref.TDS.config.tf = TF
        ok = ref.TDS.run()
    if not ok:
        return 0, {'observed': 'uninterrupted run failed'}
    n = 0
    for split in SPLITS:
        n += 1
        with contextlib.redirect_stdout(io.StringIO()), contextlib.redirect_stderr(io.StringIO()):
            ss = load()
            for tf in split + [TF]:
                ss.TDS.config.tf = tf
                if not ss.TDS.run():
                    return n, {'splits': split, 'observed': 'segment ending at %r failed' % tf}
        t = np.array(ss.dae.ts.t)
        if np.any(np.diff(t) <= 0):
            k = int(np.argmax(np.diff(t) <= 0))
            return n, {'splits': split, 'observed': 'time axis not strictly increasing around %r' % t[max(0, k - 1):k + 3].tolist()}
        if t[-1] != TF or not np.any(t == 2.0):
            return n, {'splits': split, 'observed': 'end time %r, event time 2.0 on the axis: %r' % (float(t[-1]), bool(np.any(t == 2.0)))}
        dx = float(np.max(np.abs(ss.dae.x - ref.dae.x)))
        dy = float(np.max(np.abs(ss.dae.y - ref.dae.y)))
        if max(dx, dy) > 1e-4:
            return n, {'splits': split, 'observed': 'final state differs from the uninterrupted run: max|dx| = %.3e, max|dy| = %.3e' % (dx, dy)}
    return n, None
