"""
Bounded stand-in (labelled bounded) for the small-signal benchmark of C07: on kundur_full with all events disabled the states are
displaced by 1e-3 along the real part of an eigenvector of the reduced state matrix and simulated for 1 s; the displacement of the
states must follow  expm(As t) dx0  (computed here with scipy): relative deviation below 6e-2 at h = 1/120 s and not larger at
h = 1/240 s, for three modes and both integration methods (backward Euler: the deviation must shrink with the step).
"""


def run(tier='quick'):
    import contextlib
    import io
    import logging
    import numpy as np
    from scipy.linalg import expm
    import andes
    logging.getLogger('andes').setLevel(logging.CRITICAL)
    case = andes.get_case('kundur/kundur_full.xlsx')

    def prepared(method, h):
        ss = andes.load(case, default_config=True, no_output=True, config_option=['TDS.method=%s' % method])
        for tg in list(ss.Toggle.idx.v):
            ss.Toggle.alter('u', tg, 0)
        ss.PFlow.run()
        ss.TDS.config.tstep, ss.TDS.config.fixt, ss.TDS.config.tf, ss.TDS.config.tol = h, 1, 1.0, 1e-8
        ss.TDS.init()
        return ss
    with contextlib.redirect_stdout(io.StringIO()), contextlib.redirect_stderr(io.StringIO()):
        base = prepared('trapezoid', 1 / 120.0)
        base.EIG.run()
    As = np.array(base.EIG.As)
    mu, vec = np.linalg.eig(As)
    if As.shape[0] != base.dae.n:
        return 0, None                                   # states were eliminated: the reduced matrix is not in dae.x order
    osc = [k for k in np.argsort(-np.abs(mu.imag)) if mu.imag[k] > 0.5][:3 if tier == 'quick' else 5]
    n = 0
    for k in osc:
        dx0 = np.real(vec[:, k])
        dx0 = 1e-3 * dx0 / np.max(np.abs(dx0))
        for method in (('trapezoid', 'backeuler') if tier == 'thorough' else ('trapezoid',)):
            errs = []
            for h in (1 / 120.0, 1 / 240.0):
                n += 1
                with contextlib.redirect_stdout(io.StringIO()), contextlib.redirect_stderr(io.StringIO()):
                    ss = prepared(method, h)
                    x0 = ss.dae.x.copy()
                    ss.dae.x[:] = x0 + dx0
                    ss.vars_to_models()
                    ok = ss.TDS.run()
                if not ok:
                    return n, {'mode': complex(mu[k]), 'method': method, 'h': h, 'observed': 'simulation failed'}
                t, x = np.array(ss.dae.ts.t), np.array(ss.dae.ts.x)
                sel = np.arange(0, len(t), max(1, len(t) // 25))
                dev = 0.0
                for i in sel:
                    ref = np.real(expm(As * t[i]) @ dx0)
                    dev = max(dev, float(np.max(np.abs((x[i] - x0) - ref))))
                errs.append(dev / 1e-3)
            bad = (errs[0] > 6e-2 or errs[1] > 1.1 * errs[0] + 1e-4) if method == 'trapezoid' else (errs[1] > 0.8 * errs[0] + 1e-4)
            if bad:
                return n, {'mode': '%.4f%+.4fj' % (mu[k].real, mu[k].imag), 'method': method,
                           'observed': 'relative deviation from expm(As t) dx0: %.3e at h=1/120, %.3e at h=1/240' % (errs[0], errs[1])}
    return n, None
