"""
Bounded stand-in (labelled bounded) for the single-machine benchmark of C07: the stock SMIB case (classical machine at bus 1, a 1e9 MVA
machine at bus 2 as the infinite bus, three lines, bolted fault at bus 3) with inertia, damping, transient reactance, machine MVA base, loading, fault and
line-trip times varied, simulated with both integration methods at h = 1/240 s, against an independent solution: the two-machine
classical model written here (internal EMFs behind x'd, bus admittance matrix rebuilt from the line data for every switching
interval, swing equations with M on the left) integrated by scipy's DOP853 at rtol 1e-10.  Checked over 2.5 s: with the trapezoid rule the rotor angle of machine 1 relative to machine 2 stays within 3e-3 rad of the reference
and halving the step does not increase the error; with backward Euler (first order) halving the step shrinks the error by at least a quarter.
"""


def simulate(case, method, h, D, M, xd1, p0, events, tf, Sn=100.0):
    import contextlib
    import io
    import numpy as np
    import andes
    with contextlib.redirect_stdout(io.StringIO()), contextlib.redirect_stderr(io.StringIO()):
        ss = andes.load(case, default_config=True, no_output=True, setup=False, config_option=['TDS.method=%s' % method])
        ss.GENCLS.alter('Sn', 'GENCLS_1', Sn)
        ss.GENCLS.alter('D', 'GENCLS_1', D)
        ss.GENCLS.alter('M', 'GENCLS_1', M)
        ss.GENCLS.alter('xd1', 'GENCLS_1', xd1)
        ss.PV.alter('p0', 'PV_1', p0)
        ss.Fault.alter('tf', 'Fault_1', events['tf'])
        ss.Fault.alter('tc', 'Fault_1', events['tc'])
        if events.get('trip') is not None:
            ss.add('Toggle', dict(model='Line', dev='Line_3', t=events['trip']))
        if events.get('reclose') is not None:
            ss.add('Toggle', dict(model='Line', dev='Line_3', t=events['reclose']))
        ss.setup()
        ss.PFlow.run()
        ss.TDS.config.tf = tf
        ss.TDS.config.tstep = h
        ss.TDS.config.fixt = 1
        ss.TDS.config.tol = 1e-8
        ok = ss.TDS.run()
    t = np.array(ss.dae.ts.t)
    x = np.array(ss.dae.ts.x)
    d1 = x[:, ss.GENCLS.delta.a[0]] - x[:, ss.GENCLS.delta.a[1]]
    return ss, ok, t, d1


def reference(ss0, events, tf, t_eval):
    """two-machine classical model from the input data of the loaded (not yet simulated) system"""
    import numpy as np
    from scipy.integrate import solve_ivp
    g = ss0.GENCLS
    Sb = ss0.config.mva
    k = np.asarray(g.Sn.v, dtype=float) / Sb
    xd = np.asarray(g.xd1.vin, dtype=float) / k          # machine-base reactance -> system base
    M = np.asarray(g.M.vin, dtype=float) * k
    D = np.asarray(g.D.vin, dtype=float) * k
    fn = float(g.fn.v[0])
    pos = {b: i for i, b in enumerate(ss0.Bus.idx.v)}
    gb = [pos[b] for b in g.bus.v]
    V = ss0.Bus.v.v * np.exp(1j * ss0.Bus.a.v)
    L = ss0.Line

    def ybus(line3_on, fault_on):
        Y = np.zeros((3, 3), dtype=complex)
        for kk in range(L.n):
            if L.idx.v[kk] == 'Line_3' and not line3_on:
                continue
            f, t = pos[L.bus1.v[kk]], pos[L.bus2.v[kk]]
            y = 1.0 / complex(L.r.vin[kk] + 1e-8, L.x.vin[kk] + 1e-8)
            Y[f, f] += y
            Y[t, t] += y
            Y[f, t] -= y
            Y[t, f] -= y
        for i, b in enumerate(gb):
            Y[b, b] += 1.0 / (1j * xd[i])
        if fault_on:
            Y[pos[ss0.Fault.bus.v[0]], pos[ss0.Fault.bus.v[0]]] += 1.0 / complex(ss0.Fault.rf.v[0], ss0.Fault.xf.v[0])
        return Y
    # initial EMFs from the power-flow solution: generator current = bus injection of the static generator it replaces
    Y0 = ybus(True, False)
    Ynet = Y0.copy()
    for i, b in enumerate(gb):
        Ynet[b, b] -= 1.0 / (1j * xd[i])
    Iinj = Ynet @ V
    E = np.array([V[b] + 1j * xd[i] * Iinj[b] for i, b in enumerate(gb)])
    Emag, d0 = np.abs(E), np.angle(E)
    Pm = np.array([np.real(E[i] * np.conj(Iinj[b])) for i, b in enumerate(gb)])

    def pe(delta, Y):
        Ee = Emag * np.exp(1j * delta)
        I = np.zeros(3, dtype=complex)
        for i, b in enumerate(gb):
            I[b] += Ee[i] / (1j * xd[i])
        Vb = np.linalg.solve(Y, I)
        return np.array([np.real(Ee[i] * np.conj((Ee[i] - Vb[b]) / (1j * xd[i]))) for i, b in enumerate(gb)])
    times = sorted(set([0.0, tf] + [v for v in events.values() if v is not None and 0 < v < tf]))
    y = np.concatenate((d0, np.ones(2)))
    out_t, out_d = [], []
    for a, b_ in zip(times[:-1], times[1:]):
        mid = 0.5 * (a + b_)
        fault_on = events['tf'] <= mid < events['tc']
        trip, rec = events.get('trip'), events.get('reclose')
        line3_on = not (trip is not None and mid >= trip and (rec is None or mid < rec))
        Y = ybus(line3_on, fault_on)

        def rhs(t, s, Y=Y):
            d, w = s[:2], s[2:]
            return np.concatenate((2 * np.pi * fn * (w - 1.0), (Pm - pe(d, Y) - D * (w - 1.0)) / M))
        te = t_eval[(t_eval >= a) & (t_eval <= b_)]
        sol = solve_ivp(rhs, (a, b_), y, method='DOP853', rtol=1e-10, atol=1e-12, t_eval=te)
        out_t.extend(sol.t.tolist())
        out_d.extend((sol.y[0] - sol.y[1]).tolist())
        y = sol.y[:, -1] if len(sol.t) and sol.t[-1] == b_ else solve_ivp(rhs, (a, b_), y, method='DOP853', rtol=1e-10, atol=1e-12).y[:, -1]
    table = {}
    for a_, b2 in zip(out_t, out_d):
        table[a_] = b2            # at a switching instant the states are continuous: either value
    ts = np.array(sorted(table))
    return ts, np.array([table[x] for x in ts])


def run(tier='quick'):
    import contextlib
    import io
    import logging
    import numpy as np
    import andes
    logging.getLogger('andes').setLevel(logging.CRITICAL)
    case = andes.get_case('smib/SMIB.json')
    variants = [dict(D=1.0, M=5.7512, xd1=0.245, p0=0.9, events=dict(tf=0.1, tc=0.2, trip=None, reclose=None)),
                dict(D=4.0, M=3.2, xd1=0.75, p0=0.7, Sn=250.0, events=dict(tf=2.0 / 9.0, tc=0.2718281828459045, trip=0.5235987755982988, reclose=0.9 / 0.99))]       # machine base 250 MVA
    if tier == 'thorough':
        variants += [dict(D=0.0, M=4.0, xd1=0.2, p0=0.6, events=dict(tf=0.13, tc=0.21, trip=0.21, reclose=None)),
                     dict(D=2.5, M=12.0, xd1=0.35, p0=0.5, events=dict(tf=0.3, tc=0.36, trip=None, reclose=None))]
    n = 0
    tf = 2.5
    for var in variants:
        for method in ('trapezoid', 'backeuler'):
            errs = []
            for h in ((1 / 120.0, 1 / 240.0) if method == 'trapezoid' else (1 / 240.0, 1 / 480.0)):
                n += 1
                ss, ok, t, d1 = simulate(case, method, h, tf=tf, **var)
                what = dict(var, method=method, h=h)
                if not ok:
                    return n, dict(what, observed='simulation failed')
                with contextlib.redirect_stdout(io.StringIO()), contextlib.redirect_stderr(io.StringIO()):
                    ss0 = andes.load(case, default_config=True, no_output=True, setup=False)
                    ss0.GENCLS.alter('Sn', 'GENCLS_1', var.get('Sn', 100.0))
                    ss0.GENCLS.alter('D', 'GENCLS_1', var['D'])
                    ss0.GENCLS.alter('M', 'GENCLS_1', var['M'])
                    ss0.GENCLS.alter('xd1', 'GENCLS_1', var['xd1'])
                    ss0.PV.alter('p0', 'PV_1', var['p0'])
                    ss0.setup()
                    ss0.PFlow.run()
                tu, iu = np.unique(t, return_index=True)
                rt, rd = reference(ss0, var['events'], tf, tu)
                common = np.isin(tu, rt)
                err = float(np.max(np.abs(d1[iu][common] - rd[np.isin(rt, tu[common])]))) if np.any(common) else float('inf')
                errs.append(err)
            # trapezoid (order 2): inside a band and not growing; backward Euler (order 1, strongly damped): error shrinks with the step
            bad = (errs[-1] > 3e-3 or errs[-1] > 1.05 * errs[0] + 1e-6) if method == 'trapezoid' else (errs[-1] > 0.75 * errs[0] or errs[0] > 0.6)
            if bad:
                return n, dict(var, method=method, observed='max rotor-angle deviation from the independent solution: %.3e at the coarser step, %.3e at '
                               'the finer step' % (errs[0], errs[1]))
    return n, None
