"""
Bounded stand-in (labelled bounded): on stock cases with their events, every accepted step of the stored series satisfies the implicit
trapezoid rule  |T (x1 - x0) - h/2 (f1 + f0)| <= 50 tol  (f stored with config.store_f), the time stamps increase strictly, a step ends
exactly at every scheduled event time and the run ends exactly at tf.
"""
CASES = [('kundur/kundur_full.xlsx', 3.0), ('mixed:kundur', 3.0), ('ieee14/ieee14_fault.xlsx', 2.0), ('ieee14/ieee14_fault.json@tstep=0.4', 5.0)]       # the last one rejects and retries a step


def run():
    import contextlib
    import io
    import logging
    import numpy as np
    import andes
    logging.getLogger('andes').setLevel(logging.CRITICAL)
    n = 0
    for case, tf in CASES:
        case, _, opt = case.partition('@')
        with contextlib.redirect_stdout(io.StringIO()), contextlib.redirect_stderr(io.StringIO()):
            ss = andes.load(__import__('contracts.mixed_case', fromlist=['resolve']).resolve(case), default_config=True, no_output=True)
            ss.TDS.config.store_f = 1
            ss.TDS.config.tf = tf
            if opt.startswith('tstep='):
                ss.TDS.config.tstep = float(opt[6:])
            ss.PFlow.run()
            ok = ss.TDS.run()
        t, x, f, Tf = np.array(ss.dae.ts.t), np.array(ss.dae.ts.x), np.array(ss.dae.ts.f), np.array(ss.dae.Tf)
        tol = ss.TDS.config.tol
        if not ok or ss.exit_code != 0:
            return n, {'case': case, 'observed': 'run failed (%r, exit code %r)' % (ok, ss.exit_code)}
        if np.any(np.diff(t) <= 0):
            k = int(np.argmax(np.diff(t) <= 0))
            return n, {'case': case, 'observed': 'time stamps not strictly increasing: %r' % t[k:k + 3].tolist()}
        if t[-1] != tf:
            return n, {'case': case, 'observed': 'run ended at t=%r, requested tf=%r' % (float(t[-1]), tf)}
        for ts in ss.switch_times:
            if 0 < ts <= tf and not np.any(t == ts):
                return n, {'case': case, 'observed': 'no step ends exactly at the scheduled time %r' % float(ts)}
        for k in range(1, len(t)):
            n += 1
            h = t[k] - t[k - 1]
            r = np.abs(Tf * (x[k] - x[k - 1]) - 0.5 * h * (f[k] + f[k - 1]))
            if np.max(r) > 50 * tol:
                j = int(np.argmax(r))
                return n, {'case': case, 'observed': 'step ending at t=%r violates the trapezoid rule for %r: residual %.3e (50 tol = %.1e)' % (
                    float(t[k]), ss.dae.x_name[j], float(r[j]), 50 * tol)}
    return n, None


def model_time_constants(ss):
    """the time constant of every state as the models declare it now (not dae.Tf): 1 where none is declared"""
    import numpy as np
    T = np.ones(ss.dae.n)
    for m in ss.exist.tds.values():
        if m.n == 0:
            continue
        for st in m.states.values():
            if st.t_const is not None and len(np.atleast_1d(st.a)) > 0:
                T[st.a] = st.t_const.v
    return T


def run_altered():
    """a time constant changed between two segments of a run (GENROU.M of one machine doubled at t = 0.5 s through Model.alter): every
    step accepted afterwards satisfies the rule with the time constants the models hold NOW, including the steps after the line trip"""
    import contextlib
    import io
    import logging
    import numpy as np
    import andes
    logging.getLogger('andes').setLevel(logging.CRITICAL)
    case = 'kundur/kundur_full.xlsx'
    with contextlib.redirect_stdout(io.StringIO()), contextlib.redirect_stderr(io.StringIO()):
        ss = andes.load(andes.get_case(case), default_config=True, no_output=True)
        ss.TDS.config.store_f = 1
        ss.PFlow.run()
        ss.TDS.config.tf = 0.5
        ok = ss.TDS.run()
        dev = ss.GENROU.idx.v[1]
        ss.GENROU.alter('M', dev, 2.0 * ss.GENROU.get('M', dev, 'vin'))
        ss.TDS.config.tf = 3.0
        ok = ok and ss.TDS.run()
    if not ok:
        return 0, {'case': case, 'observed': 'run with a parameter change at t=0.5 failed'}
    T = model_time_constants(ss)
    t, x, f = np.array(ss.dae.ts.t), np.array(ss.dae.ts.x), np.array(ss.dae.ts.f)
    tol = ss.TDS.config.tol
    n = 0
    for k in range(1, len(t)):
        if t[k - 1] < 0.5:
            continue
        n += 1
        h = t[k] - t[k - 1]
        r = np.abs(T * (x[k] - x[k - 1]) - 0.5 * h * (f[k] + f[k - 1]))
        if np.max(r) > 50 * tol:
            j = int(np.argmax(r))
            return n, {'case': case, 'sequence': 'run to 0.5 s; GENROU.alter("M", %r, 2 M); run to 3 s' % (dev,),
                       'observed': 'step ending at t=%r violates the trapezoid rule with the model\'s time constant for %r: residual %.3e (50 tol = %.1e)' % (
                           float(t[k]), ss.dae.x_name[j], float(r[j]), 50 * tol)}
    return n, (None if n > 0 else {'observed': 'no step after the parameter change'})
