"""
Bounded stand-in (labelled bounded): TimeSeries.apply_exact on a stub device with small data frames -- sorted stamps, a leading row
before t0 (t = -1), rows out of chronological order, duplicate stamps, an offline device that is enabled later.  At every time of a
schedule exactly the rows stamped with that time are applied (field -> destination of the addressed device), nothing otherwise.
"""


def run():
    from types import SimpleNamespace
    import numpy as np
    import pandas as pd
    from andes.models.timeseries import TimeSeriesModel
    from contracts.packutil import Stub
    frames = {
        'sorted': [(0.0, 1.0), (1.0, 2.0), (2.0, 3.0)],
        'row before t0 first': [(-1.0, 9.0), (0.0, 1.0), (1.0, 2.0), (1.5, 2.5)],
        'unsorted': [(0.0, 1.0), (2.0, 3.0), (1.0, 2.0), (1.5, 2.5)],
        'duplicate stamp': [(0.0, 1.0), (1.0, 2.0), (1.0, 2.0), (2.0, 3.0)],
    }
    schedule = [0.0, 0.4999, 0.5, 1.0, 1.0001, 1.5, 2.0, 2.5]
    n = 0
    for label, rows in frames.items():
        for online_from in (0.0, 1.2):
            n += 1
            df = pd.DataFrame({'t': [r[0] for r in rows], 'p': [r[1] for r in rows]})
            calls = []
            target = SimpleNamespace(set=lambda dest, dev, attr, value: calls.append((dest, dev, attr, float(value))))
            u = np.array([1.0 if online_from == 0.0 else 0.0])
            stub = Stub(_cls=TimeSeriesModel, n=1, u=SimpleNamespace(v=u), SW=SimpleNamespace(s1=np.array([1.0])), idx=SimpleNamespace(v=['TS1']),
                        _data={'TS1': df}, tkey=SimpleNamespace(v=['t']), fields=SimpleNamespace(v=[['p']]), dests=SimpleNamespace(v=[['p0']]),
                        model=SimpleNamespace(v=['PQ']), dev=SimpleNamespace(v=['PQ_1']), config=SimpleNamespace(silent=1),
                        system=SimpleNamespace(__dict__={'PQ': target}))
            stub.system.__dict__['PQ'] = target
            for t in schedule:
                if t >= online_from:
                    u[0] = 1.0
                del calls[:]
                TimeSeriesModel.apply_exact(stub, np.array(t))
                rows_now = [v for (ts, v) in rows if ts == t] if u[0] == 1.0 else []
                want = [('p0', 'PQ_1', 'v', rows_now[0])] if rows_now else []
                if calls != want:
                    return n, {'data': label, 'rows (t, p)': rows, 'device online from': online_from, 't': t,
                               'observed': 'applied %r, expected %r' % (calls, want)}
    return n, None
