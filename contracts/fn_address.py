"""Contracts for C10: DAE.request_address, BaseVar.set_address, ExtVar.link_external, System.set_address."""
import z3

from pyvc.symex import Contract, Loop, spec, View, Outcomes, to_z3, as_real
from pyvc.symval import Mark
from pyvc.symval import (TArr, TBool, TFloat, TInt, TObj, TOpaque, TReal, TSeq, TStr, TConst, NR, TOptional, fresh, I, R,
                         MaybeNone, Func, Opaque, TNone, Module, Ref, ArrC, ListC, DictC, Unsupported, TColl, Obj, SeqC, Bo)

FD = 'andes/variables/dae.py'
FV = 'andes/core/var.py'
FS = 'andes/system.py'

IA = z3.ArraySort(I, I)


def request_address(pid, array_name='x', collate=False):
    """DAE.request_address: returns nvar arrays of ndevice addresses each; together they are exactly
    [c, c + ndevice*nvar), pairwise disjoint; the counter advances by ndevice*nvar, other counters untouched."""
    counter = {'x': 'n', 'y': 'm'}[array_name]
    sch = {'self.n': TInt(), 'self.m': TInt(), 'self.o': TInt(), 'self.p': TInt(), 'self.q': TInt(),
           'self._array_and_counter': TConst(None)}

    def mk_dict(st):
        return st.new_ref(DictC({'f': 'n', 'x': 'n', 'g': 'm', 'y': 'm', 'z': 'o', 'h': 'p', 'i': 'q'}), 'aac')

    # ghost description of the returned list: block i = arange(lo[i], hi[i], step[i])
    def append_hook(ex, st, args, kw, node):
        base, item = args[0], args[1]
        if not (isinstance(item, tuple) and item and item[0] == 'arange'):
            return NotImplemented
        _, lo, hi, step = item
        g = st.ghost
        g['lo'], g['hi'], g['step'] = z3.Store(g['lo'], g['cnt'], lo), z3.Store(g['hi'], g['cnt'], hi), z3.Store(g['step'], g['cnt'], step)
        g['cnt'] = g['cnt'] + 1
        return None

    def arange_h(ex, st, args, kw, node):
        lo, hi = to_z3(args[0]), to_z3(args[1])
        step = to_z3(args[2]) if len(args) > 2 else z3.IntVal(1)
        return ('arange', lo, hi, step)

    def getitem(ex, st, args, kw, node):
        raise Unsupported('getitem')

    def inv(v):
        g = v.st.ghost
        i = v.local('$i0')
        nd, nv = to_z3(v.local('ndevice')), to_z3(v.local('nvar'))
        b = to_z3(v.local('idx_begin'))
        e = to_z3(v.local('idx_end'))
        j = fresh('j', I)
        if not collate:
            body = z3.And(g['lo'][j] == b + j * nd, g['hi'][j] == b + (j + 1) * nd, g['step'][j] == 1)
        else:
            body = z3.And(g['lo'][j] == b + j, g['hi'][j] == e, g['step'][j] == nv)
        return z3.And(g['cnt'] == i, z3.ForAll([j], z3.Implies(z3.And(j >= 0, j < i), body)))

    def addr(g, i, k):
        return g['lo'][i] + k * g['step'][i]

    def post_blocks(old, new, res):
        """address of device k in variable i (ghost view of the returned arrays)"""
        g = new.st.ghost
        nd, nv = to_z3(old.local('ndevice')), to_z3(old.local('nvar'))
        c = old.z('self.' + counter)
        i, k = fresh('i', I), fresh('k', I)
        want = (c + i * nd + k) if not collate else (c + i + k * nv)
        inb = z3.And(i >= 0, i < nv, k >= 0, k < nd)
        # each returned arange has exactly ndevice elements: lo + (nd-1)*step < hi <= lo + nd*step
        length = z3.And(g['lo'][i] + (nd - 1) * g['step'][i] < g['hi'][i], g['hi'][i] <= g['lo'][i] + nd * g['step'][i],
                        g['step'][i] >= 1)
        return z3.And(g['cnt'] == nv, z3.ForAll([i, k], z3.Implies(inb, addr(g, i, k) == want)),
                      z3.ForAll([i], z3.Implies(z3.And(i >= 0, i < nv, nd > 0), length)))

    def post_counter(old, new, res):
        nd, nv = to_z3(old.local('ndevice')), to_z3(old.local('nvar'))
        return new.z('self.' + counter) == old.z('self.' + counter) + nd * nv

    c = Contract(
        FD, 'DAE.request_address', pid=pid,
        params={'self': TObj(), 'array_name': TConst(array_name), 'ndevice': TInt(), 'nvar': TInt(), 'collate': TConst(collate)},
        schema=sch,
        requires=[('sizes', lambda v: z3.And(to_z3(v.local('ndevice')) >= 0, to_z3(v.local('nvar')) >= 0,
                                             v.z('self.' + counter) >= 0))],
        ghost_init={'lo': z3.K(I, z3.IntVal(0)), 'hi': z3.K(I, z3.IntVal(0)), 'step': z3.K(I, z3.IntVal(1)), 'cnt': z3.IntVal(0)},
        calls={'<value>.append': append_hook, 'np.arange': arange_h},
        loops={0: Loop(inv=[('blocks-so-far', inv)], frame=['ghost:lo', 'ghost:hi', 'ghost:step', 'ghost:cnt', '$idx']),
               1: Loop(inv=[('blocks-so-far', lambda v: inv_coll(v))], frame=['ghost:lo', 'ghost:hi', 'ghost:step', 'ghost:cnt', '$idx'])},
        ensures=[('address(i,k)=c+i*nd+k' if not collate else 'address(i,k)=c+i+k*nv', post_blocks),
                 ('counter-advanced-by-nd*nv', post_counter)],
        modifies=['self.' + counter],
    )

    def inv_coll(v):
        g = v.st.ghost
        i = v.local('$i1')
        nv = to_z3(v.local('nvar'))
        b, e = to_z3(v.local('idx_begin')), to_z3(v.local('idx_end'))
        j = fresh('j', I)
        return z3.And(g['cnt'] == i, z3.ForAll([j], z3.Implies(z3.And(j >= 0, j < i), z3.And(
            g['lo'][j] == b + j, g['hi'][j] == e, g['step'][j] == nv))))
    c.pre_state = lambda st: st.heap.__setitem__('self._array_and_counter', mk_dict(st))
    return c


def bijection_lemmas(pack, pid):
    """L1: (i,k) -> c + i*nd + k  and  (i,k) -> c + i + k*nv  are bijections [0,nv)x[0,nd) -> [c, c+nd*nv)."""
    from pyvc.smt import prove
    c, nd, nv, i, k, i2, k2, a = z3.Ints('c nd nv i k i2 k2 a')
    dom = lambda i_, k_: z3.And(i_ >= 0, i_ < nv, k_ >= 0, k_ < nd)  # noqa
    for name, f in (('contiguous', lambda i_, k_: c + i_ * nd + k_), ('collated', lambda i_, k_: c + i_ + k_ * nv)):
        hyps = [nd > 0, nv > 0]
        goals = [
            ('range', z3.Implies(dom(i, k), z3.And(f(i, k) >= c, f(i, k) < c + nd * nv))),
            ('injective', z3.Implies(z3.And(dom(i, k), dom(i2, k2), f(i, k) == f(i2, k2)), z3.And(i == i2, k == k2))),
        ]
        # surjective with the div/mod witness
        if name == 'contiguous':
            wi, wk = (a - c) / nd, (a - c) % nd
        else:
            wi, wk = (a - c) % nv, (a - c) / nv
        goals.append(('surjective(witness div/mod)', z3.Implies(z3.And(a >= c, a < c + nd * nv),
                                                              z3.And(dom(wi, wk), f(wi, wk) == a))))
        for gname, goal in goals:
            r = prove('%s/%s:DAE.request_address/lemma:L1-%s-%s' % (pid, FD, name, gname), hyps, goal, keep_smt2=(gname == 'range'),
                      timeout_ms=20000)
            pack.add(r)
            if r.verdict == 'refuted':
                pack.violation(r.name, {'solver': r.backend, 'model': r.model}, no_input=True)
            elif r.verdict != 'proved':
                pack.undecided_obl(r.name, r.note)


def set_address_var(pid):
    """BaseVar.set_address: the variable owns exactly the given addresses."""
    N = fresh('N', I)

    def post(old, new, res):
        a = new.get('self.a')
        return z3.And(z3.BoolVal(isinstance(a, Ref) and a.loc == old.local('addr').loc), new.z('self.n') == N)
    return Contract(FV, 'BaseVar.set_address', pid=pid,
                    params={'self': TObj(), 'addr': TArr(n=N, kind='int'), 'contiguous': TBool()},
                    schema={'self.a': TArr(kind='int'), 'self.n': TInt(), 'self.e_setter': TBool(), 'self.v_setter': TBool(),
                            'self.e_inplace': TBool(), 'self.v_inplace': TBool(), 'self._contiguous': TBool(),
                            'self.ae': TArr(), 'self.av': TArr()},
                    requires=[('N>=0', lambda v: N >= 0)],
                    ensures=[('a-is-the-given-address-array,n-its-length', post)],
                    modifies=['self.a', 'self.n', 'self.ae', 'self.av', 'self._contiguous', 'self.e_inplace', 'self.v_inplace'])


UID = z3.Function('uid_of_idx', TStr.sort, I)       # ghost: the owner's idx -> uid map (C19 invariant: a bijection)


def link_external_model(pid):
    """ExtVar.link_external (source is a Model): a[j] = src.a[uid(indexer[j])]; wrong variable class => TypeError."""
    M = fresh('M', I)      # devices of the borrowing model
    S = fresh('S', I)      # devices of the source model

    def idx2uid(ex, st, args, kw, node):
        idx = st.content(args[0])
        k = fresh('k', I)
        return st.new_ref(ArrC(z3.Lambda([k], z3.ToReal(UID(idx.arr[k]))), idx.n, None, kind='int'), 'uid')

    def post(old, new, res):
        a = new.arr('self.a')
        src = old.arr('ext_model.v.a')
        idx = old.arr('self.indexer.v')
        k = fresh('k', I)
        return z3.And(a.n == M, new.z('self.n') == M,
                      z3.ForAll([k], z3.Implies(z3.And(k >= 0, k < M), a.vals[k] == src.vals[UID(idx.arr[k])])))

    def raises_post(old, new, exc):
        return old.get('ext_model.v.v_code').term != old.get('self.v_code').term

    def post_vcode(old, new, res):
        return old.get('ext_model.v.v_code').term == old.get('self.v_code').term
    return Contract(
        FV, 'ExtVar.link_external', pid=pid, params={'self': TObj(), 'ext_model': TObj()},
        schema={'self.src': TConst('v'), 'self.indexer.v': TSeq(elem=TStr.sort), 'self.indexer.n': TInt(),
                'self.allow_none': TConst(False), 'self.v_code': TStr(), 'ext_model.v.v_code': TStr(),
                'ext_model.v.a': TArr(n=S, kind='int'), 'ext_model.n': TInt(), 'self.a': TArr(kind='int'), 'self.n': TInt(),
                'self.name': TStr(), 'self.class_name': TStr(), 'ext_model.v.name': TStr(), 'ext_model.v.class_name': TStr(),
                'self.parent': TOpaque('Any'), 'self._n': TOpaque('Any'), 'self.v': TArr()},
        requires=[('sizes', lambda v: z3.And(M >= 0, S >= 0, v.arr('self.indexer.v').n == M)),
                  ('uid-in-range (C19: idx2uid returns positions of existing devices)',
                   lambda v: z3.ForAll([KQ], z3.Implies(z3.And(KQ >= 0, KQ < M), z3.And(
                       UID(v.arr('self.indexer.v').arr[KQ]) >= 0, UID(v.arr('self.indexer.v').arr[KQ]) < S))))],
        calls={'isinstance:GroupBase': lambda ex, st, a, k, n: False, 'ext_model.idx2uid': idx2uid},
        ensures=[('a[j]=source.a[uid(indexer[j])]', post), ('normal-return=>variable-classes-match', post_vcode)],
        raises={'TypeError': [('raised-only-on-class-mismatch', raises_post)]},
        modifies=['self.*'])


def link_external_group(pid):
    """ExtVar.link_external (source is a Group, flat indexer): the addresses are whatever the group's lookup returns for
    (src=self.src, idx=<the indexer's entries, in order>, attr='a', allow_none=self.allow_none, default=0); n = len(a)."""
    M = fresh('M', I)
    A = fresh('group_get_result', z3.ArraySort(I, R))

    def idx_ok(st, idx):
        if not isinstance(idx, Ref):
            return z3.BoolVal(False)
        c, want = st.content(idx), st.content(st.load('self.indexer.v'))
        arr = c.arr if isinstance(c, SeqC) else c.vals
        if arr.sort() != want.arr.sort():
            return z3.BoolVal(False)
        k = fresh('k', I)
        return z3.And(c.n == want.n, z3.ForAll([k], z3.Implies(z3.And(k >= 0, k < want.n), arr[k] == want.arr[k])))

    def get(ex, st, args, kw, node):
        ok = kw.get('src') == 'v' and kw.get('attr') == 'a' and kw.get('allow_none') is False and kw.get('default') == 0 and not args
        ex.oblige(st, 'pre@call:group.get(src=self.src,idx=indexer-entries-in-order,attr=a,allow_none=self.allow_none,default=0)',
                  z3.And(z3.BoolVal(bool(ok)), idx_ok(st, kw.get('idx'))), {})
        return st.new_ref(ArrC(A, M, None), 'got')

    def get_field(ex, st, args, kw, node):
        ex.oblige(st, 'pre@call:group.get_field(src=self.src,idx=indexer-entries,field=v_code)',
                  z3.And(z3.BoolVal(kw.get('src') == 'v' and kw.get('field') == 'v_code'), idx_ok(st, kw.get('idx'))), {})
        return Mark('vcodes')

    NPCAST = z3.Function('numpy_common_dtype_cast', TStr.sort, TStr.sort)

    def np_array_idx(ex, st, a, kw, node):
        # np.array over a python list of device indices converts every entry to one common dtype (a list mixing int and str
        # indices becomes all-str): the entries are not known to be preserved
        if isinstance(a[0], Ref) and isinstance(st.content(a[0]), SeqC) and st.content(a[0]).arr.sort().range() == TStr.sort:
            c0 = st.content(a[0])
            k = fresh('k', I)
            return st.new_ref(SeqC(z3.Lambda([k], NPCAST(c0.arr[k])), c0.n, None), 'np.array(idx)')
        return a[0]

    def post(old, new, res):
        a = new.arr('self.a')
        k = fresh('k', I)
        return z3.And(a.n == M, new.z('self.n') == M, z3.ForAll([k], z3.Implies(z3.And(k >= 0, k < M), a.vals[k] == A[k])))
    c = Contract(
        FV, 'ExtVar.link_external', pid=pid, params={'self': TObj(), 'ext_model': TObj()},
        schema={'self.src': TConst('v'), 'self.indexer.v': TSeq(elem=TStr.sort), 'self.indexer.n': TInt(),
                'self.allow_none': TConst(False), 'self.v_code': TStr(), 'self.a': TArr(kind='int'), 'self.n': TInt(),
                'self.name': TStr(), 'self.owner.class_name': TStr(), 'ext_model.class_name': TStr(),
                'self.parent': TOpaque('Any'), 'self._n': TOpaque('Any'), 'self._idx': TOpaque('Any')},
        requires=[('sizes', lambda v: z3.And(M >= 0, v.arr('self.indexer.v').n == M, v.z('self.indexer.n') == M))],
        calls={'isinstance:GroupBase': lambda ex, st, a, k, n: True, 'isinstance:(list, np.ndarray)': lambda ex, st, a, k, n: False,
               'ext_model.get': get, 'ext_model.get_field': get_field, '<value>.astype': lambda ex, st, a, k, n: a[0],
               'np.array': np_array_idx,
               '__getitem__': lambda ex, st, a, k, n: a[0] if isinstance(a[0], Mark) else NotImplemented,
               '__compare__': lambda ex, st, a, k, n: (Mark('cmp') if any(isinstance(x, Mark) for x in a[1:]) else NotImplemented),
               'all': lambda ex, st, a, k, n: fresh('vcodes_match', Bo)},
        globals_={'all': Func('all')},
        ensures=[('a=group.get(...);n=len(a)', post)], allow_raise=['TypeError'],
        modifies=['self.*'])
    c.tag = 'group'
    return c


def replay_link_external_group(obligation, model, meta):
    """native run of the real ExtVar.link_external on a stub group: the idx handed to group.get must be the indexer's entries,
    unchanged in value and type, for homogeneous and for mixed int/str indices"""
    from types import SimpleNamespace
    import numpy as np
    from andes.core.var import ExtAlgeb
    from andes.models.group import GroupBase
    for entries in ([1, 2, 3], ['a', 'b'], [1, 2, 3, 'G4'], ['G1', 2]):
        seen = {}

        class G(GroupBase):
            def __init__(self):
                pass

            def get(self, src, idx, attr='v', allow_none=False, default=0.0):
                seen['idx'] = list(idx)
                return np.arange(len(list(idx)))

            def get_field(self, src, idx, field):
                return ['y'] * len(list(idx))
        v = ExtAlgeb(model='StubGroup', src='v', indexer=SimpleNamespace(v=list(entries), n=len(entries)))
        v.owner = SimpleNamespace(class_name='Owner')
        v.name = 'x'
        grp = G()
        try:
            v.link_external(grp)
        except Exception as e:      # noqa
            return {'confirmed': True, 'inputs': {'indexer.v': entries}, 'observed': repr(e),
                    'native_cmd': 'ExtAlgeb(indexer=<stub>).link_external(<stub group>)'}
        got = seen.get('idx')
        if got is None or len(got) != len(entries) or any(isinstance(g, str) != isinstance(e, str) or g != e
                                                           for g, e in zip(got, entries)):
            return {'confirmed': True, 'inputs': {'indexer.v': entries}, 'observed': 'group.get received idx=%r' % (got,),
                    'native_cmd': 'ExtAlgeb(indexer=<stub>).link_external(<stub group>)'}
    return {'confirmed': False, 'tried': 4}


KQ = z3.Int('kq')


def system_set_address(pid):
    """System.set_address: phase 1 gives variable #idx of a model exactly block #idx of the request made for that model
    (x and y separately, counters advancing); phase 3 hands out consecutive blocks of the h / i counters."""
    E = 'models.$e'
    sch = {
        'models': TColl(),
        E + '.flags.address': TBool(), E + '.n': TInt(), E + '.flags.collate': TBool(), E + '.class_name': TStr(),
        E + '.states': TColl(), E + '.algebs': TColl(), E + '.states_ext': TColl(), E + '.algebs_ext': TColl(),
        E + '.cache.vars_ext': TColl(),
        E + '.states_ext.$e.e_str': TOptional(TStr()), E + '.states_ext.$e.n': TInt(),
        E + '.algebs_ext.$e.e_str': TOptional(TStr()), E + '.algebs_ext.$e.n': TInt(),
        E + '.cache.vars_ext.$e.model': TStr(), E + '.cache.vars_ext.$e.name': TStr(),
        E + '.cache.vars_ext.$e.indexer.name': TStr(),
        'self.dae.n': TInt(), 'self.dae.m': TInt(), 'self.dae.p': TInt(), 'self.dae.q': TInt(),
    }

    def req(which):
        counter = {'x': 'self.dae.n', 'y': 'self.dae.m'}[which]

        def h(ex, st, args, kw, node):
            nd, nv = to_z3(kw['ndevice']), to_z3(kw['nvar'])
            st.assume(nd >= 0)           # Model.n counts devices (representation invariant of ModelData)
            c0 = st.load(counter)
            st.store(counter, c0 + nd * nv)
            # result: ghost description (block i covers addresses c0 + i*nd + k or c0 + i + k*nv) -- contract of
            # DAE.request_address discharged above
            return ('blocks', which, c0, nd, nv, kw['collate'])
        return h

    def getitem(ex, st, args, kw, node):
        base, sl = args
        if isinstance(base, tuple) and base and base[0] == 'blocks':
            return ('block', base, ex.ev(sl, st))
        if isinstance(base, tuple) and base and base[0] == 'objdict':
            return Obj('self.$ext')
        raise Unsupported('getitem on %r' % (base,))

    def var_set_address(kind):
        def h(ex, st, args, kw, node):
            blk = args[0]
            idx = st.env.get('idx')
            ok = isinstance(blk, tuple) and blk[0] == 'block' and blk[1][1] == kind
            ex.oblige(st, 'pre@call:BaseVar.set_address:variable-#idx-receives-block-#idx-of-the-%s-request' % kind,
                      z3.And(z3.BoolVal(ok), to_z3(blk[2]) == to_z3(idx)) if ok else z3.BoolVal(False), {})
            if ok:
                ex.oblige(st, 'pre@call:BaseVar.set_address:contiguous-flag-matches-layout(%s)' % kind,
                          to_z3(kw['contiguous']) == z3.Not(to_z3(blk[1][5])), {})
            return None
        return h

    def ext_set_address(counter):
        def h(ex, st, args, kw, node):
            a = st.content(args[0])
            c0 = st.load(counter)
            item_n = st.load(args_path(st, node) + '.n')
            st.assume(item_n >= 0)       # ExtVar.n = len(a) after link_external
            k = fresh('k', I)
            ex.oblige(st, 'pre@call:ExtVar.set_address:block-starts-at-%s-and-has-item.n-entries' % counter.split('.')[-1],
                      z3.And(a.n == z3.If(item_n >= 0, item_n, 0),
                             z3.ForAll([k], z3.Implies(z3.And(k >= 0, k < a.n), a.vals[k] == z3.ToReal(c0 + k)))), {})
            return None
        return h

    def args_path(st, node):
        return st.env['item'].path

    def inv_counters(v):
        return z3.And(v.z('self.dae.n') >= v.ex.old.load('self.dae.n'), v.z('self.dae.m') >= v.ex.old.load('self.dae.m'),
                      v.z('self.dae.p') >= v.ex.old.load('self.dae.p'), v.z('self.dae.q') >= v.ex.old.load('self.dae.q'))
    calls = {
        'self.dae.request_address': None,
        '__getitem__': getitem,
        '__objdict__': lambda ex, st, a, k, n: Obj('self.$ext'),     # KeyError path not modelled (reported by the code)
        'models.$e.states.$e.set_address': var_set_address('x'), 'models.$e.algebs.$e.set_address': var_set_address('y'),
        'models.$e.states_ext.$e.set_address': ext_set_address('self.dae.p'),
        'models.$e.algebs_ext.$e.set_address': ext_set_address('self.dae.q'),
        'models.$e.cache.vars_ext.$e.link_external': spec(raises=[('IndexError', None), ('KeyError', None)], name='ExtVar.link_external'),
        'self.dae.resize_arrays': spec(name='DAE.resize_arrays'), 'self.set_var_arrays': spec(name='System.set_var_arrays'),
        'self.dae.alloc_or_extend_names': spec(name='DAE.alloc_or_extend_names'),
        'repr': spec(returns=TStr(), name='repr'),
    }

    def request_dispatch(ex, st, args, kw, node):
        return req(args[0])(ex, st, args, kw, node)
    calls['self.dae.request_address'] = request_dispatch
    inv = [('counters-monotone', inv_counters)]
    return Contract(
        FS, 'System.set_address', pid=pid, params={'self': TObj(), 'models': TColl()}, schema=sch,
        requires=[('counters-nonneg', lambda v: z3.And(v.z('self.dae.n') >= 0, v.z('self.dae.m') >= 0, v.z('self.dae.p') >= 0,
                                                       v.z('self.dae.q') >= 0))],
        calls=calls,
        loops={0: Loop(inv=inv, frame=['self.dae.n', 'self.dae.m', '$collate', '$ndevice', '$xaddr', '$yaddr', '$idx', '$item', '$mdl']),
               1: Loop(inv=[], frame=['$idx', '$item']), 2: Loop(inv=[], frame=['$idx', '$item']),
               3: Loop(inv=[], frame=['$mdl', '$instance', '$ext_name', '$ext_model', '$e']),
               4: Loop(inv=[], frame=['$instance', '$ext_name', '$ext_model', '$e']),
               5: Loop(inv=inv, frame=['self.dae.p', 'self.dae.q', '$mdl', '$item', 'models.$e.flags.address']),
               6: Loop(inv=inv, frame=['self.dae.p', '$item']), 7: Loop(inv=inv, frame=['self.dae.q', '$item'])},
        ensures=[('counters-never-decrease (blocks handed out earlier stay below every later block)',
                  lambda old, new, res: z3.And(new.z('self.dae.n') >= old.z('self.dae.n'), new.z('self.dae.m') >= old.z('self.dae.m'),
                                               new.z('self.dae.p') >= old.z('self.dae.p'), new.z('self.dae.q') >= old.z('self.dae.q')))],
        allow_raise=['KeyError'],
        modifies=['self.dae.*', 'models.*'],
    )


def set_xy_name(pid):
    """_set_xy_name: the name stored at slot a[j] of a variable is built from that variable's name and idx[j]."""
    N = fresh('N', I)
    S = TStr.sort
    APP = z3.Function('_append_model_name', S, S, S)
    E = 'vars_dict.$e'

    def append_name(ex, st, args, kw, node):
        return Opaque(APP(to_z3(args[0]), to_z3(args[1])))

    def name_of(v, nm, j):
        tmpl = z3.Function('fstr:{} {}', S, S, S)
        return tmpl(nm, APP(v.get('mdl.class_name').term, v.arr('mdl.idx.v').arr[j]))

    def setitem(ex, st, args, kw, node):
        raise Unsupported('x')

    def inv_inner(v):
        k = v.local('$i1')
        a = v.arr(E + '.a')
        names = v.st.content(v.local('dests')[0])
        nm = to_z3(v.local('name'))
        j = fresh('j', I)
        return z3.ForAll([j], z3.Implies(z3.And(j >= 0, j < k), names.arr[z3.ToInt(a.vals[j])] == name_of(v, nm, j)))
    def mark(v):
        v.st.ghost['in_iter'] = True
        return True

    def var_done(v):
        # stated on the outer loop so that it is an obligation whatever the shape of the code that writes the names
        if not v.st.ghost.get('in_iter'):
            return True
        a = v.arr(E + '.a')
        names = v.st.content(v.local('dests')[0])
        nm = to_z3(v.local('name'))
        j = fresh('j', I)
        return z3.ForAll([j], z3.Implies(z3.And(j >= 0, j < N), names.arr[z3.ToInt(a.vals[j])] == name_of(v, nm, j)))
    c = Contract(
        FS, '_set_xy_name', pid=pid,
        params={'mdl': TObj(), 'vars_dict': TColl(keysort=S), 'dests': None},
        schema={'mdl.class_name': TStr(), 'mdl.idx.v': TSeq(elem=S), E + '.a': TArr(n=N, kind='int'), E + '.tex_name': TStr(), 'mdl.n': TInt(),
                'x_name': TSeq(elem=S), 'x_tex_name': TSeq(elem=S)},
        requires=[('one-address-per-device', lambda v: z3.And(N >= 0, v.arr('mdl.idx.v').n == N)),
                  ('addresses-distinct-and-in-range (C10 bijection)', lambda v: z3.And(
                      z3.ForAll([J1, J2], z3.Implies(z3.And(J1 >= 0, J1 < J2, J2 < N),
                                                     v.arr(E + '.a').vals[J1] != v.arr(E + '.a').vals[J2])),
                      z3.ForAll([J1], z3.Implies(z3.And(J1 >= 0, J1 < N), z3.And(
                          v.arr(E + '.a').vals[J1] >= 0, z3.ToInt(v.arr(E + '.a').vals[J1]) < v.arr('x_name').n)))))],
        calls={'_append_model_name': append_name},
        globals_={'_append_model_name': Func('_append_model_name')},
        loops={0: Loop(inv=[('every-slot-a[j]-of-the-variable-just-processed-is-named-<variable> <device j>', var_done)],
                       assume=[('mark', mark)],
                       frame=['loc:x_name', 'loc:x_tex_name', '$name', '$item', '$idx_item', '$addr', 'ghost:in_iter']),
               1: Loop(inv=[('slots-written-so-far-carry-this-variable-and-the-device-idx', inv_inner)],
                       frame=['loc:x_name', 'loc:x_tex_name', '$idx_item', '$addr'])},
        ensures=[], modifies=['x_name', 'x_tex_name'])
    c.check_bounds = True

    def pre_state(st):
        st.env['dests'] = (st.load('x_name'), st.load('x_tex_name'))
        st.ghost.pop('in_iter', None)
    c.pre_state = pre_state
    return c


J1, J2 = z3.Ints('j1 j2')


FP = 'andes/core/param.py'
FSV = 'andes/core/service.py'
FM = 'andes/core/model/model.py'


def extparam_link_model(pid):
    """ExtParam.link_external (source is a Model): v[j] = parent.v[uid(indexer[j])]; vin and pu_coeff follow the same map."""
    M, S = fresh('M', I), fresh('S', I)

    def idx2uid(ex, st, args, kw, node):
        idx = st.content(args[0])
        k = fresh('k', I)
        return st.new_ref(ArrC(z3.Lambda([k], z3.ToReal(UID(idx.arr[k]))), idx.n, None, kind='int'), 'uid')

    def post(old, new, res):
        idx = old.arr('self.indexer.v')
        k = fresh('k', I)
        cl = []
        for attr in ('v', 'vin', 'pu_coeff'):
            a, src = new.arr('self.' + attr), old.arr('ext_model.p.' + attr)
            cl.append(z3.And(a.n == M, z3.ForAll([k], z3.Implies(z3.And(k >= 0, k < M), a.vals[k] == src.vals[UID(idx.arr[k])]))))
        return z3.Implies(M > 0, z3.And(*cl))
    return Contract(
        FP, 'ExtParam.link_external', pid=pid, params={'self': TObj(), 'ext_model': TObj()},
        schema={'self.src': TConst('p'), 'self.indexer.v': TSeq(elem=TStr.sort), 'self.allow_none': TConst(False),
                'self.name': TStr(), 'ext_model.p.v': TArr(n=S), 'ext_model.p.vin': TArr(n=S), 'ext_model.p.pu_coeff': TArr(n=S),
                'ext_model.p.property': TOpaque('Any'), 'ext_model.n': TInt(), 'self.v': TArr(), 'self.vin': TArr(),
                'self.pu_coeff': TArr(), 'self.parent_model': TOpaque('Any'), 'self.property': TOpaque('Any'),
                'self.default': TReal()},
        requires=[('sizes', lambda v: z3.And(M >= 0, S >= 0, v.arr('self.indexer.v').n == M)),
                  ('uid-in-range (C19)', lambda v: z3.ForAll([KQ], z3.Implies(z3.And(KQ >= 0, KQ < M), z3.And(
                      UID(v.arr('self.indexer.v').arr[KQ]) >= 0, UID(v.arr('self.indexer.v').arr[KQ]) < S))))],
        calls={'hasattr': lambda ex, st, a, k, n: False, 'ext_model.idx2uid': idx2uid,
               'dict': lambda ex, st, a, k, n: a[0]},
        globals_={'hasattr': Func('hasattr')},
        ensures=[('v,vin,pu_coeff[j]=parent[uid(indexer[j])]', post)],
        modifies=['self.*'])


def extservice_link(pid):
    """ExtService.link_external: the value is fetched with the declared src / indexer / attr (same get API for model and group)."""
    def get_h(ex, st, args, kw, node):
        ok = (kw.get('src') == 'p' and kw.get('attr') == 'v' and isinstance(kw.get('idx'), Ref)
              and kw['idx'].loc == st.load('self.indexer.v').loc)
        ex.oblige(st, 'pre@call:get:called-with-declared-src-indexer-attr', z3.BoolVal(bool(ok)), {})
        ex.oblige(st, 'pre@call:get:default-and-allow_none-forwarded',
                  z3.And(to_z3(kw.get('allow_none')) == st.load('self.allow_none'),
                         as_real(kw.get('default')).val == st.load('self.default').val), {})
        return st.new_ref(ArrC(fresh('got', z3.ArraySort(I, R)), st.load('self.n'), None), 'get')
    return Contract(
        FSV, 'ExtService.link_external', pid=pid, params={'self': TObj(), 'ext_model': TObj()},
        schema={'self.src': TConst('p'), 'self.attr': TConst('v'), 'self.indexer.v': TSeq(elem=TStr.sort), 'self.n': TInt(),
                'self.allow_none': TBool(), 'self.default': TReal(), 'self.v': TArr()},
        requires=[('n>=0', lambda v: v.z('self.n') >= 0)],
        calls={'ext_model.get': get_h},
        ensures=[('length', lambda old, new, res: new.arr('self.v').n == old.z('self.n'))],
        modifies=['self.v'])


def model_get(pid):
    """Model.get(src, idx, attr) on an array attribute: result[j] = self.<src>.<attr>[uid(idx[j])]."""
    M, S = fresh('M', I), fresh('S', I)

    def idx2uid(ex, st, args, kw, node):
        idx = st.content(args[0])
        k = fresh('k', I)
        return st.new_ref(ArrC(z3.Lambda([k], z3.ToReal(UID(idx.arr[k]))), idx.n, None, kind='int'), 'uid')

    def post(old, new, res):
        r = new.st.content(res)
        src = old.arr('self.p.v')
        idx = old.st.content(old.local('idx'))
        k = fresh('k', I)
        return z3.And(r.n == M, z3.ForAll([k], z3.Implies(z3.And(k >= 0, k < M), r.vals[k] == src.vals[UID(idx.arr[k])])))
    return Contract(
        FM, 'Model.get', pid=pid,
        params={'self': TObj(), 'src': TConst('p'), 'idx': TSeq(elem=TStr.sort), 'attr': TConst('v'), 'allow_none': TConst(False),
                'default': TReal()},
        schema={'self.p.v': TArr(n=S)},
        requires=[('sizes', lambda v: z3.And(S >= 0, v.st.content(v.local('idx')).n == M)),
                  ('uid-in-range (C19)', lambda v: z3.ForAll([KQ], z3.Implies(z3.And(KQ >= 0, KQ < M), z3.And(
                      UID(v.st.content(v.local('idx')).arr[KQ]) >= 0, UID(v.st.content(v.local('idx')).arr[KQ]) < S))))],
        calls={'self.idx2uid': idx2uid},
        ensures=[('result[j]=self.src.attr[uid(idx[j])]', post)], modifies=[])



def set_arrays_inplace(pid):
    """BaseVar._set_arrays_inplace: for a variable with contiguous addresses (v_inplace / e_inplace), v and e become the stretch of
    the DAE array that starts at a[0] and has exactly one entry per device: element k is dae.<code>[a[k]]."""
    N = fresh('N', I)

    def post(old, new, res):
        a = old.arr('self.a')
        k = fresh('k', I)
        cl = []
        for arr_name, code in (('self.v', 'x'), ('self.e', 'f')):
            got, src = new.arr(arr_name), old.arr('dae.' + code)
            cl.append(z3.And(got.n == N, z3.ForAll([k], z3.Implies(z3.And(k >= 0, k < N), got.vals[k] == src.vals[z3.ToInt(a.vals[k])]))))
        return z3.And(*cl)
    c = Contract(FV, 'BaseVar._set_arrays_inplace', pid=pid, params={'self': TObj(), 'dae': TObj()},
                 schema={'self.a': TArr(n=N, kind='int'), 'self.v_inplace': TConst(True), 'self.e_inplace': TConst(True), 'self.v_code': TConst('x'),
                         'self.e_code': TConst('f'), 'dae.x': TArr(), 'dae.f': TArr(), 'self.v': TArr(), 'self.e': TArr()},
                 requires=[('contiguous-addresses-inside-the-dae-arrays(set_address:contiguous)', lambda v: z3.And(
                     N >= 1, v.arr('self.a').vals[0] >= 0, z3.ToInt(v.arr('self.a').vals[0]) + N <= v.arr('dae.x').n,
                     z3.ToInt(v.arr('self.a').vals[0]) + N <= v.arr('dae.f').n,
                     z3.ForAll([KQ], z3.Implies(z3.And(KQ >= 0, KQ < N), v.arr('self.a').vals[KQ] == v.arr('self.a').vals[0] + KQ))))],
                 ensures=[('v[k]=dae.x[a[k]],e[k]=dae.f[a[k]],one-entry-per-device', post)], modifies=['self.v', 'self.e'])
    return c


def extparam_link_group(pid):
    """ExtParam.link_external (source is a Group): v, vin and pu_coeff are what the group's lookup returns for (src=self.src,
    idx=<the indexer's entries, in order>, attr=<v | vin | pu_coeff>, allow_none=self.allow_none, default=self.default) -- the
    position-preserving lookup of GroupBase.get (own contract), so that entry j belongs to the device named by indexer entry j."""
    GOT = {a: fresh('group_get_' + a, z3.ArraySort(I, R)) for a in ('v', 'vin', 'pu_coeff')}
    M = fresh('M', I)

    def get(ex, st, args, kw, node):
        attr = kw.get('attr')
        idx = kw.get('idx')
        ok = not args and kw.get('src') == 'p' and attr in GOT and isinstance(idx, Ref) and idx.loc == st.load('self.indexer.v').loc
        ex.oblige(st, 'pre@call:group.get(src=self.src,idx=self.indexer.v,attr=v|vin|pu_coeff)', z3.BoolVal(bool(ok)), {})
        ex.oblige(st, 'pre@call:group.get:allow_none-and-default-forwarded',
                  z3.And(to_z3(kw.get('allow_none')) == to_z3(st.load('self.allow_none')), as_real(kw.get('default')).val == st.load('self.default').val), {})
        if not ok:
            raise Unsupported('group.get call shape')
        st.ghost['got'] = st.ghost['got'] + [attr]
        return st.new_ref(ArrC(GOT[attr], M, None), 'got_' + attr)

    def post(old, new, res):
        k = fresh('k', I)
        cl = [z3.BoolVal(sorted(new.st.ghost['got']) == ['pu_coeff', 'v', 'vin'])]
        for attr in ('v', 'vin', 'pu_coeff'):
            a = new.arr('self.' + attr)
            cl.append(z3.And(a.n == M, z3.ForAll([k], z3.Implies(z3.And(k >= 0, k < M), a.vals[k] == GOT[attr][k]))))
        return z3.And(*cl)
    c = Contract(
        FP, 'ExtParam.link_external', pid=pid, params={'self': TObj(), 'ext_model': TObj()},
        schema={'self.src': TConst('p'), 'self.indexer.v': TSeq(elem=TStr.sort), 'self.allow_none': TBool(), 'self.default': TReal(),
                'self.name': TStr(), 'self.v': TArr(), 'self.vin': TArr(), 'self.pu_coeff': TArr(), 'self.parent_model': TOpaque('Any')},
        requires=[('sizes', lambda v: z3.And(M >= 0, v.arr('self.indexer.v').n == M))],
        ghost_init={'got': []},
        calls={'hasattr': lambda ex, st, a, k, n: True, 'ext_model.get': get},
        globals_={'hasattr': Func('hasattr')},
        ensures=[('v,vin,pu_coeff=group.get(src,indexer,attr)-entry-for-entry', post)],
        modifies=['self.*'])
    c.tag = 'group'
    return c


def replay_extparam_group(obligation=None, model=None, meta=None):
    """native: a group served by two models (SynGen: GENROU and GENCLS) whose devices are referenced in interleaved order by the index
    field of a third model (TGOV1.syn); the borrowed rating Sg of governor j must be the rating of the generator named by syn[j]"""
    import contextlib
    import io
    import logging
    import numpy as np
    import andes
    logging.getLogger('andes').setLevel(logging.CRITICAL)
    n = 0
    for perm in ([3, 0, 1, 4, 2], [0, 1, 2, 3, 4], [1, 3, 0, 2, 4]):
        n += 1
        with contextlib.redirect_stdout(io.StringIO()), contextlib.redirect_stderr(io.StringIO()):
            ss = andes.load(andes.get_case('ieee14/ieee14.raw'), default_config=True, no_output=True, setup=False)
            gens = [(ss.Slack.idx.v[0], ss.Slack.bus.v[0])] + list(zip(ss.PV.idx.v, ss.PV.bus.v))
            ratings = [900.0, 600.0, 800.0, 700.0, 500.0]
            kinds = ['GENROU', 'GENCLS', 'GENROU', 'GENCLS', 'GENROU']
            syn = [ss.add(k, dict(bus=b, gen=g, Sn=s, M=4.0)) for (g, b), s, k in zip(gens, ratings, kinds)]
            order = [syn[i] for i in perm]
            for s in order:
                ss.add('TGOV1', dict(syn=s))
            ss.setup()
        want = [ratings[i] for i in perm]
        for attr in ('v', 'vin'):
            got = [float(x) for x in np.atleast_1d(getattr(ss.TGOV1.Sg, attr))]
            if got != want:
                return {'confirmed': True, 'inputs': {'case': 'ieee14.raw + %s with Sn = %r, TGOV1.syn = %r' % (kinds, ratings, order)},
                        'observed': 'TGOV1.Sg.%s = %r, the generators named by syn have the ratings %r' % (attr, got, want),
                        'native_cmd': 'contracts/fn_address.py replay_extparam_group'}
    return {'confirmed': False, 'tried': n}


def set_hi_name(pid):
    """_set_hi_name: the name stored at slot r[j] of an external variable's equation is built from that variable's equation name and
    the idx of device j -- the model's own idx list when it has one entry per slot, the variable's indexer otherwise."""
    N, NI = fresh('N', I), fresh('NI', I)
    S = TStr.sort
    APP = z3.Function('_append_model_name', S, S, S)
    E = 'vars_dict.$e'

    def append_name(ex, st, args, kw, node):
        return Opaque(APP(to_z3(args[0]), to_z3(args[1])))

    def name_of(v, nm, dev):
        tmpl = z3.Function('fstr:{} {}', S, S, S)
        return tmpl(nm, APP(v.get('mdl.class_name').term, dev))

    def mark(v):
        v.st.ghost['in_iter'] = True
        return True

    def var_done(v):
        if not v.st.ghost.get('in_iter'):
            return True
        r = v.arr(E + '.r')
        names = v.st.content(v.local('dests')[0])
        own, ind = v.arr('mdl.idx.v'), v.arr(E + '.indexer.v')
        nm = v.get(E + '.ename').term
        j = fresh('j', I)
        dev = z3.If(N != NI, ind.arr[j], own.arr[j])
        return z3.ForAll([j], z3.Implies(z3.And(j >= 0, j < N), names.arr[z3.ToInt(r.vals[j])] == name_of(v, nm, dev)))

    def inv_inner(v):
        k = v.local('$i1')
        r = v.arr(E + '.r')
        names = v.st.content(v.local('dests')[0])
        own, ind = v.arr('mdl.idx.v'), v.arr(E + '.indexer.v')
        nm = v.get(E + '.ename').term
        j = fresh('j', I)
        dev = z3.If(N != NI, ind.arr[j], own.arr[j])
        return z3.ForAll([j], z3.Implies(z3.And(j >= 0, j < k), names.arr[z3.ToInt(r.vals[j])] == name_of(v, nm, dev)))
    c = Contract(
        FS, '_set_hi_name', pid=pid,
        params={'mdl': TObj(), 'vars_dict': TColl(keysort=S), 'dests': None},
        schema={'mdl.class_name': TStr(), 'mdl.idx.v': TSeq(elem=S), E + '.r': TArr(n=N, kind='int'), E + '.ename': TStr(), E + '.tex_ename': TStr(),
                E + '.indexer.v': TSeq(elem=S), 'h_name': TSeq(elem=S), 'h_tex_name': TSeq(elem=S)},
        requires=[('sizes', lambda v: z3.And(N >= 0, NI >= 0, v.arr('mdl.idx.v').n == NI, v.arr(E + '.indexer.v').n == N)),
                  ('addresses-distinct-and-in-range (C10 bijection)', lambda v: z3.And(
                      z3.ForAll([J1, J2], z3.Implies(z3.And(J1 >= 0, J1 < J2, J2 < N), v.arr(E + '.r').vals[J1] != v.arr(E + '.r').vals[J2])),
                      z3.ForAll([J1], z3.Implies(z3.And(J1 >= 0, J1 < N), z3.And(
                          v.arr(E + '.r').vals[J1] >= 0, z3.ToInt(v.arr(E + '.r').vals[J1]) < v.arr('h_name').n)))))],
        calls={'_append_model_name': append_name},
        globals_={'_append_model_name': Func('_append_model_name')},
        loops={0: Loop(inv=[('every-slot-r[j]-of-the-variable-just-processed-is-named-<equation name> <device j>', var_done)],
                       assume=[('mark', mark)],
                       frame=['loc:h_name', 'loc:h_tex_name', '$item', '$idxall', '$idx_item', '$addr', 'ghost:in_iter']),
               1: Loop(inv=[('slots-written-so-far-carry-this-variable-and-the-device-idx', inv_inner)],
                       frame=['loc:h_name', 'loc:h_tex_name', '$idx_item', '$addr'])},
        ensures=[], modifies=['h_name', 'h_tex_name'])
    c.check_bounds = True

    def pre_state(st):
        st.env['dests'] = (st.load('h_name'), st.load('h_tex_name'))
        st.ghost.pop('in_iter', None)
    c.pre_state = pre_state
    return c


def replay_hi_names(obligation=None, model=None, meta=None):
    """native: after TDS.init on stock cases every slot r[j] of every external variable carries the name built from the variable's
    equation name and the idx of device j (own idx list, or the variable's indexer when the lengths differ)"""
    import contextlib
    import io
    import logging
    import andes
    from andes.system import _append_model_name
    logging.getLogger('andes').setLevel(logging.CRITICAL)
    n = 0
    for case in ('kundur/kundur_full.xlsx', 'ieee14/ieee14_full.xlsx'):
        with contextlib.redirect_stdout(io.StringIO()), contextlib.redirect_stderr(io.StringIO()):
            ss = andes.load(andes.get_case(case), default_config=True, no_output=True)
            ss.PFlow.run()
            ss.TDS.init()
        for mname, m in ss.models.items():
            if m.n == 0:
                continue
            for group, names in ((m.states_ext, ss.dae.h_name), (m.algebs_ext, ss.dae.i_name)):
                for vname, var in group.items():
                    idxall = var.indexer.v if len(var.r) != len(m.idx.v) else m.idx.v
                    for j, (dev, addr) in enumerate(zip(idxall, var.r)):
                        n += 1
                        want = '%s %s' % (var.ename, _append_model_name(m.class_name, dev))
                        if names[addr] != want:
                            return {'confirmed': True, 'inputs': {'case': case, 'variable': '%s.%s' % (mname, vname), 'device position': j},
                                    'observed': 'slot %d is named %r, expected %r' % (int(addr), names[addr], want), 'native_cmd': 'contracts/fn_address.py replay_hi_names'}
    return {'confirmed': False, 'tried': n}

replay_hi_names.real_system = True       # drives the real program on stock inputs: a crash inside repository code is a confirmed failure

replay_extparam_group.real_system = True       # drives the real program on stock inputs: a crash inside repository code is a confirmed failure


def replay_request_address(obligation=None, model=None, meta=None):
    """native run of the real DAE.request_address on a stub: every (devices, variables, layout, start) of a small grid -- the block
    [start, start + devices * variables) is handed out exactly once (a bijection), variable k / device d sits at start + k * devices + d
    (contiguous) or start + d * variables + k (collated), and the counter ends at the end of the block"""
    import numpy as np
    from andes.variables.dae import DAE
    from contracts.packutil import Stub
    n = 0
    for which, counter in (('x', 'n'), ('y', 'm')):
        for start in (0, 7):
            for ndev in (1, 2, 3, 5):
                for nvar in (1, 2, 4):
                    for collate in (False, True):
                        stub = Stub(DAE, _array_and_counter={'x': 'n', 'y': 'm'}, n=start, m=start)
                        n += 1
                        out = DAE.request_address(stub, which, ndev, nvar, collate=collate)
                        want = [[start + (d * nvar + k if collate else k * ndev + d) for d in range(ndev)] for k in range(nvar)]
                        got = [np.asarray(a).tolist() for a in out]
                        end = getattr(stub, counter)
                        if got != want or end != start + ndev * nvar:
                            return {'confirmed': True, 'inputs': {'array': which, 'first free address': start, 'devices': ndev, 'variables': nvar, 'collate': collate},
                                    'observed': 'addresses per variable %r, counter %r; the layout is %r with the counter at %r' % (got, end, want, start + ndev * nvar),
                                    'native_cmd': 'DAE.request_address(stub, array, ndevice, nvar, collate)'}
    return {'confirmed': False, 'tried': n}
