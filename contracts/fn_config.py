"""Contracts for C20: andes.core.common.Config and System._update_config_object."""
import ast as _ast

import z3

from pyvc.symex import Contract, Loop, spec, View, Outcomes, to_z3, as_real, find_function
from pyvc.symval import (TArr, TBool, TFloat, TInt, TObj, TOpaque, TReal, TSeq, TStr, TConst, NR, TOptional, fresh, I, R, Bo,
                         MaybeNone, Func, Opaque, TNone, Module, Ref, ArrC, ListC, DictC, Unsupported, Obj, TColl, Coll, ExcVal,
                         SeqC)

FC = 'andes/core/common.py'
FS = 'andes/system.py'
S = TStr.sort
ISINT = z3.Function('int_accepts', S, Bo)          # int(s) does not raise
INTOF = z3.Function('int_of', S, I)
ISFLT = z3.Function('float_accepts', S, Bo)
FLTOF = z3.Function('float_of', S, R)


def int_h(ex, st, args, kw, node):
    v = args[0]
    if isinstance(v, Opaque) and v.term.sort() == S:
        return Outcomes([(z3.Not(ISINT(v.term)), 'raise', ExcVal('ValueError')), (ISINT(v.term), 'value', INTOF(v.term))])
    from pyvc.symex import _int
    return _int(ex, st, args, kw, node)


def float_h(ex, st, args, kw, node):
    v = args[0]
    if isinstance(v, Opaque) and v.term.sort() == S:
        return Outcomes([(z3.Not(ISFLT(v.term)), 'raise', ExcVal('ValueError')), (ISFLT(v.term), 'value', NR(FLTOF(v.term)))])
    return as_real(v)


def cfg_set(pid):
    """Config._set with a string value: stored as the int if int() accepts it, else the float if float() accepts it, else
    the string itself; exactly the field <key> is written."""
    def post(old, new, res):
        s = old.local('val').term
        got = new.get('self.k')
        if isinstance(got, Opaque):      # stayed a string
            return z3.And(z3.Not(ISINT(s)), z3.Not(ISFLT(s)), got.term == s)
        if isinstance(got, NR):
            return z3.And(z3.Not(ISINT(s)), ISFLT(s), got.val == FLTOF(s))
        return z3.And(ISINT(s), to_z3(got) == INTOF(s))
    c = Contract(FC, 'Config._set', pid=pid, params={'self': TObj(), 'key': TConst('k'), 'val': TStr()},
                 schema={'self.k': TOpaque('Any')},
                 calls={'int': int_h, 'float': float_h},
                 ensures=[('stored=int-if-int()-accepts,else-float-if-float()-accepts,else-the-string', post)],
                 modifies=['self.k'])
    c.merge = False
    return c


def replay_cfg_set(obligation, model, meta):
    """native run of the real Config._set over numeric-looking and other strings: the stored value and its type must be what
    int() / float() give, the string itself otherwise"""
    from andes.core.common import Config
    samples = ['0', '1', '-3', '+7', ' 5 ', '1_000', '1.5', '.5', '5.', '1e3', '1e-3', '1e+1', '2.5E+3', '1e+16', '1E16', 'inf', '-inf',
               'nan', 'Infinity', 'abc', '', '1e', '0x10', '1.2.3', 'True', '1e+400', '١٢']
    for s in samples:
        try:
            want = int(s)
        except ValueError:
            try:
                want = float(s)
            except ValueError:
                want = s
        c = Config('X')
        c._set('k', s)
        got = c.__dict__['k']
        same = type(got) is type(want) and (got == want or (isinstance(want, float) and want != want and got != got))
        if not same:
            return {'confirmed': True, 'inputs': {'val': s}, 'observed': 'stored %r (%s), expected %r (%s)' % (got, type(got).__name__, want, type(want).__name__),
                    'native_cmd': "Config('X')._set('k', val)"}
    return {'confirmed': False, 'tried': len(samples)}


def cfg_set_nonstr(pid):
    """Config._set with a non-string value stores the value unchanged (type preserved)."""
    return Contract(FC, 'Config._set', pid=pid, params={'self': TObj(), 'key': TConst('k'), 'val': TInt()},
                    schema={'self.k': TOpaque('Any')},
                    ensures=[('stored-unchanged', lambda old, new, res: to_z3(new.get('self.k')) == to_z3(old.local('val')))],
                    modifies=['self.k'])


def cfg_add(pid):
    """Config._add never overwrites an existing field (this is what makes earlier sources win: dict > option/file > default)."""
    def contains(ex, st, args, kw, node):
        cont, item = args
        if isinstance(cont, tuple) and cont and cont[0] == 'objdict':
            return st.ghost['exists']
        return NotImplemented

    def set_h(ex, st, args, kw, node):
        st.ghost['set_calls'] = st.ghost['set_calls'] + [(args[0], args[1])]
        return None

    def post(old, new, res):
        calls = new.st.ghost['set_calls']
        ex_ = new.st.ghost['exists']
        if len(calls) == 0:
            return ex_
        if len(calls) != 1:
            return False
        k, v = calls[0]
        return z3.And(z3.Not(ex_), z3.BoolVal(k == 'k' and v is old.st.ghost['val']))

    def pre_state(st):
        v = Opaque(fresh('val', S))
        st.ghost['val'] = v
        st.ghost['exists'] = fresh('field_exists', Bo)
        st.locs['kwargs'] = DictC({'k': v})
    c = Contract(FC, 'Config._add', pid=pid, params={'self': TObj()}, schema={},
                 ghost_init={'set_calls': []},
                 calls={'__contains__': contains, 'self._set': set_h},
                 ensures=[('existing-field=>untouched;new-field=>_set(key,val)-once', post)], modifies=[])
    c.pre_state = pre_state
    c.merge = False
    return c


def cfg_check(pid):
    """Config.check: a value outside an iterable (non-string) set of alternatives raises ValueError; everything else passes."""
    E = 'fields.$e'
    ALTOF = z3.Function('alternatives_of', S, z3.DeclareSort('Alt'))

    def as_dict_h(ex, st, args, kw, node):
        return Coll('fields', st.load('nfields'), S)

    def contains(ex, st, args, kw, node):
        cont, item = args
        if isinstance(cont, Opaque) and cont.term.sort().name() == 'AltTable':
            t = fresh('has_alt', Bo)
            st.ghost['has_alt'] = t
            return t
        if isinstance(cont, Opaque) and cont.term.sort().name() == 'Alt':
            t = fresh('val_in_alt', Bo)
            st.ghost['val_in_alt'] = t
            return t
        return NotImplemented

    def getitem(ex, st, args, kw, node):
        return Opaque(fresh('alt', z3.DeclareSort('Alt')))

    def isinst_iter(ex, st, args, kw, node):
        t = fresh('alt_is_iterable', Bo)
        st.ghost['iterable'] = t
        return t

    def isinst_str(ex, st, args, kw, node):
        t = fresh('alt_is_str', Bo)
        st.ghost['isstr'] = t
        return t

    def raises_post(old, new, exc):
        g = new.st.ghost
        return z3.And(g['has_alt'], g['iterable'], z3.Not(g['isstr']), z3.Not(g['val_in_alt']))

    def inv(v):
        g = v.st.ghost
        if 'checked' not in g or not g.get('fresh_iter'):
            return True
        return True

    def end_iter(v):
        # reached the end of an iteration body (no raise): the entry was acceptable
        g = v.st.ghost
        if 'has_alt' not in g:
            return True
        ok = z3.Or(z3.Not(g['has_alt']))
        if 'iterable' in g:
            ok = z3.Or(ok, z3.Not(g['iterable']))
        if 'isstr' in g:
            ok = z3.Or(ok, g['isstr'])
        if 'val_in_alt' in g:
            ok = z3.Or(ok, g['val_in_alt'])
        return ok
    c = Contract(FC, 'Config.check', pid=pid, params={'self': TObj()},
                 schema={'self._alt': TOpaque('AltTable'), 'self._name': TStr(), 'nfields': TInt()},
                 requires=[('n>=0', lambda v: v.z('nfields') >= 0)],
                 calls={'self.as_dict': as_dict_h, '__contains__': contains, '__getitem__': getitem,
                        'isinstance:Iterable': isinst_iter, 'isinstance:str': isinst_str},
                 loops={0: Loop(inv=[('entries-passed-so-far-are-acceptable', end_iter)], frame=['$key', '$val', '$_alt'])},
                 ensures=[('returns-True', lambda o, n, r: z3.BoolVal(r is True))],
                 raises={'ValueError': [('only-for-a-value-outside-its-iterable-non-string-alternatives', raises_post)]},
                 modifies=[])
    c.merge = False

    def pre_state(st):
        for k in ('has_alt', 'iterable', 'isstr', 'val_in_alt'):
            st.ghost.pop(k, None)
    c.pre_state = pre_state
    return c


CUR = z3.Function('public_fields_of', z3.DeclareSort('ObjState'), z3.DeclareSort('DictVal'))


def cfg_as_dict(pid):
    """Config.as_dict: the returned mapping is the current public fields (F20: a stale cache is returned after updates)."""
    DV = z3.DeclareSort('DictVal')
    cur = z3.Const('current_public_fields', DV)

    def ordered(ex, st, args, kw, node):
        # OrderedDict(out) where out collects every (key, val) of self.__dict__ whose key has no leading underscore
        return Opaque(cur)

    def len_h(ex, st, args, kw, node):
        v = args[0]
        if isinstance(v, Opaque) and v.term.sort() == DV:
            n = z3.Function('len_dict', DV, I)(v.term)
            st.assume(n >= 0)
            return n
        from pyvc.symex import _len
        return _len(ex, st, args, kw, node)
    c = Contract(FC, 'Config.as_dict', pid=pid, params={'self': TObj(), 'refresh': TBool()},
                 schema={'self._dict': TOpaque('DictVal'), 'self.__dict__items': TColl(keysort=S)},
                 calls={'len': len_h, 'OrderedDict': ordered,
                        '__objdict_items__': None},
                 loops={0: Loop(inv=[], frame=['$key', '$val', 'loc:list'], summary=lambda ex, st, node: [(st, None, None)])},
                 ensures=[('result-is-the-current-public-fields', lambda old, new, res: res.term == cur)],
                 modifies=['self._dict'])
    return c


def wit_f20(old, new):
    n = z3.Function('len_dict', z3.DeclareSort('DictVal'), I)(old.get('self._dict').term)
    return z3.And(n != 0, z3.Not(to_z3(old.local('refresh'))))


WIT_F20 = {'F20': wit_f20}


def update_config_object(pid):
    """System._update_config_object: an option string is applied iff it has exactly one '=' and its left-hand side exactly
    one '.', with the three parts stripped; otherwise ValueError is raised and that item is not applied.  Callee contracts of
    ConfigParser: add_section raises DuplicateSectionError for an existing section, set raises NoSectionError for a missing one
    (both stated as call-site obligations: a well-formed option must never run into either)."""
    SECT = z3.ArraySort(S, z3.BoolSort())
    COUNT = z3.Function('str_count', S, S, I)
    PART = z3.Function('str_split_part', S, S, I, S)
    STRIP = z3.Function('str_strip', S, S)

    def count_h(ex, st, args, kw, node):
        return COUNT(to_z3(args[0]), to_z3(args[1]))

    def split_h(ex, st, args, kw, node):
        s, sep = to_z3(args[0]), to_z3(args[1])
        ex.oblige(st, 'pre@call:str.split:exactly-one-separator-so-two-parts', COUNT(s, sep) == 1, {})
        return (Opaque(PART(s, sep, 0)), Opaque(PART(s, sep, 1)))

    def strip_h(ex, st, args, kw, node):
        return Opaque(STRIP(to_z3(args[0])))

    def set_h(ex, st, args, kw, node):
        args = args[1:]        # receiver first
        item = st.content(st.env['config_option']).arr[st.env['$i0']]
        eq, dot = TStr.lit('='), TStr.lit('.')
        field, value = PART(item, eq, 0), PART(item, eq, 1)
        sec, key = PART(field, dot, 0), PART(field, dot, 1)
        ex.oblige(st, 'pre@call:ConfigParser.set:section,key,value-are-the-stripped-parts-of-this-item', z3.And(
            to_z3(args[0]) == STRIP(sec), to_z3(args[1]) == STRIP(key), to_z3(args[2]) == STRIP(value)), {})
        ex.oblige(st, 'pre@call:ConfigParser.set:item-is-wellformed', z3.And(COUNT(item, eq) == 1, COUNT(field, dot) == 1), {})
        ex.oblige(st, 'pre@call:ConfigParser.set:section-exists(no-NoSectionError)', st.ghost['sections'][to_z3(args[0])], {})
        st.ghost['applied'] = True
        return None

    def add_section_h(ex, st, args, kw, node):
        sec = to_z3(args[1])
        ex.oblige(st, 'pre@call:ConfigParser.add_section:section-not-there-yet(no-DuplicateSectionError)', z3.Not(st.ghost['sections'][sec]), {})
        st.ghost['sections'] = z3.Store(st.ghost['sections'], sec, z3.BoolVal(True))
        return None

    def has_section_h(ex, st, args, kw, node):
        return st.ghost['sections'][to_z3(args[1])]

    def raises_post(old, new, exc):
        item = new.st.content(new.st.env['config_option']).arr[new.st.env['$i0']]
        eq, dot = TStr.lit('='), TStr.lit('.')
        return z3.And(z3.BoolVal(new.st.ghost['applied'] is False),
                      z3.Or(COUNT(item, eq) != 1, COUNT(PART(item, eq, 0), dot) != 1))

    def options_get(ex, st, args, kw, node):
        return st.load('config_option')

    def pre_body_reset(v):
        return True
    c = Contract(FS, 'System._update_config_object', pid=pid, params={'self': TObj()},
                 schema={'config_option': TOptional(TSeq(elem=S)), 'self._config_object': TOptional(TOpaque('ConfigParser'))},
                 ghost_init={'applied': False, 'sections': lambda v: fresh('sections', SECT)},
                 calls={'self.options.get': options_get, 'configparser.ConfigParser': lambda ex, st, a, k, n: Opaque(fresh('cp', z3.DeclareSort('ConfigParser'))),
                        '<value>.count': count_h, '<value>.split': split_h, '<value>.strip': strip_h,
                        '<value>.set': set_h, '<value>.add_section': add_section_h, '<value>.has_section': has_section_h},
                 globals_={'configparser': Module('configparser')},
                 loops={0: Loop(inv=[], frame=['$item', '$field', '$value', '$section', '$key', 'ghost:sections'])},
                 ensures=[], raises={'ValueError': [('only-for-a-malformed-item-and-that-item-is-not-applied', raises_post)]},
                 modifies=['self._config_object'])
    c.merge = False
    return c


# ------------------------------------------------------------------------------------------------ call-order obligations
def call_order(pack, pid, file, qualname, patterns, label):
    """Structural obligation on the real source: the listed call expressions occur, in this order, as top-level statements
    of the function body (precedence of configuration sources is an ordering fact)."""
    node, sha, src = find_function(file, qualname)
    seq = []
    for stmt in node.body:
        for n in _ast.walk(stmt):
            if isinstance(n, _ast.Call):
                seq.append(_ast.unparse(n.func))
    pos = -1
    ok = True
    missing = None
    for p in patterns:
        try:
            nxt = next(i for i in range(pos + 1, len(seq)) if seq[i] == p)
        except StopIteration:
            ok, missing = False, p
            break
        pos = nxt
    name = '%s/%s:%s/call-order:%s' % (pid, file, qualname, label)
    pack.add({'name': name, 'verdict': 'proved' if ok else 'refuted', 'backend': 'structural', 'time_s': 0.0, 'model': None,
              'smt2': None, 'meta': {'patterns': patterns}, 'note': '' if ok else 'missing or out of order: %s' % missing})
    if not ok:
        pack.violation(name, {'kind': 'structural', 'expected_order': patterns, 'missing_or_out_of_order': missing,
                              'observed_calls': seq[:40]}, no_input=True)
    pack.add_function(qualname + ' (call order)', file, obligations=1, sha=sha)


def replay_as_dict(bname, model, meta):
    from andes.core.common import Config
    c = Config('X', freq=60)
    c.as_dict()
    c.freq = 50
    got = c.as_dict()['freq']
    return {'confirmed': got == 60, 'as_dict_after_assignment': got, 'attribute': c.freq,
            'native_cmd': "Config('X', freq=60); as_dict(); config.freq = 50; as_dict()['freq'] -> 60 (stale)"}



def cfg_load(pid):
    """Config.load: the fields of the section named after this configuration object (and of no other section) are added; nothing
    happens without a parser or without that section."""
    from pyvc.symval import Mark, TOptional, Bo

    def contains(ex, st, args, kw, node):
        cont, item = args
        if isinstance(cont, Mark) and cont.kind == 'parser':
            st.ghost['asked'] = item
            return st.ghost['has']
        return NotImplemented

    def getitem(ex, st, args, kw, node):
        base, sl = args
        if isinstance(base, Mark) and base.kind == 'parser':
            return Mark('section', ex.ev(sl, st))
        return NotImplemented

    def odict(ex, st, args, kw, node):
        return Mark('odict', args[0])

    def add(ex, st, args, kw, node):
        st.ghost['added'] = st.ghost['added'] + [args[0] if args else None]
        return None

    def post(old, new, res):
        name = old.get('self._name')
        added = new.st.ghost['added']
        if old.st.env['config'] is None:
            return z3.BoolVal(added == [])
        want = Mark('odict', Mark('section', name))
        ok_add = len(added) == 1 and isinstance(added[0], Mark) and added[0].kind == 'odict' and added[0].data[0].kind == 'section' \
            and added[0].data[0].data[0] is name
        asked = new.st.ghost.get('asked')
        return z3.And(z3.BoolVal(asked is name), z3.If(new.st.ghost['has'], z3.BoolVal(bool(ok_add)), z3.BoolVal(added == [])))
    out = []
    for none in (False, True):
        c = Contract(FC, 'Config.load', pid=pid, params={'self': TObj(), 'config': TConst(None) if none else TConst(Mark('parser'))},
                     schema={'self._name': TStr()}, ghost_init={'added': [], 'has': lambda v: fresh('has_section', Bo), 'asked': None},
                     calls={'__contains__': contains, '__getitem__': getitem, 'OrderedDict': odict, 'self.add': add},
                     globals_={'OrderedDict': Func('OrderedDict')},
                     ensures=[('adds-exactly-the-section-named-after-this-object,if-present', post)], modifies=[])
        c.merge = False
        c.tag = 'no-parser' if none else 'parser'
        out.append(c)
    return out


def bounded_save_load(pack, pid):
    """bounded native stand-in: save_config then a new System from that file reproduces every field of every configuration with its
    type (fields set to an int, a float whose repr has a signed exponent, a small float and a string beforehand)"""
    from contracts.packutil import native_guard
    name = '%s/andes/system.py:System.save_config;System.__init__/bounded:saved-configuration-reloads-with-equal-values-and-types' % pid

    def go():
        import logging
        import os
        import shutil
        import tempfile
        import andes
        logging.getLogger('andes').setLevel(logging.CRITICAL)
        tmp = tempfile.mkdtemp(prefix='verif_rc_')
        try:
            # values supplied through options (a direct attribute assignment would run into the stale as_dict cache: F20)
            a = andes.System(default_config=True, no_undill=True,
                             config_option=['TDS.tf=7', 'TDS.tol=2.5e-5', 'TDS.ddelta_limit=1e16', 'PFlow.sparselib=umfpack'])
            path = a.save_config(os.path.join(tmp, 'andes.rc'), overwrite=True)
            b = andes.System(config_path=path, no_undill=True)
            owners = [('System', a.config, b.config)] + [(n, r.config, b.routines[n].config) for n, r in a.routines.items()] + \
                [(n, m.config, b.models[n].config) for n, m in a.models.items()]
            for oname, ca, cb in owners:
                da, db = ca.as_dict(refresh=True), cb.as_dict(refresh=True)
                for k, v in da.items():
                    w = db.get(k, '<missing>')
                    if type(v) is not type(w) or v != w:
                        return {'config': oname, 'field': k, 'saved': repr(v), 'reloaded': repr(w)}
            return None
        finally:
            shutil.rmtree(tmp, ignore_errors=True)
    bad = native_guard(pack, name, go)
    pack.bounded.append({'function': 'System.save_config / config loading', 'kind': 'bounded native (one save / load round trip, all fields)',
                         'counted_as_proved': False})
    if bad:
        pack.violation(name, {'bounded': True, 'inputs': bad, 'native_cmd': 'System.save_config(path); System(config_path=path); compare every field'})



FPATHS = 'andes/utils/paths.py'


def get_config_path_c(pid):
    """get_config_path: the answer is a function of what is on disk when it is asked: ./<name> if that file exists now, else
    ~/.andes/<name> if that exists now, else None."""
    from pyvc.symval import Mark, Bo, Module
    S_ = TStr.sort
    HOME, JOINED = fresh('home', S_), fresh('home_rc', S_)
    IN_CWD, IN_HOME = fresh('exists_in_cwd', Bo), fresh('exists_in_home', Bo)

    def isfile(ex, st, args, kw, node):
        a = args[0]
        if a is st.env['file_name'] or (isinstance(a, Opaque) and a.term.eq(st.env['file_name'].term)):
            return IN_CWD
        if isinstance(a, Opaque) and a.term.eq(JOINED):
            return IN_HOME
        return fresh('exists', Bo)

    def join(ex, st, args, kw, node):
        ok = len(args) == 3 and isinstance(args[0], Opaque) and args[0].term.eq(HOME) and args[1] == '.andes' and args[2] is st.env['file_name']
        return Opaque(JOINED if ok else fresh('other_path', S_))

    def post(old, new, res):
        fn = old.st.env['file_name'].term
        r = z3.BoolVal(res is None) if not isinstance(res, Opaque) else None
        if isinstance(res, Opaque):
            return z3.Or(z3.And(IN_CWD, res.term == fn), z3.And(z3.Not(IN_CWD), IN_HOME, res.term == JOINED))
        return z3.And(z3.Not(IN_CWD), z3.Not(IN_HOME)) if res is None else False
    c = Contract(FPATHS, 'get_config_path', pid=pid, params={'file_name': TStr()}, schema={},
                 calls={'os.path.expanduser': lambda ex, st, a, k, n: Opaque(HOME), 'os.path.isfile': isfile, 'os.path.join': join},
                 globals_={'os': Module('os')},
                 ensures=[('cwd-file-if-present-now,else-home-file-if-present-now,else-None', post)], modifies=[])
    c.merge = False
    return c


def replay_get_config_path(obligation, model, meta):
    """native run of the real get_config_path while the files appear and disappear: every call must reflect the disk at that moment"""
    import os
    import shutil
    import tempfile
    from andes.utils.paths import get_config_path
    tmp = tempfile.mkdtemp(prefix='verif_cfgpath_')
    old_home, old_cwd = os.environ.get('HOME'), os.getcwd()
    try:
        home, cwd = os.path.join(tmp, 'home'), os.path.join(tmp, 'cwd')
        os.makedirs(os.path.join(home, '.andes'))
        os.makedirs(cwd)
        os.environ['HOME'] = home
        os.chdir(cwd)
        hrc, crc = os.path.join(home, '.andes', 'andes.rc'), os.path.join(cwd, 'andes.rc')
        steps = [('no file', None, None), ('home file created', hrc, 'create'), ('cwd file created', crc, 'create'), ('cwd file removed', crc, 'remove'),
                 ('home file removed', hrc, 'remove')]
        for label, path, action in steps:
            if action == 'create':
                open(path, 'w').write('[System]\nfreq = 50\n')
            elif action == 'remove':
                os.remove(path)
            want = 'andes.rc' if os.path.isfile(crc) else (hrc if os.path.isfile(hrc) else None)
            got = get_config_path()
            if got != want and not (got is not None and want is not None and os.path.abspath(got) == os.path.abspath(want)):
                return {'confirmed': True, 'inputs': {'sequence up to': label}, 'observed': 'get_config_path() -> %r, on disk now: %r' % (got, want),
                        'native_cmd': 'get_config_path() in a process where andes.rc files are created and removed'}
    finally:
        os.chdir(old_cwd)
        if old_home is None:
            os.environ.pop('HOME', None)
        else:
            os.environ['HOME'] = old_home
        shutil.rmtree(tmp, ignore_errors=True)
    return {'confirmed': False, 'tried': 5}


def replay_precedence(obligation=None, model=None, meta=None):
    """native: values given through SECTION.FIELD=VALUE options and through an rc file are the values in effect after loading a case the
    way the command line does it (every argparse default present in the keyword arguments, so un-given flags are there as False / None),
    with precedence option > file > default; a value given on the command line itself (tf) beats both"""
    import contextlib
    import io
    import logging
    import os
    import shutil
    import tempfile
    import andes
    from andes.cli import create_parser
    logging.getLogger('andes').setLevel(logging.CRITICAL)
    tmp = tempfile.mkdtemp(prefix='verif_prec_')
    n = 0
    try:
        rc = os.path.join(tmp, 'andes.rc')
        with open(rc, 'w') as f:
            f.write('[TDS]\nqrt = 1\nkqrt = 2.5\ntstep = 0.02\nsave_every = 3\n\n[PFlow]\nmax_iter = 17\n\n[System]\nfreq = 50\n')
        case = andes.get_case('5bus/pjm5bus.xlsx')
        parser = create_parser()
        scenarios = [
            ('options only', ['run', case, '-O', 'TDS.qrt=1', 'TDS.kqrt=1.5', 'PFlow.max_iter=9'], {'TDS.qrt': 1, 'TDS.kqrt': 1.5, 'PFlow.max_iter': 9}),
            ('rc file only', ['run', case, '@rc'], {'TDS.qrt': 1, 'TDS.kqrt': 2.5, 'TDS.tstep': 0.02, 'TDS.save_every': 3, 'PFlow.max_iter': 17, 'System.freq': 50}),
            ('option over rc file', ['run', case, '@rc', '-O', 'TDS.kqrt=4.0', 'PFlow.max_iter=5'],
             {'TDS.qrt': 1, 'TDS.kqrt': 4.0, 'TDS.tstep': 0.02, 'PFlow.max_iter': 5, 'System.freq': 50}),
            ('command-line tf over option', ['run', case, '--tf', '3.5', '-O', 'TDS.tf=9', 'TDS.qrt=1'], {'TDS.tf': 3.5, 'TDS.qrt': 1}),
        ]
        for label, argv, want in scenarios:
            n += 1
            use_rc = '@rc' in argv
            args = vars(parser.parse_args([a for a in argv if a != '@rc']))
            if use_rc:
                args['config_path'] = rc
            for k in ('func', 'filename', 'verbose', 'routine', 'ncpu', 'pool', 'shell', 'profile', 'dime_address'):
                args.pop(k, None)
            args['no_output'] = True
            with contextlib.redirect_stdout(io.StringIO()), contextlib.redirect_stderr(io.StringIO()):
                ss = andes.load(case, **args)
            for key, val in want.items():
                sec, fld = key.split('.')
                obj = ss if sec == 'System' else ss.__dict__[sec]
                got = getattr(obj.config, fld)
                if got != val:
                    return {'confirmed': True, 'inputs': {'scenario': label, 'command line': ' '.join(argv[2:]), 'rc file': 'TDS: qrt=1, kqrt=2.5, tstep=0.02, save_every=3; PFlow: max_iter=17; System: freq=50'},
                            'observed': '%s in effect is %r, expected %r' % (key, got, val), 'native_cmd': 'contracts/fn_config.py replay_precedence'}
    finally:
        shutil.rmtree(tmp, ignore_errors=True)
    return {'confirmed': False, 'tried': n}


replay_precedence.real_system = True


def replay_cfg_check(obligation=None, model=None, meta=None):
    """native run of the real Config.check: string and numeric fields with declared alternatives -- a declared choice passes, every
    other value raises ValueError, also one that differs from a choice only in letter case, surrounding blanks or numeric type"""
    from andes.core.common import Config
    n = 0
    for alt, good, bad in ((('NR', 'dishonest', 'NK'), ['NR', 'dishonest', 'NK'], ['nr', 'DISHONEST', 'Dishonest', 'nk', ' NR', 'NR ', 'newton', '', 0]),
                           (('auto', 'manual'), ['auto', 'manual'], ['AUTO', 'Auto', 'manual ', 1]),
                           ((0, 1), [0, 1], [2, -1, '0', 'a', 0.5]),
                           (('trapezoid', 'backeuler'), ['trapezoid'], ['BackEuler', 'Trapezoid'])):
        for val, ok in [(g, True) for g in good] + [(b, False) for b in bad]:
            c = Config('Verif')
            c.add(field=alt[0])
            c.add_extra('_alt', field=alt)
            c.field = val
            n += 1
            try:
                r = c.check()
                raised = False
            except ValueError:
                r, raised = None, True
            # the value is assigned before the first as_dict() call, so the stale cache of finding F20 plays no part
            if raised == ok or (ok and r is not True):
                return {'confirmed': True, 'inputs': {'declared alternatives': list(alt), 'value': val},
                        'observed': 'Config.check() %s; the value is %s the declared alternatives' % ('raised ValueError' if raised else 'returned %r' % (r,), 'one of' if ok else 'not among'),
                        'native_cmd': "Config('Verif'); add(field=...); add_extra('_alt', field=alternatives); field = value; check()"}
    return {'confirmed': False, 'tried': n}
