"""Contracts for C12: ConnMan._update / record / act, System.g_islands."""
import z3

from pyvc.symex import Contract, Loop, spec, View, Outcomes, to_z3, as_real
from pyvc.symval import (TArr, TBool, TFloat, TInt, TObj, TOpaque, TReal, TSeq, TStr, TConst, NR, TOptional, fresh, I, R, Bo,
                         MaybeNone, Func, Opaque, TNone, Module, Ref, ArrC, ListC, DictC, Unsupported, Obj)

FC = 'andes/core/connman.py'
FS = 'andes/system.py'
K = TStr.sort


def forall(n, body):
    k = fresh('k', I)
    return z3.ForAll([k], z3.Implies(z3.And(k >= 0, k < n), body(k)))


def conn_schema(N):
    return {'self.busu0': TArr(n=N), 'self.system.Bus.u.v': TArr(n=N), 'self.is_needed': TBool(),
            'self.system.Bus.idx.v': TSeq(elem=K), 'self.system.TDS.initialized': TBool(),
            'ON': TArr(n=N), 'OFF': TArr(n=N)}


def changes_state(st):
    st.heap['self.changes'] = st.new_ref(DictC({'on': st.load('ON'), 'off': st.load('OFF')}), 'changes')


def b01(c):
    return z3.If(c, z3.RealVal(1), z3.RealVal(0))


def update(pid):
    """ConnMan._update: 'on' = was off and now on, 'off' = was on and now off (element-wise); the snapshot follows."""
    N = fresh('N', I)

    def post(old, new, res):
        b0, u = old.arr('self.busu0'), old.arr('self.system.Bus.u.v')
        on, off, b1 = new.arr('ON'), new.arr('OFF'), new.arr('self.busu0')
        return forall(N, lambda k: z3.And(on.vals[k] == b01(z3.And(b0.vals[k] == 0, u.vals[k] == 1)),
                                          off.vals[k] == b01(z3.And(b0.vals[k] == 1, u.vals[k] == 0)), b1.vals[k] == u.vals[k]))
    c = Contract(FC, 'ConnMan._update', pid=pid, params={'self': TObj()}, schema=conn_schema(N),
                 requires=[('N>=0', lambda v: N >= 0)],
                 ensures=[('on/off-are-the-status-transitions;snapshot-updated', post)],
                 modifies=['ON', 'OFF', 'self.busu0'])
    c.pre_state = changes_state
    return c


def record(pid):
    """ConnMan.record: pending 'off' changes are kept until act() consumes them (F12: they are overwritten)."""
    N = fresh('N', I)

    def update_h(ex, st, args, kw, node):
        v = View(st, ex)
        b0, u = v.arr('self.busu0'), v.arr('self.system.Bus.u.v')
        old = View(st.copy(), ex)
        spec(modifies=['loc:ON', 'loc:OFF', 'loc:self.busu0'], name='ConnMan._update')(ex, st, args, kw, node)
        on, off, b1 = v.arr('ON'), v.arr('OFF'), v.arr('self.busu0')
        ob0, ou = old.arr('self.busu0'), old.arr('self.system.Bus.u.v')
        st.assume(forall(N, lambda k: z3.And(on.vals[k] == b01(z3.And(ob0.vals[k] == 0, ou.vals[k] == 1)),
                                             off.vals[k] == b01(z3.And(ob0.vals[k] == 1, ou.vals[k] == 0)),
                                             b1.vals[k] == ou.vals[k])))
        return None

    def nonzero(ex, st, args, kw, node):
        c = st.content(args[0])
        n = fresh('nnz', I)
        st.assume(n >= 0)
        k = fresh('k', I)
        st.assume((n == 0) == z3.ForAll([k], z3.Implies(z3.And(k >= 0, k < c.n), c.vals[k] == 0)))
        arr = fresh('nz', z3.ArraySort(I, I))
        return (st.new_ref(__import__('pyvc.symval', fromlist=['SeqC']).SeqC(arr, n, None), 'nonzero'),)

    def post_pending(old, new, res):
        off0, off1 = old.arr('OFF'), new.arr('OFF')
        return z3.Implies(old.z('self.is_needed'), forall(N, lambda k: z3.Implies(off0.vals[k] == 1, off1.vals[k] == 1)))

    def post_flag(old, new, res):
        off1 = new.arr('OFF')
        k = fresh('k', I)
        anyoff = z3.Exists([k], z3.And(k >= 0, k < N, off1.vals[k] != 0))
        return z3.Implies(anyoff, new.z('self.is_needed'))
    c = Contract(FC, 'ConnMan.record', pid=pid, params={'self': TObj()}, schema=conn_schema(N),
                 requires=[('N>=0', lambda v: N >= 0),
                           ('pending-flags-0/1', lambda v: forall(N, lambda k: z3.Or(v.arr('OFF').vals[k] == 0, v.arr('OFF').vals[k] == 1)))],
                 calls={'self._update': update_h, 'np.nonzero': nonzero},
                 ensures=[('pending-off-changes-survive-until-act', post_pending), ('any-off-change=>update-needed', post_flag)],
                 raises={'NotImplementedError': [('only-when-a-bus-is-turned-on', lambda o, n, e: True)]},
                 modifies=['ON', 'OFF', 'self.busu0', 'self.is_needed'])
    c.pre_state = changes_state
    c.check_bounds = False
    return c


def wit_f12(old, new):
    k = fresh('k', I)
    N = old.arr('OFF').n
    return z3.And(old.z('self.is_needed'), z3.Exists([k], z3.And(k >= 0, k < N, old.arr('OFF').vals[k] == 1)))


WIT_F12 = {'F12': wit_f12}


# ------------------------------------------------------------------------------------------------ act
class GL:
    """ghost description of a python list of device idx: membership predicate, presence of None, emptiness"""
    def __init__(self, mem, hasnone, nonempty, only_none=None):
        self.mem, self.hasnone, self.nonempty = mem, hasnone, nonempty
        self.only_none = only_none if only_none is not None else z3.BoolVal(False)


ATT = z3.Function('attached_via', K, K, K, Bo)        # ATT(group, src, dev): device dev of group has its <src> on an off bus
ANYMISS = z3.Function('some_off_bus_without_device', K, K, Bo)   # ghost: find_idx returned [None] for some off bus


def act(pid):
    """ConnMan.act: for every dependent group exactly the devices attached (through any of its bus fields) to a bus that
    was switched off are switched off -- Group.set is called with that set of idx and never with None (F13)."""
    from pyvc.symval import TStr as _T
    N = fresh('N', I)
    sch = conn_schema(N)
    D = z3.Const('d', K)

    def find_idx(ex, st, args, kw, node):
        grp = st.env['grp_name']
        src = kw['keys']
        g, s = _T.lit(grp), _T.lit(src)
        ex.oblige(st, 'pre@call:find_idx:queried-with-the-off-bus-list-all-matches', z3.BoolVal(
            kw.get('allow_all') is True and kw.get('allow_none') is True and kw.get('values') is st.env['offbus_idx']), {})
        anydev = fresh('anydev', Bo)
        st.assume(anydev == z3.Exists([D], ATT(g, s, D)))
        n_off = st.content(st.env['offbus_idx']).n
        st.assume(z3.Implies(z3.Not(anydev), ANYMISS(g, s)))         # no device at all => every off bus yields [None]
        return GL(z3.Lambda([D], ATT(g, s, D)), ANYMISS(g, s), z3.BoolVal(True),
                  only_none=z3.And(z3.Not(anydev), n_off == 1))

    def flatten(ex, st, args, kw, node):
        x = args[0]
        if isinstance(x, GL):
            return x
        if isinstance(x, Ref) and isinstance(st.content(x), ListC):
            items = st.content(x).items
            if not items:
                return GL(z3.K(K, z3.BoolVal(False)), z3.BoolVal(False), z3.BoolVal(False))
            mem = items[0].mem
            hn, ne = items[0].hasnone, items[0].nonempty
            for it in items[1:]:
                mem = z3.Lambda([D], z3.Or(mem[D], it.mem[D]))
                hn, ne = z3.Or(hn, it.hasnone), z3.Or(ne, it.nonempty)
            return GL(mem, hn, ne)
        raise Unsupported('list_flatten of %r' % (x,))

    def glist_ne(ex, st, args, kw, node):
        raise Unsupported('x')

    def group_set(ex, st, args, kw, node):
        grp = st.env['grp_name']
        g = _T.lit(grp)
        lst = kw['idx']
        srcs = BUS_DEPS[grp]
        want = z3.Lambda([D], z3.Or(*[ATT(g, _T.lit(s), D) for s in srcs]))
        ex.oblige(st, 'pre@call:Group.set(u=0):exactly-the-devices-attached-to-an-off-bus', z3.And(
            z3.BoolVal(kw.get('src') == 'u' and kw.get('attr') == 'v' and kw.get('value') == 0),
            z3.ForAll([D], lst.mem[D] == want[D])), {})
        ex.oblige(st, 'pre@call:Group.set(u=0):no-None-among-the-idx', z3.Not(lst.hasnone), {})
        return None
    BUS_DEPS = {}

    def pre_state(st):
        changes_state(st)
        import andes.core.connman as cm
        BUS_DEPS.update({k: list(v) for k, v in cm.bus_deps.items()})
        st.env['bus_deps'] = st.new_ref(DictC({k: st.new_ref(ListC(list(v)), 'srcs') for k, v in cm.bus_deps.items()}), 'bus_deps')

    def compare_hook(ex, st, args, kw, node):
        import ast as _ast
        op, a, b = args
        if isinstance(a, GL) and isinstance(b, Ref) and isinstance(st.content(b), ListC) and st.content(b).items == [None]:
            r = a.only_none
            return z3.Not(r) if isinstance(op, _ast.NotEq) else r
        return NotImplemented

    def len_hook(ex, st, args, kw, node):
        x = args[0]
        if isinstance(x, GL):
            return z3.If(x.nonempty, z3.IntVal(1), z3.IntVal(0))
        from pyvc.symex import _len
        return _len(ex, st, args, kw, node)

    def post(old, new, res):
        # every group with at least one attached device had Group.set called (once)
        called = new.st.ghost['set_called']
        return z3.BoolVal(len(called) == len(set(called)))
    c = Contract(FC, 'ConnMan.act', pid=pid, params={'self': TObj()}, schema=sch,
                 requires=[('N>=0', lambda v: N >= 0), ('update-needed', lambda v: v.z('self.is_needed')),
                           ('not-during-TDS', lambda v: z3.Not(v.z('self.system.TDS.initialized')))],
                 ghost_init={'set_called': []},
                 calls={'np.nonzero': None, 'self.system.$grp.find_idx': find_idx, 'list_flatten': flatten,
                        'self.system.$grp.set': group_set, '__objdict__': None,
                        'self._update': spec(modifies=['loc:ON', 'loc:OFF', 'loc:self.busu0'], name='ConnMan._update'),
                        'self.system.connectivity': spec(name='System.connectivity')},
                 globals_={'list_flatten': Func('list_flatten')},
                 loops={0: Loop(inv=[], frame=['$grp_name', '$src_list', '$devices', '$src', '$grp_devs', '$grp_devs_flat',
                                               '$devices_flat', 'ghost:set_called'])},
                 ensures=[('flag-reset', lambda old, new, res: z3.Not(new.z('self.is_needed')))],
                 modifies=['ON', 'OFF', 'self.busu0', 'self.is_needed'])
    c.pre_state = pre_state
    c.check_bounds = False
    c.merge = False

    def nonzero(ex, st, args, kw, node):
        from pyvc.symval import SeqC
        cnt = fresh('nnz', I)
        st.assume(cnt >= 0)
        return (st.new_ref(SeqC(fresh('nz', z3.ArraySort(I, I)), cnt, None), 'nonzero'),)
    c.calls['np.nonzero'] = nonzero
    c.calls['__objdict__'] = lambda ex, st, a, k, n: Obj('self.system.$grp')
    c.calls['__compare__'] = compare_hook
    c.calls['len'] = len_hook
    return c


def wit_f13(old, new):
    g, s = z3.Consts('g s', K)
    return z3.Exists([g, s], ANYMISS(g, s))


WIT_F13 = {'F13': wit_f13}


def g_islands(pid):
    """System.g_islands: exactly the a- and v-rows of islanded buses are zeroed in the algebraic residual."""
    NI, M = fresh('NI', I), fresh('M', I)

    def post(old, new, res):
        g0, g1 = old.arr('self.dae.g'), new.arr('self.dae.g')
        ia, iv = old.arr('self.Bus.islanded_a'), old.arr('self.Bus.islanded_v')
        k, j = fresh('k', I), fresh('j', I)
        isl = z3.Or(z3.Exists([j], z3.And(j >= 0, j < NI, z3.ToInt(ia.vals[j]) == k)),
                    z3.Exists([j], z3.And(j >= 0, j < NI, z3.ToInt(iv.vals[j]) == k)))
        active = old.z('self.Bus.n_islanded_buses') != 0
        return z3.ForAll([k], z3.Implies(z3.And(k >= 0, k < M), g1.vals[k] == z3.If(z3.And(active, isl), 0, g0.vals[k])))
    return Contract(FS, 'System.g_islands', pid=pid, params={'self': TObj()},
                    schema={'self.Bus.n_islanded_buses': TInt(), 'self.dae.g': TArr(n=M), 'self.Bus.islanded_a': TArr(n=NI, kind='int'),
                            'self.Bus.islanded_v': TArr(n=NI, kind='int')},
                    requires=[('sizes', lambda v: z3.And(NI >= 0, M >= 0, v.z('self.Bus.n_islanded_buses') == NI)),
                              ('addresses-in-range', lambda v: z3.ForAll([JJ], z3.Implies(z3.And(JJ >= 0, JJ < NI), z3.And(
                                  v.arr('self.Bus.islanded_a').vals[JJ] >= 0, z3.ToInt(v.arr('self.Bus.islanded_a').vals[JJ]) < M,
                                  v.arr('self.Bus.islanded_v').vals[JJ] >= 0, z3.ToInt(v.arr('self.Bus.islanded_v').vals[JJ]) < M))))],
                    ensures=[('exactly-the-rows-of-islanded-buses-are-zeroed', post)], modifies=['self.dae.g'])


JJ = z3.Int('jj')


# ------------------------------------------------------------------------------------------------ native replays
def replay_record(bname, model, meta):
    """F12 on the real code: two successive bus-offs without act(): the first pending change is lost."""
    if 'pending-off' not in bname:
        return None
    import logging
    import andes
    logging.getLogger('andes').setLevel(logging.CRITICAL)
    ss = andes.load(andes.get_case('5bus/pjm5bus.xlsx'), default_config=True, no_output=True)
    ss.Bus.u.v[0] = 0
    ss.conn.record()
    first = ss.conn.changes['off'].copy()
    ss.Bus.u.v[3] = 0
    ss.conn.record()
    second = ss.conn.changes['off'].copy()
    return {'confirmed': bool(first[0] == 1 and second[0] == 0 and second[3] == 1), 'off_after_first': first.tolist(),
            'off_after_second': second.tolist(),
            'native_cmd': 'pjm5bus: Bus.u[0]=0; conn.record(); Bus.u[3]=0; conn.record() -> pending off of bus 0 is gone'}


def replay_act(bname, model, meta):
    """F13 on the real code: two buses off, a dependent group without any device on them -> Group.set(idx=[None, None]).  For any
    other obligation (or when no verification condition could be generated): one bus switched off at a time on pjm5bus, whose device
    indices start at 0 -- exactly the devices attached to that bus must go out of service, and the bus must be reported isolated."""
    if 'no-None' not in bname:
        return replay_bus_off()
    import logging
    import andes
    logging.getLogger('andes').setLevel(logging.CRITICAL)
    ss = andes.load(andes.get_case('5bus/pjm5bus.xlsx'), default_config=True, no_output=True, setup=False)
    ss.Bus.alter('u', ss.Bus.idx.v[0], 0)
    ss.Bus.alter('u', ss.Bus.idx.v[3], 0)
    try:
        ss.setup()
        err = None
    except Exception as e:   # noqa
        err = repr(e)
    return {'confirmed': err is not None and 'KeyError' in err, 'exception': err,
            'native_cmd': 'pjm5bus (setup=False): Bus 0 and 3 off; System.setup() -> ConnMan.act -> KeyError'}



def replay_bus_off():
    import logging
    import andes
    logging.getLogger('andes').setLevel(logging.CRITICAL)
    case = andes.get_case('5bus/pjm5bus.xlsx')
    ref = andes.load(case, default_config=True, no_output=True)
    fields = {'Line': ('bus1', 'bus2'), 'PQ': ('bus',), 'PV': ('bus',), 'Slack': ('bus',)}
    for b in ref.Bus.idx.v:
        ss = andes.load(case, default_config=True, no_output=True)
        ss.Bus.set('u', b, 'v', 0)
        try:
            ss.PFlow.run()
        except Exception as e:      # noqa
            return {'confirmed': True, 'inputs': {'case': 'pjm5bus', 'bus switched off': b}, 'observed': repr(e),
                    'native_cmd': "Bus.set('u', bus, 'v', 0); PFlow.run()"}
        for mname, flds in fields.items():
            m, m0 = ss.__dict__[mname], ref.__dict__[mname]
            for k in range(m.n):
                attached = any(m.__dict__[f].v[k] == b for f in flds)
                want = 0.0 if attached else float(m0.u.v[k])
                if float(m.u.v[k]) != want:
                    return {'confirmed': True, 'inputs': {'case': 'pjm5bus', 'bus switched off': b},
                            'observed': '%s %r (attached to the bus: %r) has u = %r, expected %r' % (mname, m.idx.v[k], attached, float(m.u.v[k]), want),
                            'native_cmd': "Bus.set('u', bus, 'v', 0); PFlow.run()"}
        if [int(i) for i in ss.Bus.islanded_buses] != [ss.Bus.idx2uid(b)]:
            return {'confirmed': True, 'inputs': {'case': 'pjm5bus', 'bus switched off': b},
                    'observed': 'isolated buses reported %r, expected %r' % (list(ss.Bus.islanded_buses), [ss.Bus.idx2uid(b)]),
                    'native_cmd': "Bus.set('u', bus, 'v', 0); PFlow.run()"}
    # a bus that is off for good (Bus.alter writes the input value too) stays handled after System.reset(): its devices are switched
    # off again and it is reported as isolated
    for b in list(ref.Bus.idx.v)[1:3]:
        ss = andes.load(case, default_config=True, no_output=True)
        ss.Bus.alter('u', b, 0)
        try:
            ss.PFlow.run()
            ss.reset()
            ss.PFlow.run()
        except Exception as e:      # noqa
            return {'confirmed': True, 'inputs': {'case': 'pjm5bus', 'sequence': "Bus.alter('u', %r, 0); PFlow.run(); reset(); PFlow.run()" % (b,)}, 'observed': repr(e),
                    'native_cmd': 'contracts/fn_connman.py replay_bus_off'}
        for mname, flds in fields.items():
            m, m0 = ss.__dict__[mname], ref.__dict__[mname]
            for k in range(m.n):
                attached = any(m.__dict__[f].v[k] == b for f in flds)
                want = 0.0 if attached else float(m0.u.v[k])
                if float(m.u.v[k]) != want:
                    return {'confirmed': True, 'inputs': {'case': 'pjm5bus', 'sequence': "Bus.alter('u', %r, 0); PFlow.run(); reset(); PFlow.run()" % (b,)},
                            'observed': 'after the reset %s %r (attached to the off bus: %r) has u = %r, expected %r' % (mname, m.idx.v[k], attached, float(m.u.v[k]), want),
                            'native_cmd': 'contracts/fn_connman.py replay_bus_off'}
        if [int(i) for i in ss.Bus.islanded_buses] != [ss.Bus.idx2uid(b)]:
            return {'confirmed': True, 'inputs': {'case': 'pjm5bus', 'sequence': "Bus.alter('u', %r, 0); PFlow.run(); reset(); PFlow.run()" % (b,)},
                    'observed': 'after the reset the isolated buses are reported as %r, expected %r' % (list(ss.Bus.islanded_buses), [ss.Bus.idx2uid(b)]),
                    'native_cmd': 'contracts/fn_connman.py replay_bus_off'}
    # a numbered case extended by a bus without an explicit idx (it is named 'Bus_15'): the bus columns now mix numbers and strings
    ss = andes.load(andes.get_case('ieee14/ieee14.raw'), default_config=True, no_output=True, setup=False)
    nb = ss.add('Bus', dict(Vn=69.0))
    ss.add('Line', dict(bus1=14, bus2=nb, r=0.01, x=0.1, idx='Line_new'))
    ss.add('PQ', dict(bus=nb, p0=0.02, q0=0.01))
    ss.setup()
    ss.Bus.set(src='u', idx=14, attr='v', value=0)
    try:
        ss.PFlow.run()
    except Exception as e:      # noqa
        return {'confirmed': True, 'inputs': {'case': 'ieee14.raw + Bus (auto idx) + Line 14-<new> + PQ', 'bus switched off': 14}, 'observed': repr(e),
                'native_cmd': 'contracts/fn_connman.py replay_bus_off'}
    for mname, flds in fields.items():
        m = ss.__dict__[mname]
        for k in range(m.n):
            attached = any(m.__dict__[f].v[k] == 14 for f in flds)
            if attached and float(m.u.v[k]) != 0.0:
                return {'confirmed': True, 'inputs': {'case': 'ieee14.raw + Bus (auto idx %r) + Line 14-%r + PQ' % (nb, nb), 'bus switched off': 14},
                        'observed': '%s %r is attached to the off bus and still in service' % (mname, m.idx.v[k]), 'native_cmd': 'contracts/fn_connman.py replay_bus_off'}
    return {'confirmed': False, 'tried': ref.Bus.n + 3}


def replay_g_islands(obligation, model, meta):
    """native run of the real System.g_islands on a stub: successive calls with different islanded sets (also of equal size) zero
    exactly the residuals of the buses that are islanded at that call"""
    from types import SimpleNamespace
    import numpy as np
    from andes.system import System
    from contracts.packutil import Stub
    stub = Stub(_cls=System, Bus=SimpleNamespace(n_islanded_buses=0, islanded_a=np.array([], dtype=int), islanded_v=np.array([], dtype=int)),
                dae=SimpleNamespace(g=np.zeros(12)))
    for a, v in (([], []), ([2], [8]), ([4], [10]), ([1, 3], [7, 9]), ([0, 3], [6, 9]), ([], [])):
        stub.Bus.n_islanded_buses = len(a)
        stub.Bus.islanded_a, stub.Bus.islanded_v = np.array(a, dtype=int), np.array(v, dtype=int)
        stub.dae.g[:] = np.arange(1.0, 13.0)
        System.g_islands(stub)
        want = np.arange(1.0, 13.0)
        want[list(a) + list(v)] = 0.0
        if not np.array_equal(stub.dae.g, want):
            return {'confirmed': True, 'inputs': {'sequence up to': {'islanded_a': a, 'islanded_v': v}},
                    'observed': 'dae.g after g_islands = %r, expected %r' % (stub.dae.g.tolist(), want.tolist()),
                    'native_cmd': 'System.g_islands(stub) called for a sequence of islanded sets'}
    return {'confirmed': False, 'tried': 6}


def conn_init(pid):
    """ConnMan.init (run by every System.setup, also the one inside System.reset): whatever the manager remembered before, afterwards
    every bus counts as previously online (busu0 all ones, one entry per bus), no 'on' change is pending, the pending 'off' changes are
    exactly the buses whose status is 0 now, is_needed is raised when there is one, the changes are acted upon, and True is returned."""
    N = fresh('N', I)

    def astype(ex, st, args, kw, node):
        return args[0]

    def act_h(ex, st, args, kw, node):
        st.ghost['acted'] = st.ghost['acted'] + 1
        ch = st.content(st.load('self.changes')).items
        off, b0, u = st.content(ch['off']), st.content(st.load('self.busu0')), st.content(st.load('self.system.Bus.u.v'))
        k = fresh('k', I)
        ex.oblige(st, 'pre@call:act:pending-off-changes-are-exactly-the-buses-that-are-off-now,all-buses-previously-online',
                  z3.And(off.n == N, b0.n == N, z3.ForAll([k], z3.Implies(z3.And(k >= 0, k < N), z3.And(
                      b0.vals[k] == 1, z3.If(u.vals[k] == 0, off.vals[k] != 0, off.vals[k] == 0))))), {})
        return None

    def post(old, new, res):
        ch = new.st.content(new.st.load('self.changes')).items
        on, off = new.st.content(ch['on']), new.st.content(ch['off'])
        b0, u = new.arr('self.busu0'), old.arr('self.system.Bus.u.v')
        k = fresh('k', I)
        anyoff = z3.Exists([k], z3.And(k >= 0, k < N, u.vals[k] == 0))
        r = res if z3.is_expr(res) else z3.BoolVal(bool(res))
        return z3.And(z3.BoolVal(new.st.ghost['acted'] == 1), r, on.n == N, off.n == N, b0.n == N,
                      z3.ForAll([k], z3.Implies(z3.And(k >= 0, k < N), z3.And(b0.vals[k] == 1, on.vals[k] == 0,
                                                                              z3.If(u.vals[k] == 0, off.vals[k] != 0, off.vals[k] == 0)))),
                      z3.Implies(anyoff, new.z('self.is_needed')))
    c = Contract(FC, 'ConnMan.init', pid=pid, params={'self': TObj()},
                 schema={'self.busu0': TArr(), 'self.system.Bus.u.v': TArr(n=N), 'self.system.Bus.n': TInt(), 'self.is_needed': TBool(), 'ON': TArr(), 'OFF': TArr()},
                 requires=[('sizes', lambda v: z3.And(N >= 0, v.z('self.system.Bus.n') == N)),
                           ('statuses-are-0-or-1', lambda v: forall(N, lambda k: z3.Or(v.arr('self.system.Bus.u.v').vals[k] == 0, v.arr('self.system.Bus.u.v').vals[k] == 1)))],
                 ghost_init={'acted': 0}, calls={'self.act': act_h, '<value>.astype': astype},
                 ensures=[('busu0=ones;on=zeros;off=buses-off-now;is_needed-if-any;acted-once;returns-True', post)],
                 modifies=['self.busu0', 'self.changes', 'self.is_needed', 'ON', 'OFF'])
    c.pre_state = changes_state
    return c


def replay_conn_init(obligation=None, model=None, meta=None):
    return replay_bus_off()


replay_conn_init.real_system = True


def summary(pid):
    """System.summary reports; it changes nothing: the island lists it prints are the ones Bus.nosw_island / msw_island index into
    (an empty frame: any write or rebinding of the island data, in place or not, fails the frame obligation)."""
    nop = lambda ex, st, a, k, n: None     # noqa
    ISL = z3.DeclareSort('IslandSet')

    def unchanged(old, new, res):
        try:
            return z3.And(*[z3.And(new.arr(p).n == old.arr(p).n, new.arr(p).arr == old.arr(p).arr)
                            for p in ('self.Bus.island_sets', 'self.Bus.nosw_island', 'self.Bus.msw_island')])
        except (z3.Z3Exception, AttributeError):
            return z3.BoolVal(False)        # rebound to a value of another kind: not the list it was
    return Contract(FS, 'System.summary', pid=pid, params={'self': TObj()},
                    schema={'self.Bus.island_sets': TSeq(elem=ISL), 'self.Bus.nosw_island': TSeq(elem=I), 'self.Bus.msw_island': TSeq(elem=I),
                            'self.Bus.n_islanded_buses': TInt(), 'self.Bus.islanded_buses': TOpaque('BusList')},
                    requires=[('classification-indexes-the-island-list', lambda v: z3.ForAll([JJ], z3.And(
                        z3.Implies(z3.And(JJ >= 0, JJ < v.arr('self.Bus.nosw_island').n),
                                   z3.And(v.arr('self.Bus.nosw_island').arr[JJ] >= 0, v.arr('self.Bus.nosw_island').arr[JJ] < v.arr('self.Bus.island_sets').n)),
                        z3.Implies(z3.And(JJ >= 0, JJ < v.arr('self.Bus.msw_island').n),
                                   z3.And(v.arr('self.Bus.msw_island').arr[JJ] >= 0, v.arr('self.Bus.msw_island').arr[JJ] < v.arr('self.Bus.island_sets').n)))))],
                    calls={'logger.info': nop, 'logger.debug': nop, 'logger.warning': nop},
                    ensures=[('island-data-unchanged', unchanged)],
                    modifies=[])


def replay_summary(obligation=None, model=None, meta=None):
    """native: islands of loaded cases classified by their slack generators, with the summary printed (the default) and without"""
    from contracts import bounded_islands_real as BIR
    n, bad = BIR.run()
    if bad:
        return {'confirmed': True, 'inputs': bad, 'observed': str(bad.get('observed'))[:300], 'native_cmd': 'contracts/bounded_islands_real.py'}
    return {'confirmed': False, 'tried': n}

replay_summary.real_system = True
