"""Stability criterion used by TDS.run (C17, C04): contract on criteria.deltadelta and TDS.check_criteria."""
import z3

from pyvc.symex import Contract, View, to_z3
from pyvc.symval import TArr, TObj, TReal, fresh, I, R, Ref

FC = 'andes/routines/criteria.py'
FT = 'andes/routines/tds.py'


def deltadelta(pid):
    """criteria.deltadelta: stable iff fewer than two angles, or the spread max(delta) - min(delta) is below the limit (degrees)."""
    def post(old, new, res):
        d = old.st.content(old.st.env['delta'])
        lim = old.st.env['diff_limit'].val * z3.Real('pi') / 180
        a, b = fresh('a', I), fresh('b', I)
        spread_below = z3.ForAll([a, b], z3.Implies(z3.And(a >= 0, a < d.n, b >= 0, b < d.n), d.vals[a] - d.vals[b] < lim))
        r = res if z3.is_expr(res) else z3.BoolVal(bool(res))
        return r == z3.Or(d.n < 2, spread_below)
    c = Contract(FC, 'deltadelta', pid=pid, params={'delta': TArr(), 'diff_limit': TReal()}, schema={},
                 calls={'<value>.tolist': lambda ex, st, a, k, n: a[0]},
                 requires=[('pi>3', lambda v: z3.And(z3.Real('pi') > 3, z3.Real('pi') < 4))],
                 ensures=[('stable<=>(fewer-than-2-angles-or-spread<limit)', post)], modifies=[])
    return c


def replay_deltadelta(obligation, model, meta):
    """native: value and *type* of the verdict -- TDS.run tests `check_criteria() is False`, which a numpy.bool_ never satisfies"""
    import numpy as np
    from andes.routines.criteria import deltadelta as dd
    for delta, lim in ((np.array([]), 180), (np.array([0.1]), 180), (np.array([0.0, 0.1]), 180), (np.array([0.0, 4.0]), 180),
                       (np.array([3.0, -1.0, 0.5]), 180), (np.array([0.2, 0.1, 0.15]), 10)):
        r = dd(delta, lim)
        want = len(delta) < 2 or (np.max(delta) - np.min(delta)) < np.deg2rad(lim)
        if type(r) is not bool or r != bool(want):
            return {'confirmed': True, 'inputs': {'delta': delta.tolist(), 'diff_limit': lim},
                    'observed': 'returned %r of type %s, expected the Python bool %r' % (r, type(r).__name__, bool(want)),
                    'native_cmd': 'andes.routines.criteria.deltadelta(delta, diff_limit)'}
    return {'confirmed': False, 'tried': 6}


def bounded_types(pack, pid):
    """bounded native stand-in for the callee contract assumed by TDS.run: check_criteria returns a Python bool"""
    from contracts.packutil import native_guard
    name = '%s/%s:deltadelta/bounded:returns-python-bool-with-the-specified-value' % (pid, FC)
    r = native_guard(pack, name, lambda: replay_deltadelta(name, {}, {}))
    pack.bounded.append({'function': 'criteria.deltadelta', 'kind': 'bounded native (6 inputs): value and Python type of the verdict',
                         'counted_as_proved': False})
    if r and r.get('confirmed'):
        pack.violation(name, dict(r, bounded=True))
