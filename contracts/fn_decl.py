"""Declaration contracts: postconditions of data-class constructors (which per-unit base / flags a parameter is declared with)."""
import z3

from pyvc.symex import Contract
from pyvc.symval import TObj, Mark, Func, Ref, DictC

PARAM_CLASSES = ('NumParam', 'IdxParam', 'DataParam', 'ExtParam', 'TimerParam', 'LinkParam')


def declaration(pid, file, qualname, table, doc):
    """``table``: {param name: {flag: expected value}} -- every listed parameter must be declared, as a NumParam, with exactly these
    values for the listed flags (an absent flag counts as False)."""
    def mk(cls):
        def h(ex, st, args, kw, node):
            return Mark('param:' + cls, tuple(sorted((k, v if isinstance(v, (bool, int, float, str, type(None))) else '<expr>')
                                                     for k, v in kw.items())))
        return h

    def post(old, new, res):
        bad = []
        for name, flags in table.items():
            v = new.st.heap.get('self.' + name)
            if not (isinstance(v, Mark) and v.kind == 'param:NumParam'):
                bad.append(name)
                continue
            kw = dict(v.data[0])
            for flag, want in flags.items():
                if bool(kw.get(flag, False)) != bool(want):
                    bad.append('%s.%s' % (name, flag))
        new.st.ghost['bad'] = bad
        return z3.BoolVal(not bad)
    c = Contract(file, qualname, pid=pid, params={'self': TObj()}, schema={},
                 calls=dict([(cls, mk(cls)) for cls in PARAM_CLASSES] + [('super', lambda ex, st, a, k, n: Mark('super')),
                                                                          ('<value>.__init__', lambda ex, st, a, k, n: None)]),
                 globals_=dict((cls, Func(cls)) for cls in PARAM_CLASSES + ('super',)),
                 ensures=[(doc, post)], modifies=['self.*'])
    c.merge = False
    return c


GENBASE = ('andes/models/synchronous/genbase.py', 'GENBaseData.__init__',
           {'M': {'power': True, 'z': False, 'y': False}, 'D': {'power': True, 'z': False, 'y': False},
            'ra': {'z': True, 'power': False}, 'xl': {'z': True, 'power': False}, 'xd1': {'z': True, 'power': False},
            'Sn': {'power': False, 'z': False}, 'Vn': {'power': False, 'z': False}},
           'M,D-on-the-power-base;ra,xl,xd1-on-the-impedance-base;ratings-unconverted')
LINE = ('andes/models/line/line.py', 'LineData.__init__',
        dict([(n, {'z': True, 'y': False, 'power': False}) for n in ('r', 'x')] +
             [(n, {'y': True, 'z': False, 'power': False}) for n in ('b', 'g', 'b1', 'g1', 'b2', 'g2')] +
             [(n, {'y': False, 'z': False, 'power': False}) for n in ('tap', 'phi', 'Sn', 'Vn1', 'Vn2')]),
        'r,x-on-the-impedance-base;b,g,b1,g1,b2,g2-on-the-admittance-base;tap,phi,ratings-unconverted')
