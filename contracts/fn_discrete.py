"""Contracts on andes/core/discrete.py (C09)."""
import z3

from pyvc.symex import Contract, Loop, spec, View, Outcomes, to_z3, as_real
from pyvc.symval import (TArr, TBool, TFloat, TInt, TObj, TOpaque, TReal, TSeq, TStr, TConst, NR, TOptional, fresh, I, R,
                         MaybeNone, Func, Opaque, TNone, Module, Ref, ArrC, ListC, Unsupported)

F = 'andes/core/discrete.py'


def forall(n, body):
    k = fresh('k', I)
    return z3.ForAll([k], z3.Implies(z3.And(k >= 0, k < n), body(k)))


def b01(c):
    return z3.If(c, z3.RealVal(1), z3.RealVal(0))


def is01(a):
    return lambda k: z3.Or(a.vals[k] == 0, a.vals[k] == 1)


def same_arr(a, b):
    return z3.And(a.n == b.n, forall(a.n, lambda k: a.vals[k] == b.vals[k]))


# ------------------------------------------------------------------------------------------------ LessThan / IsEqual
def less_than(pid):
    N = fresh('N', I)
    sch = {'self.enable': TBool(), 'self.cache': TBool(), 'self._eval': TBool(), 'self.equal': TBool(),
           'self.u.v': TArr(n=N), 'self.bound.v': TArr(n=N), 'self.z0': TArr(n=N), 'self.z1': TArr(n=N)}

    def active(old):
        return z3.And(old.z('self.enable'), z3.Not(z3.And(old.z('self.cache'), old.z('self._eval'))))

    def post_sem(old, new, res):
        u, b, z1, z0 = [new.arr(p) for p in ('self.u.v', 'self.bound.v', 'self.z1', 'self.z0')]
        eq = old.z('self.equal')
        return z3.Implies(active(old), forall(N, lambda k: z3.And(
            z1.vals[k] == b01(z3.If(eq, u.vals[k] <= b.vals[k], u.vals[k] < b.vals[k])), z0.vals[k] == 1 - z1.vals[k])))

    def post_idle(old, new, res):
        return z3.Implies(z3.Not(active(old)), z3.And(same_arr(new.arr('self.z1'), old.arr('self.z1')),
                                                      same_arr(new.arr('self.z0'), old.arr('self.z0'))))
    return Contract(F, 'LessThan.check_var', pid=pid, params={'self': TObj()}, schema=sch,
                    requires=[('N>=0', lambda v: N >= 0)],
                    ensures=[('z1<=>u<bound(<=if-equal),z0=1-z1', post_sem), ('disabled-or-cached=>flags-unchanged', post_idle)],
                    modifies=['self.z0', 'self.z1', 'self._eval'])


def is_equal(pid):
    N = fresh('N', I)
    sch = {'self.enable': TBool(), 'self.cache': TBool(), 'self._eval': TBool(),
           'self.u.v': TArr(n=N), 'self.bound.v': TArr(n=N), 'self.z1': TArr(n=N)}

    def active(old):
        return z3.And(old.z('self.enable'), z3.Not(z3.And(old.z('self.cache'), old.z('self._eval'))))

    def post_sem(old, new, res):
        u, b, z1 = [new.arr(p) for p in ('self.u.v', 'self.bound.v', 'self.z1')]
        return z3.Implies(active(old), forall(N, lambda k: z1.vals[k] == b01(u.vals[k] == b.vals[k])))
    return Contract(F, 'IsEqual.check_var', pid=pid, params={'self': TObj()}, schema=sch,
                    requires=[('N>=0', lambda v: N >= 0)], ensures=[('z1<=>u==bound', post_sem)],
                    modifies=['self.z1', 'self._eval'])


# ------------------------------------------------------------------------------------------------ Limiter
def limiter_schema(N):
    return {'self.enable': TBool(), 'self.no_upper': TBool(), 'self.no_lower': TBool(), 'self.equal': TBool(),
            'self.allow_adjust': TBool(), 'self.sign_upper.v': TInt(), 'self.sign_lower.v': TInt(),
            'self.u.v': TArr(n=N), 'self.upper.v': TArr(n=N), 'self.lower.v': TArr(n=N),
            'self.zu': TArr(n=N), 'self.zl': TArr(n=N), 'self.zi': TArr(n=N)}


def eff(old, which, k):
    """effective limit value: sign * limit"""
    a = old.arr('self.%s.v' % which)
    s = old.z('self.sign_%s.v' % which)
    return z3.If(s == -1, -a.vals[k], a.vals[k])


def limiter(pid, qual='Limiter.check_var'):
    """Limiter.check_var (not at initialisation): flags agree with the comparison of the input against the limits, are
    0/1, and are mutually exclusive and exhaustive (F5 when lower >= upper)."""
    N = fresh('N', I)
    sch = limiter_schema(N)

    def post_sem(old, new, res):
        u = old.arr('self.u.v')
        zu, zl, zi = [new.arr(p) for p in ('self.zu', 'self.zl', 'self.zi')]
        eq = old.z('self.equal')

        def body(k):
            up = z3.If(eq, u.vals[k] >= eff(old, 'upper', k), u.vals[k] > eff(old, 'upper', k))
            lo = z3.If(eq, u.vals[k] <= eff(old, 'lower', k), u.vals[k] < eff(old, 'lower', k))
            return z3.And(z3.Implies(z3.Not(old.z('self.no_upper')), zu.vals[k] == b01(up)),
                          z3.Implies(z3.Not(old.z('self.no_lower')), zl.vals[k] == b01(lo)),
                          z3.Implies(old.z('self.no_upper'), zu.vals[k] == old.arr('self.zu').vals[k]),
                          z3.Implies(old.z('self.no_lower'), zl.vals[k] == old.arr('self.zl').vals[k]),
                          zi.vals[k] == b01(z3.Not(z3.Or(zu.vals[k] != 0, zl.vals[k] != 0))))
        return z3.Implies(old.z('self.enable'), forall(N, body))

    def post_excl(old, new, res):
        zu, zl, zi = [new.arr(p) for p in ('self.zu', 'self.zl', 'self.zi')]
        return z3.Implies(z3.And(old.z('self.enable'), z3.Not(old.z('self.no_upper')), z3.Not(old.z('self.no_lower'))),
                          forall(N, lambda k: zu.vals[k] + zl.vals[k] + zi.vals[k] == 1))

    def post_idle(old, new, res):
        return z3.Implies(z3.Not(old.z('self.enable')),
                          z3.And(*[same_arr(new.arr(p), old.arr(p)) for p in ('self.zu', 'self.zl', 'self.zi')]))

    def pre_flags01(v):
        return z3.And(forall(N, is01(v.arr('self.zu'))), forall(N, is01(v.arr('self.zl'))))
    return Contract(
        F, qual, pid=pid,
        params={'self': TObj(), 'allow_adjust': TBool(), 'adjust_lower': TBool(), 'adjust_upper': TBool(),
                'is_init': TConst(False)},
        schema=sch, requires=[('N>=0', lambda v: N >= 0), ('stored-flags-are-0/1', pre_flags01)],
        calls={'self.do_adjust_upper': spec(name='do_adjust_upper'), 'self.do_adjust_lower': spec(name='do_adjust_lower')},
        ensures=[('flags-agree-with-comparison-of-input-against-limits', post_sem),
                 ('flags-mutually-exclusive-and-exhaustive', post_excl), ('disabled=>flags-unchanged', post_idle)],
        modifies=['self.zu', 'self.zl', 'self.zi'])


def wit_f5(old, new):
    k = fresh('k', I)
    N = old.arr('self.u.v').n
    return z3.Exists([k], z3.And(k >= 0, k < N, eff(old, 'lower', k) >= eff(old, 'upper', k)))


WIT_F5 = {'F5': wit_f5}


def do_adjust(pid, which):
    """Limiter.do_adjust_lower/upper: a limit moves only when both switches allow it, only where the input is outside,
    and only to the input value."""
    N = fresh('N', I)
    lim = 'lower' if which == 'lower' else 'upper'

    def sum_h(ex, st, args, kw, node):
        c = st.content(args[0])
        s = fresh('sum', I)
        k = fresh('k', I)
        st.assume(s >= 0)
        st.assume((s == 0) == z3.ForAll([k], z3.Implies(z3.And(k >= 0, k < c.n), c.vals[k] == 0)))
        return s

    def post(old, new, res):
        val = old.st.content(old.local('val'))
        l0 = old.st.content(old.local(lim))
        l1 = new.st.content(new.local(lim))
        on = z3.And(to_z3(old.local('allow_adjust')), to_z3(old.local('adjust_' + lim)))

        def body(k):
            outside = val.vals[k] < l0.vals[k] if which == 'lower' else val.vals[k] > l0.vals[k]
            return l1.vals[k] == z3.If(z3.And(on, outside), val.vals[k], l0.vals[k])
        return forall(N, body)
    return Contract(
        F, 'Limiter.do_adjust_%s' % which, pid=pid,
        params={'self': TObj(), 'val': TArr(n=N), lim: TArr(n=N), 'allow_adjust': TBool(), 'adjust_' + lim: TBool()},
        schema={'self.mask_lower': TOptional(TArr()), 'self.mask_upper': TOptional(TArr()), 'self.lower.name': TStr(),
                'self.upper.name': TStr()},
        requires=[('N>=0', lambda v: N >= 0)],
        calls={'sum': sum_h, 'self._show_adjust': spec(name='_show_adjust')},
        ensures=[('limit-moves-only-when-allowed-only-where-outside-only-to-the-input', post)],
        modifies=['self.mask_lower', 'self.mask_upper'])


# ------------------------------------------------------------------------------------------------ AntiWindup
def antiwindup(pid, stale=False):
    """AntiWindup.check_eq: a state beyond a limit whose derivative pushes further out is clamped to that limit and its
    derivative zeroed; the pegged addresses and values are recorded in x_set."""
    N = fresh('N', I)
    sch = limiter_schema(N)
    sch.update({'self.zu0': TArr(n=N), 'self.zl0': TArr(n=N), 'self.state.e': TArr(n=N), 'self.state.v': TArr(n=N),
                'self.state.a': TArr(n=N), 'self.niter_lock': TInt(), 'self.x_set': TOpaque('XSet')})

    def flags(old, k, niter):
        u, e = old.arr('self.u.v'), old.arr('self.state.e')
        lock = niter > old.z('self.niter_lock')
        zu = z3.Or(z3.And(u.vals[k] >= eff(old, 'upper', k), e.vals[k] >= 0), z3.And(lock, old.arr('self.zu').vals[k] != 0))
        zl = z3.Or(z3.And(u.vals[k] <= eff(old, 'lower', k), e.vals[k] <= 0), z3.And(lock, old.arr('self.zl').vals[k] != 0))
        return zu, zl

    def post_flags(old, new, res):
        niter = to_z3(old.local('niter'))
        zu1, zl1, zi1 = [new.arr(p) for p in ('self.zu', 'self.zl', 'self.zi')]

        def body(k):
            zu, zl = flags(old, k, niter)
            return z3.And(zu1.vals[k] == b01(zu), zl1.vals[k] == b01(zl), zi1.vals[k] == b01(z3.Not(z3.Or(zu, zl))))
        return forall(N, body)

    def post_clamp(old, new, res):
        niter = to_z3(old.local('niter'))
        v0, e0 = old.arr('self.state.v'), old.arr('self.state.e')
        v1, e1 = new.arr('self.state.v'), new.arr('self.state.e')

        def body(k):
            zu, zl = flags(old, k, niter)
            inside = z3.Not(z3.Or(zu, zl))
            return z3.And(z3.Implies(inside, z3.And(v1.vals[k] == v0.vals[k], e1.vals[k] == e0.vals[k])),
                          z3.Implies(z3.And(zu, z3.Not(zl)), z3.And(v1.vals[k] == eff(old, 'upper', k), e1.vals[k] == 0)),
                          z3.Implies(z3.And(zl, z3.Not(zu)), z3.And(v1.vals[k] == eff(old, 'lower', k), e1.vals[k] == 0)))
        return forall(N, body)

    def post_in_range(old, new, res):
        # a pegged state sits inside [lower, upper]  (needs lower <= upper: F5 otherwise)
        niter = to_z3(old.local('niter'))
        v1 = new.arr('self.state.v')

        def body(k):
            zu, zl = flags(old, k, niter)
            return z3.Implies(z3.Or(zu, zl), z3.And(v1.vals[k] >= eff(old, 'lower', k), v1.vals[k] <= eff(old, 'upper', k)))
        return forall(N, body)

    def post_xset(old, new, res):
        xs = new.get('self.x_set')
        if not isinstance(xs, Ref):
            return False
        items = new.st.content(xs).items
        zi1 = new.arr('self.zi')
        anyout = z3.Not(forall(N, lambda k: zi1.vals[k] != 0))
        if len(items) == 0:
            return z3.Not(anyout)
        if len(items) != 1:
            return False
        a, v, e = items[0]
        ok_shape = (isinstance(a, tuple) and a[0] == 'masked-view' and isinstance(v, tuple) and v[0] == 'masked-view'
                    and e == 0 and a[1].loc == new.get('self.state.a').loc and v[1].loc == new.get('self.state.v').loc
                    and a[2].loc == v[2].loc)
        if not ok_shape:
            return False
        m = new.st.content(a[2])
        return z3.And(anyout, forall(N, lambda k: (m.vals[k] != 0) == (zi1.vals[k] == 0)))

    def post_xset_merged(old, new, res):
        return post_xset(old, new, res)
    c = Contract(
        F, 'AntiWindup.check_eq', pid=pid,
        params={'self': TObj(), 'allow_adjust': TBool(), 'adjust_lower': TBool(), 'adjust_upper': TBool(),
                'is_init': TConst(False), 'niter': TInt()},
        schema=sch,
        requires=[('N>=0', lambda v: N >= 0), ('both-limits-present', lambda v: z3.And(z3.Not(v.z('self.no_upper')),
                                                                                     z3.Not(v.z('self.no_lower')))),
                  ('stored-flags-are-0/1', lambda v: z3.And(forall(N, is01(v.arr('self.zu'))), forall(N, is01(v.arr('self.zl'))))),
                  ('stored-flags-exclusive', lambda v: forall(N, lambda k: v.arr('self.zu').vals[k] + v.arr('self.zl').vals[k] <= 1))],
        calls={'self.do_adjust_upper': spec(name='do_adjust_upper'), 'self.do_adjust_lower': spec(name='do_adjust_lower'),
               'list': lambda ex, st, a, k, n: st.new_ref(ListC([]), 'x_set')},
        ensures=[('flags=(beyond-limit-and-derivative-pushing-out)-or-locked', post_flags),
                 ('pegged=>clamped-to-that-limit-and-derivative-zero;inside=>untouched', post_clamp),
                 ('pegged-state-inside-[lower,upper]', post_in_range),
                 ('x_set-records-exactly-the-pegged-addresses-values-and-zero-derivative', post_xset)],
        modifies=['self.zu', 'self.zl', 'self.zi', 'self.zu0', 'self.zl0', 'self.state.e', 'self.state.v', 'self.x_set'])
    c.merge = False      # x_set shape differs between the two arms: keep the paths apart
    if stale:
        # entry state of every call but the first: x_set still holds the record of the previous call
        def pre_state(st):
            a0 = st.new_ref(ArrC(fresh('stale_addr', z3.ArraySort(I, R)), fresh('stale_n', I), None, kind='int'), 'stale_a')
            v0 = st.new_ref(ArrC(fresh('stale_val', z3.ArraySort(I, R)), st.content(a0).n, None), 'stale_v')
            st.heap['self.x_set'] = st.new_ref(ListC([(a0, v0, 0)]), 'x_set0')
        c.pre_state = pre_state
        c.tag = 'x_set-holds-previous-record'
    else:
        def pre_state0(st):
            st.heap['self.x_set'] = st.new_ref(ListC([]), 'x_set0')      # as left by __init__ / by a call with nothing pegged
        c.pre_state = pre_state0
    return c


# ------------------------------------------------------------------------------------------------ Switcher
KK = z3.Int('kk')


def switcher(pid, options=(0, 1, 2, 3)):
    N = fresh('N', I)
    sch = {'self.cache': TBool(), 'self._eval': TBool(), 'self.u.v': TArr(nan=True, n=N), 'self.u.name': TStr(),
           'self.owner.class_name': TStr()}
    for i in range(len(options)):
        sch['self.s%d' % i] = TArr(n=N)
    sch['self.options'] = TConst(tuple(options))

    def post(old, new, res):
        u = old.arr('self.u.v')
        active = z3.Not(z3.And(old.z('self.cache'), old.z('self._eval')))
        cl = []
        for i, o in enumerate(options):
            s = new.arr('self.s%d' % i)
            cl.append(forall(N, lambda k, s=s, o=o: s.vals[k] == b01(z3.And(z3.Not(u.nan_at(k)), u.vals[k] == o))))
        return z3.Implies(z3.And(active, N > 0), z3.And(*cl))

    def raises_post(old, new, exc):
        u = old.arr('self.u.v')
        k = fresh('k', I)
        return z3.Exists([k], z3.And(k >= 0, k < N, z3.Not(u.nan_at(k)), z3.And(*[u.vals[k] != o for o in options])))

    def post_valid(old, new, res):
        u = old.arr('self.u.v')
        active = z3.Not(z3.And(old.z('self.cache'), old.z('self._eval')))
        return z3.Implies(active, forall(N, lambda k: z3.Or(u.nan_at(k), *[u.vals[k] == o for o in options])))
    return Contract(
        F, 'Switcher.check_var', pid=pid, params={'self': TObj()}, schema=sch,
        requires=[('N>=0', lambda v: N >= 0)],
        loops={0: Loop(inv=[('inputs-seen-so-far-are-listed-options-or-NaN',
                             lambda v: z3.ForAll([KK], z3.Implies(z3.And(KK >= 0, KK < v.local('$i0')), z3.Or(
                                 v.arr('self.u.v').nan_at(KK), *[v.arr('self.u.v').vals[KK] == o for o in options]))))],
                       frame=['$v'])},
        ensures=[('s_i<=>u==options[i]', post), ('normal-return=>every-input-is-a-listed-option-or-NaN', post_valid)],
        raises={'ValueError': [('raised-only-for-an-unlisted-option', raises_post)]},
        modifies=['self.s*', 'self._eval'])


# ------------------------------------------------------------------------------------------------ DeadBandRT
def deadband_rt(pid):
    """DeadBandRT.check_var: zur/zlr are raised when the input returns into the band from above/below (docstring)."""
    N = fresh('N', I)
    sch = limiter_schema(N)
    sch.update({'self.zur': TArr(n=N), 'self.zlr': TArr(n=N)})

    def db_check(ex, st, args, kw, node):
        """DeadBand.check_var == Limiter.check_var with equal=False (contract discharged above)"""
        v = View(st, ex)
        u = v.arr('self.u.v')
        h = spec(modifies=['loc:self.zu', 'loc:self.zl', 'loc:self.zi'], name='DeadBand.check_var')
        old = View(st.copy(), ex)
        h(ex, st, args, kw, node)
        zu, zl, zi = [v.arr(p) for p in ('self.zu', 'self.zl', 'self.zi')]
        en = v.z('self.enable')

        def body(k):
            up, lo = u.vals[k] > eff(old, 'upper', k), u.vals[k] < eff(old, 'lower', k)
            return z3.And(zu.vals[k] == b01(up), zl.vals[k] == b01(lo), zi.vals[k] == b01(z3.Not(z3.Or(up, lo))))
        st.assume(z3.Implies(en, forall(N, body)))
        st.assume(z3.Implies(z3.Not(en), z3.And(*[same_arr(v.arr(p), old.arr(p)) for p in ('self.zu', 'self.zl', 'self.zi')])))
        return None

    def post(old, new, res):
        zu0, zl0, zi0 = [old.arr(p) for p in ('self.zu', 'self.zl', 'self.zi')]
        zi1, zur0, zlr0, zur1, zlr1 = [new.arr(p) if i in (0, 3, 4) else old.arr(p) for i, p in
                                       enumerate(('self.zi', 'self.zur', 'self.zlr', 'self.zur', 'self.zlr'))]

        def body(k):
            set_u = z3.And(zu0.vals[k] == 1, zi1.vals[k] == 1)
            set_l = z3.And(zl0.vals[k] == 1, zi1.vals[k] == 1)
            hold = zi0.vals[k] == zi1.vals[k]
            want_u = z3.If(set_u, z3.RealVal(1), z3.If(hold, zur0.vals[k], z3.RealVal(0)))
            want_l = z3.If(set_l, z3.RealVal(1), z3.If(hold, zlr0.vals[k], z3.RealVal(0)))
            return z3.And(zur1.vals[k] == want_u, zlr1.vals[k] == want_l)
        return z3.Implies(old.z('self.enable'), forall(N, body))
    return Contract(
        F, 'DeadBandRT.check_var', pid=pid, params={'self': TObj()}, schema=sch,
        requires=[('N>=0', lambda v: N >= 0), ('lower<upper', lambda v: forall(N, lambda k: eff(v, 'lower', k) < eff(v, 'upper', k))),
                  ('flags-0/1', lambda v: z3.And(*[forall(N, is01(v.arr(p))) for p in ('self.zu', 'self.zl', 'self.zi',
                                                                                     'self.zur', 'self.zlr')]))],
        calls={'DeadBand.check_var': db_check},
        globals_={'DeadBand': Module('DeadBand')},
        ensures=[('zur/zlr:set-on-return-into-band,hold-while-zi-unchanged,clear-otherwise', post)],
        modifies=['self.zu', 'self.zl', 'self.zi', 'self.zur', 'self.zlr'])


def wit_f6(old, new):
    k = fresh('k', I)
    N = old.arr('self.u.v').n
    zi1 = new.arr('self.zi')
    return z3.Exists([k], z3.And(k >= 0, k < N, z3.Or(
        z3.And(zi1.vals[k] == 1, z3.Or(old.arr('self.zu').vals[k] == 1, old.arr('self.zl').vals[k] == 1)),
        z3.And(old.arr('self.zi').vals[k] != zi1.vals[k],
               z3.Or(old.arr('self.zur').vals[k] != 0, old.arr('self.zlr').vals[k] != 0)))))


WIT_F6 = {'F6': wit_f6}


# ------------------------------------------------------------------------------------------------ Delay family (step mode)
def delay_schema(D):
    """one arbitrary device row (row projection); D+1 stored samples"""
    n = z3.IntVal(D + 1)
    return {'self.rewind': TBool(), 'self.u.v': TReal(), 'self.t': TArr(n=n), 'self._v_mem': TArr(n=n),
            'self.v': TArr(n=z3.IntVal(1)), 'self.mode': TConst('step'), 'self.delay': TConst(D)}


def delay(pid, D=2):
    """Delay.check_var (step mode, one device row): shift register over (time, value) samples."""
    sch = delay_schema(D)
    L = D + 1

    def post(old, new, res):
        t = as_real(old.local('dae_t')).val
        T0, M0 = old.arr('self.t'), old.arr('self._v_mem')
        T1, M1 = new.arr('self.t'), new.arr('self._v_mem')
        u = old.z('self.u.v')
        last = T0.vals[L - 1]
        init = t == 0
        cl = [z3.Implies(init, z3.And(*[M1.vals[j] == u for j in range(L)], *[T1.vals[j] == T0.vals[j] for j in range(L)]))]
        adv = z3.And(z3.Not(init), t > last)
        cl.append(z3.Implies(adv, z3.And(*[M1.vals[j] == M0.vals[j + 1] for j in range(L - 1)], M1.vals[L - 1] == u,
                                         *[T1.vals[j] == T0.vals[j + 1] for j in range(L - 1)], T1.vals[L - 1] == t)))
        same = z3.And(z3.Not(init), t == last)
        cl.append(z3.Implies(same, z3.And(*[M1.vals[j] == M0.vals[j] for j in range(L - 1)], M1.vals[L - 1] == u,
                                          *[T1.vals[j] == T0.vals[j] for j in range(L)])))
        back = z3.And(z3.Not(init), t < last)
        cl.append(z3.Implies(back, z3.And(*[M1.vals[j] == M0.vals[j] for j in range(L - 1)], M1.vals[L - 1] == u,
                                          *[T1.vals[j] == T0.vals[j] for j in range(L - 1)], T1.vals[L - 1] == t)))
        cl.append(new.z('self.rewind') == back)
        cl.append(new.arr('self.v').vals[0] == M1.vals[0])
        return z3.And(*cl)
    c = Contract(F, 'Delay.check_var', pid=pid, params={'self': TObj(), 'dae_t': TReal()}, schema=sch,
                 ensures=[('shift-register:advance/overwrite/rewind;output=oldest-sample', post)],
                 modifies=['self.rewind', 'self.t', 'self._v_mem', 'self.v'])
    c.row_projection = True
    return c


def delay_call(D):
    """callee contract of Delay.check_var for Average / Derivative (the post proved above)"""
    L = D + 1

    def h(ex, st, args, kw, node):
        old = View(st.copy(), ex)
        s = spec(modifies=['self.rewind', 'loc:self.t', 'loc:self._v_mem', 'loc:self.v'], name='Delay.check_var')
        s(ex, st, args, kw, node)
        new = View(st, ex)
        t = as_real(args[1]).val
        T0, M0, T1, M1 = old.arr('self.t'), old.arr('self._v_mem'), new.arr('self.t'), new.arr('self._v_mem')
        u = old.z('self.u.v')
        last = T0.vals[L - 1]
        init = t == 0
        adv, same, back = z3.And(z3.Not(init), t > last), z3.And(z3.Not(init), t == last), z3.And(z3.Not(init), t < last)
        st.assume(z3.Implies(init, z3.And(*[M1.vals[j] == u for j in range(L)], *[T1.vals[j] == T0.vals[j] for j in range(L)])))
        st.assume(z3.Implies(adv, z3.And(*[M1.vals[j] == M0.vals[j + 1] for j in range(L - 1)], M1.vals[L - 1] == u,
                                         *[T1.vals[j] == T0.vals[j + 1] for j in range(L - 1)], T1.vals[L - 1] == t)))
        st.assume(z3.Implies(z3.Or(same, back), z3.And(*[M1.vals[j] == M0.vals[j] for j in range(L - 1)], M1.vals[L - 1] == u,
                                                       *[T1.vals[j] == T0.vals[j] for j in range(L - 1)])))
        st.assume(z3.Implies(same, T1.vals[L - 1] == T0.vals[L - 1]))
        st.assume(z3.Implies(back, T1.vals[L - 1] == t))
        st.assume(new.z('self.rewind') == back)
        st.assume(new.arr('self.v').vals[0] == M1.vals[0])
        return None
    return h


def average(pid, D=2):
    """Average.check_var (step mode): trapezoid mean of the stored window."""
    sch = delay_schema(D)
    L = D + 1

    def post(old, new, res):
        t = as_real(old.local('dae_t')).val
        T1, M1 = new.arr('self.t'), new.arr('self._v_mem')
        area = sum([(M1.vals[j + 1] + M1.vals[j]) / 2 * (T1.vals[j + 1] - T1.vals[j]) for j in range(L - 1)], z3.RealVal(0))
        span = T1.vals[L - 1] - T1.vals[0]
        return z3.And(z3.Implies(z3.And(t != 0, span != 0), new.arr('self.v').vals[0] * span == area),
                      z3.Implies(t == 0, new.arr('self.v').vals[0] == old.z('self.u.v')))
    c = Contract(F, 'Average.check_var', pid=pid, params={'self': TObj(), 'dae_t': TReal()}, schema=sch,
                 calls={'Delay.check_var': delay_call(D)}, globals_={'Delay': Module('Delay')},
                 ensures=[('output=trapezoid-mean-of-window;initial=input', post)],
                 modifies=['self.rewind', 'self.t', 'self._v_mem', 'self.v'])
    c.row_projection = True
    return c


def derivative(pid):
    """Derivative.check_var: last difference quotient; zero at t=0, after a rewind, and below 1e-8."""
    sch = delay_schema(1)

    def post(old, new, res):
        t = as_real(old.local('dae_t')).val
        T1, M1 = new.arr('self.t'), new.arr('self._v_mem')
        v = new.arr('self.v').vals[0]
        dt = T1.vals[1] - T1.vals[0]
        q = (M1.vals[1] - M1.vals[0]) / dt
        absq = z3.If(q >= 0, q, -q)
        zero = z3.Or(t == 0, new.z('self.rewind'))
        return z3.And(z3.Implies(zero, v == 0),
                      z3.Implies(z3.And(z3.Not(zero), dt != 0), v == z3.If(absq < z3.RealVal('1e-8') if False else absq < z3.Q(1, 100000000), 0, q)))
    c = Contract(F, 'Derivative.check_var', pid=pid, params={'self': TObj(), 'dae_t': TReal()}, schema=sch,
                 calls={'Delay.check_var': delay_call(1)}, globals_={'Delay': Module('Delay')},
                 ensures=[('output=difference-quotient-of-the-last-two-samples;zero-at-t0/rewind/tiny', post)],
                 modifies=['self.rewind', 'self.t', 'self._v_mem', 'self.v'])
    c.row_projection = True
    return c


def sampling(pid):
    """Sampling.check_var: sample and hold."""
    N = fresh('N', I)
    one = z3.IntVal(1)
    sch = {'self.rewind': TBool(), 'self.u.v': TArr(n=N), 'self.v': TArr(n=N), '_': TInt(), 'self._last_v': TArr(n=N),
           'self._last_t': TArr(n=one), 'self.offset': TReal(), 'self.interval': TReal(), 'self.indices': TSeq()}

    def post(old, new, res):
        t = as_real(old.local('dae_t')).val
        lt0, lt1 = old.arr('self._last_t').vals[0], new.arr('self._last_t').vals[0]
        u, v0, v1 = old.arr('self.u.v'), old.arr('self.v'), new.arr('self.v')
        lv0, lv1 = old.arr('self._last_v'), new.arr('self._last_v')
        init = t == 0
        fwd = z3.And(z3.Not(init), t > lt0)
        do = z3.And(fwd, t - old.z('self.offset') - lt0 > old.z('self.interval'))
        hold = z3.And(fwd, z3.Not(do))
        same = z3.And(z3.Not(init), t == lt0)
        back = z3.And(z3.Not(init), t < lt0)
        eq = lambda a, b: forall(N, lambda k: a.vals[k] == b.vals[k])  # noqa
        return z3.And(
            z3.Implies(init, z3.And(eq(v1, u), eq(lv1, u))),
            z3.Implies(do, z3.And(eq(lv1, v0), eq(v1, u), lt1 == t)),
            z3.Implies(hold, z3.And(eq(v1, v0), eq(lv1, lv0), lt1 == lt0)),
            z3.Implies(z3.And(same, old.arr('self.indices').n > 0), eq(v1, u)),
            z3.Implies(back, z3.And(eq(v1, lv0), lt1 == t, new.z('self.rewind'))),
            z3.Implies(z3.Not(back), z3.Not(new.z('self.rewind'))))
    return Contract(F, 'Sampling.check_var', pid=pid, params={'self': TObj(), 'dae_t': TReal()}, schema=sch,
                    requires=[('N>=0', lambda v: N >= 0)],
                    ensures=[('sample-and-hold:initial/sample/hold/refresh/rewind', post)],
                    modifies=['self.rewind', 'self.v', 'self._last_v', 'self._last_t'])


# ------------------------------------------------------------------------------------------------ native replays
class _P:
    def __init__(self, v, name='p'):
        import numpy as np
        self.v = np.array(v, dtype=float)
        self.name = name


def replay_limiter(bname, model, meta):
    if 'mutually-exclusive' not in bname:
        return None
    import numpy as np
    from andes.core.discrete import Limiter
    u, lo, up = _P([1.0], 'u'), _P([2.0], 'lower'), _P([0.5], 'upper')
    lim = Limiter(u, lo, up)
    lim.list2array(1)
    lim.check_var()
    s = float(lim.zi[0] + lim.zl[0] + lim.zu[0])
    return {'confirmed': s != 1.0, 'zi': float(lim.zi[0]), 'zl': float(lim.zl[0]), 'zu': float(lim.zu[0]),
            'inputs': {'u': 1.0, 'lower': 2.0, 'upper': 0.5}, 'native_cmd': 'Limiter(u=1, lower=2, upper=0.5).check_var()'}


def replay_antiwindup(bname, model, meta):
    if 'inside-[lower,upper]' not in bname:
        return None
    import numpy as np
    from andes.core.discrete import AntiWindup

    class S(_P):
        pass
    st = S([1.0], 'x')
    st.e = np.array([0.0])
    st.a = np.array([0])
    aw = AntiWindup(st, _P([2.0], 'lower'), _P([0.5], 'upper'))
    aw.list2array(1)
    aw.zu0 = np.zeros(1)
    aw.zl0 = np.zeros(1)
    aw.check_eq()
    v = float(st.v[0])
    return {'confirmed': not (2.0 <= v <= 0.5) and (aw.zu[0] == 1 and aw.zl[0] == 1), 'state_after': v,
            'zu': float(aw.zu[0]), 'zl': float(aw.zl[0]),
            'native_cmd': 'AntiWindup(x=1, lower=2, upper=0.5, e=0).check_eq(): both flags raised, x := lower+upper'}


def replay_deadband_rt(bname, model, meta):
    import numpy as np
    from andes.core.discrete import DeadBandRT
    u = _P([2.0], 'u')
    db = DeadBandRT(u, center=_P([0.0]), lower=_P([-1.0], 'lower'), upper=_P([1.0], 'upper'))
    db.list2array(1)
    db.check_var()           # above the band: zu = 1
    zu_before = float(db.zu[0])
    u.v[:] = 0.5             # return into the band from above
    db.check_var()
    return {'confirmed': zu_before == 1.0 and db.zi[0] == 1 and db.zur[0] == 0, 'zur_after_return_from_above': float(db.zur[0]),
            'zi': float(db.zi[0]), 'native_cmd': 'DeadBandRT: u=2 (above) then u=0.5 (inside): zur stays 0'}


def wit_f23(old, new):
    """both flags through the iteration lock: a stale flag of one side is OR-ed in while the other side trips"""
    k = fresh('k', I)
    N = old.arr('self.u.v').n
    u, e = old.arr('self.u.v'), old.arr('self.state.e')
    niter = to_z3(old.local('niter'))
    stale_u = z3.And(old.arr('self.zu').vals[k] != 0, u.vals[k] <= eff(old, 'lower', k), e.vals[k] <= 0)
    stale_l = z3.And(old.arr('self.zl').vals[k] != 0, u.vals[k] >= eff(old, 'upper', k), e.vals[k] >= 0)
    return z3.And(niter > old.z('self.niter_lock'), z3.Exists([k], z3.And(k >= 0, k < N, z3.Or(stale_u, stale_l))))


WIT_AW = {'F5': wit_f5, 'F23': wit_f23}
_replay_aw0 = replay_antiwindup


def replay_antiwindup(bname, model, meta):   # noqa: F811
    r = _replay_aw0(bname, model, meta)
    if r is None:
        return None
    import numpy as np
    from andes.core.discrete import AntiWindup

    class S(_P):
        pass
    st = S([-1.0], 'x')
    st.e = np.array([-0.1])
    st.a = np.array([0])
    aw = AntiWindup(st, _P([0.0], 'lower'), _P([1.0], 'upper'))
    aw.list2array(1)
    aw.zu0 = np.zeros(1)
    aw.zl0 = np.zeros(1)
    aw.zu[:] = 1            # flag left from an earlier iteration of the same step
    aw.check_eq(niter=5)
    r['lock_case'] = {'state_after': float(st.v[0]), 'zu': float(aw.zu[0]), 'zl': float(aw.zl[0]),
                      'native_cmd': 'AntiWindup(x=-1, lower=0, upper=1, e=-0.1), zu=1 from an earlier iteration, '
                                    'check_eq(niter=5): both flags, x := lower+upper = 1'}
    r['confirmed'] = r['confirmed'] and aw.zu[0] == 1 and aw.zl[0] == 1
    return r


def replay_average(obligation=None, model=None, meta=None):
    """native: the real Average (step mode, windows of 2 and 3 steps) fed with non-uniformly spaced time stamps; the output must be the
    trapezoidal time average of the fed samples over the stored window (integral / window length) at every call"""
    import numpy as np
    from andes.core.common import DummyValue
    from andes.core.discrete import Average
    tried = 0
    for delay in (2, 3):
        for times in ([0.0, 0.1, 0.2, 0.3, 0.31, 0.32, 0.5, 0.9, 1.0], [0.0, 0.05, 0.3, 0.35, 0.36, 0.8]):
            data = DummyValue(0)
            data.v = np.zeros(3)
            avg = Average(u=data, mode='step', delay=delay)
            avg.list2array(3)
            ts, vs = [], []
            for t in times:
                sig = np.array([t ** 2, 1.0 / (1.0 + t), 2.0])
                data.v[:] = sig
                avg.check_var(t)
                ts.append(t)
                vs.append(sig)
                if t == 0:
                    continue
                lo = max(0, len(ts) - 1 - delay)
                tt, vv = np.array(ts[lo:]), np.array(vs[lo:])
                ref = np.sum(0.5 * (vv[1:] + vv[:-1]) * np.diff(tt)[:, None], axis=0) / (tt[-1] - tt[0])
                tried += 1
                if not np.allclose(avg.v, ref, atol=1e-10, rtol=0):
                    return {'confirmed': True, 'inputs': {'delay (steps)': delay, 'time stamps fed': ts},
                            'observed': {'Average.v': [float(x) for x in avg.v], 'time average of the window': [float(x) for x in ref]},
                            'native_cmd': 'contracts/fn_discrete.py: replay_average'}
    return {'confirmed': False, 'tried': tried}
