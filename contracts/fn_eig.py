"""Contracts for C08 (and the EIG side of C17): andes/routines/eig.py."""
import z3

from pyvc.symex import Contract, Loop, spec, View, Outcomes, to_z3, as_real
from pyvc.symval import (TArr, TArr2, Arr2C, TBool, TFloat, TInt, TObj, TOpaque, TReal, TSeq, TStr, TConst, NR, TOptional, fresh,
                         I, R, Bo, MaybeNone, Func, Opaque, TNone, Module, Ref, ArrC, ListC, DictC, Unsupported, Obj, ExcVal, SeqC)
from contracts import matalg as M

FE = 'andes/routines/eig.py'


def forall(n, body):
    k = fresh('k', I)
    return z3.ForAll([k], z3.Implies(z3.And(k >= 0, k < n), body(k)))


def store_stats(pid):
    """EIG._store_stats: the three masks handed to count_nonzero partition the eigenvalues (element-wise exactly one holds)."""
    N = fresh('N', I)

    def real_attr(ex, st, args, kw, node):
        return st.load('self.mu_real')

    def count(ex, st, args, kw, node):
        st.ghost['masks'] = st.ghost['masks'] + [st.content(args[0])]
        c = fresh('count', I)
        return c

    def post(old, new, res):
        ms = new.st.ghost['masks']
        if len(ms) != 3:
            return False
        return forall(N, lambda k: ms[0].vals[k] + ms[1].vals[k] + ms[2].vals[k] == 1)

    def post_meaning(old, new, res):
        ms = new.st.ghost['masks']
        if len(ms) != 3:
            return False
        mu = old.arr('self.mu_real')
        tol = old.z('self.config.tol')
        return forall(N, lambda k: z3.And(ms[0].vals[k] == z3.If(mu.vals[k] > tol, 1.0, 0.0),
                                          ms[2].vals[k] == z3.If(mu.vals[k] < -tol, 1.0, 0.0)))
    def magnitude(ex, st, args, kw, node):
        # |mu| of the complex eigenvalue array: a non-negative array with |mu|^2 = re^2 + im^2
        from pyvc.symval import Obj, ArrC
        from pyvc.externals import NUMPY
        if isinstance(args[0], Obj) and args[0].path == 'self.mu':
            re, im = st.content(st.load('self.mu_real')), st.content(st.load('self.mu_imag'))
            mag = fresh('abs_mu', z3.ArraySort(I, R))
            k = fresh('k', I)
            st.assume(z3.ForAll([k], z3.Implies(z3.And(k >= 0, k < N), z3.And(
                mag[k] >= 0, mag[k] * mag[k] == re.vals[k] * re.vals[k] + im.vals[k] * im.vals[k]))))
            return st.new_ref(ArrC(mag, N, None), 'abs(mu)')
        return NUMPY['np.abs'](ex, st, args, kw, node)
    c = Contract(FE, 'EIG._store_stats', pid=pid, params={'self': TObj()},
                 schema={'self.mu_real': TArr(n=N), 'self.mu_imag': TArr(n=N), 'self.config.tol': TReal(), 'self.mu': TObj(), 'self.n_positive': TInt(),
                         'self.n_zeros': TInt(), 'self.n_negative': TInt()},
                 requires=[('tol>=0', lambda v: z3.And(v.z('self.config.tol') >= 0, N >= 0))],
                 ghost_init={'masks': []},
                 calls={'np.count_nonzero': count, 'np.abs': magnitude, 'abs': magnitude, 'np.absolute': magnitude},
                 ensures=[('positive/zero/negative-masks-partition-the-eigenvalues', post),
                          ('positive<=>re>tol;negative<=>re<-tol', post_meaning)],
                 modifies=['self.n_positive', 'self.n_zeros', 'self.n_negative'])
    c.properties = {'self.mu.real': lambda ex, st: st.load('self.mu_real'), 'self.mu.imag': lambda ex, st: st.load('self.mu_imag')}
    return c


def replay_calc_pfactor(obligation, model, meta):
    """native run of the real EIG.calc_pfactor on a stub: every mode's participation factors are non-negative and sum to one"""
    from types import SimpleNamespace
    import numpy as np
    from andes.routines.eig import EIG
    rng = np.random.default_rng(7)
    for n in (2, 3, 5):
        As = rng.normal(size=(n, n))
        from contracts.packutil import Stub
        stub = Stub(_cls=None, As=As, calc_eig=lambda As_=None, As0=As: np.linalg.eig(As0 if As_ is None else As_))
        ret = EIG.calc_pfactor(stub, As)
        pf = ret[1]
        pf = np.asarray(pf)
        modes_axis_sums = pf.sum(axis=1)
        if pf.shape != (n, n) or np.any(pf < 0) or not np.allclose(modes_axis_sums, 1.0, atol=1e-4):
            return {'confirmed': True, 'inputs': {'As': As.tolist()},
                    'observed': 'per-mode sums of the participation factors %r (expected all 1)' % np.round(modes_axis_sums, 4).tolist(),
                    'native_cmd': 'EIG.calc_pfactor(stub, As)'}
    return {'confirmed': False, 'tried': 3}


def replay_store_stats(obligation, model, meta):
    """native run of the real EIG._store_stats on a stub: the three counts partition the spectrum by the sign of the real part"""
    from types import SimpleNamespace
    import numpy as np
    from andes.routines.eig import EIG
    tol = 1e-6
    for mu in (np.array([-1 + 2j, 0.5 + 0j, 0j]), np.array([1j, -1j, 5e-7 + 3j, -2.0]), np.array([tol, -tol, 2 * tol, -2 * tol + 1j])):
        from contracts.packutil import Stub
        stub = Stub(_cls=EIG, mu=mu, config=SimpleNamespace(tol=tol))
        EIG._store_stats(stub)
        want = (int(np.sum(mu.real > tol)), int(np.sum(np.abs(mu.real) <= tol)), int(np.sum(mu.real < -tol)))
        got = (int(stub.n_positive), int(stub.n_zeros), int(stub.n_negative))
        if got != want:
            return {'confirmed': True, 'inputs': {'mu': [str(x) for x in mu], 'tol': tol},
                    'observed': '(n_positive, n_zeros, n_negative) = %r, expected %r' % (got, want), 'native_cmd': 'EIG._store_stats(stub)'}
    return {'confirmed': False, 'tried': 3}


LINSOLVE = z3.Function('gy_inverse_times', M.Mat, M.Mat, M.Mat)      # kvxopt linsolve(A, B): B := A^-1 B (assumed; C16)
DIAGINV = z3.Function('diag_of_inverse_time_constants', z3.ArraySort(I, R), M.Mat)


def reduce_(pid):
    """EIG._reduce: result = diag(1/Tf') (fx - fy gy^-1 gx), Tf' = Tf with zeros replaced by one."""
    N = fresh('N', I)

    def matrix_h(ex, st, args, kw, node):
        return args[0]             # dense copy of gx: same matrix value

    def linsolve(ex, st, args, kw, node):
        A, B = args
        ex.oblige(st, 'pre@call:linsolve:solved-in-place-on-the-copy-of-gx', z3.BoolVal(B is st.load('self.gyx')), {})
        st.store('self.gyx', Opaque(LINSOLVE(A.term, B.term)))
        return None

    def spdiag(ex, st, args, kw, node):
        c = st.content(args[0])
        Tf = st.content(st.env['Tf'])
        k = fresh('k', I)
        a = c.arr if isinstance(c, SeqC) else c.vals
        ex.oblige(st, 'pre@call:spdiag:entries-are-1/Tf-with-zero-time-constants-replaced-by-one',
                  z3.And(c.n == Tf.n, z3.ForAll([k], z3.Implies(z3.And(k >= 0, k < Tf.n),
                                                                a[k] == 1 / z3.If(Tf.vals[k] == 0, 1, Tf.vals[k])))), {})
        return Opaque(DIAGINV(Tf.vals))

    def post(old, new, res):
        fx, fy, gx, gy = [old.local(n).term for n in ('fx', 'fy', 'gx', 'gy')]
        Tf = old.st.content(old.local('Tf'))
        want = M.mmul(DIAGINV(Tf.vals), M.msub(fx, M.mmul(fy, LINSOLVE(gy, gx))))
        return res.term == want
    c = Contract(FE, 'EIG._reduce', pid=pid,
                 params={'self': TObj(), 'fx': M.MatT, 'fy': M.MatT, 'gx': M.MatT, 'gy': M.MatT, 'Tf': TArr(n=N), 'dense': TConst(True)},
                 schema={'self.gyx': M.MatT, 'self.fxy': M.MatT, 'self.config.tol': TReal()},
                 requires=[('N>=0', lambda v: N >= 0)],
                 calls={'matrix': matrix_h, 'self.solver.linsolve': linsolve, 'spdiag': spdiag, '__binop__': M.binop,
                        'sparse': lambda ex, st, a, k, n: a[0]},
                 globals_={'matrix': Func('matrix'), 'spdiag': Func('spdiag'), 'sparse': Func('sparse')},
                 ensures=[('As=T^-1(fx-fy.gy^-1.gx)', post)], modifies=['self.gyx', 'self.fxy'])
    return c


def find_zero_states(pid):
    """EIG.find_zero_states: zstate_idx are exactly the positions with Tf == 0, nz_counts the number of the others."""
    N = fresh('N', I)
    ZCOUNT = z3.Function('count_of_true', z3.ArraySort(I, R), I, I)

    def where_h(ex, st, args, kw, node):
        mask = st.content(args[0])
        cnt = ZCOUNT(mask.vals, mask.n)
        idx = fresh('where', z3.ArraySort(I, R))
        k, j = fresh('k', I), fresh('j', I)
        st.assume(z3.And(cnt >= 0, cnt <= mask.n))
        # sorted positions of the true entries
        st.assume(z3.ForAll([k], z3.Implies(z3.And(k >= 0, k < cnt), z3.And(
            z3.IsInt(idx[k]), idx[k] >= 0, z3.ToInt(idx[k]) < mask.n, mask.vals[z3.ToInt(idx[k])] != 0))))
        st.assume(z3.ForAll([j], z3.Implies(z3.And(j >= 0, j < mask.n, mask.vals[j] != 0),
                                            z3.Exists([k], z3.And(k >= 0, k < cnt, z3.ToInt(idx[k]) == j)))))
        st.ghost['mask'] = mask
        return (st.new_ref(ArrC(idx, cnt, None, kind='int'), 'where'),)

    def sum_h(ex, st, args, kw, node):
        mask = st.content(args[0])
        k = fresh('k', I)
        s = fresh('nnz', I)
        st.assume(z3.And(s >= 0, s <= mask.n))
        st.assume((s == mask.n) == z3.ForAll([k], z3.Implies(z3.And(k >= 0, k < mask.n), mask.vals[k] != 0)))
        return s

    def post(old, new, res):
        Tf = old.arr('self.system.dae.Tf')
        z = new.arr('self.zstate_idx')
        k, j = fresh('k', I), fresh('j', I)
        only = z3.ForAll([k], z3.Implies(z3.And(k >= 0, k < z.n), Tf.vals[z3.ToInt(z.vals[k])] == 0))
        every = z3.ForAll([j], z3.Implies(z3.And(j >= 0, j < N, Tf.vals[j] == 0),
                                          z3.Exists([k], z3.And(k >= 0, k < z.n, z3.ToInt(z.vals[k]) == j))))
        return z3.And(only, every, new.z('self.nz_counts') == old.z('self.system.dae.n') - z.n)
    c = Contract(FE, 'EIG.find_zero_states', pid=pid, params={'self': TObj()},
                 schema={'self.system.dae.Tf': TArr(n=N), 'self.system.dae.n': TInt(), 'self.zstate_idx': TArr(kind='int'),
                         'self.nz_counts': TInt(), 'self.system.dae.x_name': TSeq(elem=TStr.sort)},
                 requires=[('sizes', lambda v: z3.And(N >= 0, v.z('self.system.dae.n') == N))],
                 calls={'np.where': where_h, 'sum': sum_h,
                        'np.array': lambda ex, st, a, k, n: st.new_ref(ArrC(z3.K(I, z3.RealVal(0)), z3.IntVal(0), None, kind='int'), 'empty')},
                 ensures=[('zstate_idx={k|Tf[k]=0};nz_counts=n-|zstate_idx|', post)],
                 modifies=['self.zstate_idx', 'self.nz_counts'])
    c.check_bounds = False
    return c


def calc_pfactor(pid):
    """EIG.calc_pfactor: pf[mode k, state i] = |W[i,k]| |N[i,k]| / sum_i' |W[i',k]| |N[i',k]| (then rounded): non-negative and
    each mode (row) sums to one by lemma L2."""
    NS = fresh('NS', I)
    COLSUM = z3.Function('column_sum', I, R)          # ghost: sum over states of |W||N| in column k  (contract of b @ P, b = ones)
    ROUND = z3.Function('round5', R, R)

    def calc_eig(ex, st, args, kw, node):
        mu = st.load('mu')
        Nm = st.load('N')
        return (mu, Nm)

    def solve_h(ex, st, args, kw, node):
        return st.load('WT')          # inv(N) (LAPACK contract assumed): W = WT.T

    def matmul(ex, st, args, kw, node):
        a, b = args
        P = st.content(b)
        st.ghost['P'] = P
        k = fresh('k', I)
        return st.new_ref(ArrC(z3.Lambda([k], COLSUM(k)), P.n1, None), 'colsum')

    def round_h(ex, st, args, kw, node):
        c = st.content(args[0])
        return st.new_ref(Arr2C(lambda i, j, c=c: ROUND(c.at(i, j)), c.n0, c.n1), 'round')

    def abs_h(i, j, W, Nm):
        a = lambda t: z3.If(t >= 0, t, -t)  # noqa
        return a(W.at(i, j)) * a(Nm.at(i, j))

    def post(old, new, res):
        mu, pf, Nr, Wr = res
        P = new.st.content(pf)
        Nm = old.st.content(old.get('N'))
        WT = old.st.content(old.get('WT'))
        i, k = fresh('i', I), fresh('k', I)
        a = lambda t: z3.If(t >= 0, t, -t)  # noqa
        # W[i,k] = WT[k,i]
        want = ROUND(a(WT.at(k, i)) * a(Nm.at(i, k)) / COLSUM(k))
        return z3.ForAll([i, k], z3.Implies(z3.And(i >= 0, i < NS, k >= 0, k < NS), P.at(k, i) == want))
    c = Contract(FE, 'EIG.calc_pfactor', pid=pid, params={'self': TObj(), 'As': TConst(None)},
                 schema={'mu': TArr(n=NS), 'N': TArr2(n0=NS, n1=NS), 'WT': TArr2(n0=NS, n1=NS)},
                 requires=[('NS>=0', lambda v: NS >= 0)],
                 calls={'self.calc_eig': calc_eig, 'np.eye': lambda ex, st, a, k, n: Opaque(fresh('eye', M.Mat)), 'solve': solve_h,
                        'np.ones': lambda ex, st, a, k, n: Opaque(fresh('ones', M.Mat)), '__matmul__': matmul, 'np.round': round_h},
                 globals_={'solve': Func('solve')},
                 loops={0: Loop(inv=[('rows-before-item-normalised;rest-raw', None)], frame=['loc:transpose', '$item'])},
                 ensures=[('pf[k,i]=round(|W[i,k]||N[i,k]|/column_sum(k))', post)], modifies=[])
    # loop invariant (needs the transposed array): filled in below
    def inv(v):
        item = v.local('$i0')
        P = v.st.content(v.local('pfactor'))
        Nm = v.st.content(v.get('N'))
        WT = v.st.content(v.get('WT'))
        i, k = fresh('i', I), fresh('k', I)
        a = lambda t: z3.If(t >= 0, t, -t)  # noqa
        raw = a(WT.at(k, i)) * a(Nm.at(i, k))
        return z3.ForAll([i, k], z3.Implies(z3.And(i >= 0, i < NS, k >= 0, k < NS),
                                            P.at(k, i) == z3.If(k < item, raw / COLSUM(k), raw)))
    c.loops[0].inv = [('rows-before-item-normalised;rest-raw', inv)]
    c.check_bounds = False
    return c


def pre_check(pid):
    """EIG._pre_check: without a converged power flow it refuses and does not touch TDS (F16: TDS.init is still called)."""
    def tds_init(ex, st, args, kw, node):
        st.ghost['tds_init_called'] = True
        return None

    def post(old, new, res):
        pf = old.z('self.system.PFlow.converged')
        return z3.Implies(z3.Not(pf), z3.And(z3.Not(to_z3(res)), z3.BoolVal(new.st.ghost['tds_init_called'] is False)))

    def post_ok(old, new, res):
        return z3.Implies(to_z3(res), old.z('self.system.PFlow.converged'))
    c = Contract(FE, 'EIG._pre_check', pid=pid, params={'self': TObj()},
                 schema={'self.system.PFlow.converged': TBool(), 'self.system.TDS.initialized': TBool(), 'self.system.dae.n': TInt()},
                 ghost_init={'tds_init_called': False},
                 calls={'self.system.TDS.init': tds_init, 'self.system.TDS.itm_step': spec(name='TDS.itm_step')},
                 ensures=[('no-power-flow=>refused-and-TDS-untouched', post), ('accepted=>power-flow-converged', post_ok)],
                 modifies=[])
    c.merge = False
    return c


WIT_F16 = {'F16': lambda old, new: z3.And(z3.Not(old.z('self.system.PFlow.converged')), z3.Not(old.z('self.system.TDS.initialized')))}


def eig_run(pid):
    """EIG.run: a failed pre-check gives False and a non-zero exit code; success implies the pre-check passed."""
    def pre(ex, st, args, kw, node):
        r = fresh('precheck', Bo)
        st.ghost['pre'] = r
        return r

    def post(old, new, res):
        pre_ = new.st.ghost['pre']
        return z3.And(to_z3(res) == pre_, z3.Implies(z3.Not(pre_), new.z('self.system.exit_code') == old.z('self.system.exit_code') + 1))
    return Contract(FE, 'EIG.run', pid=pid, params={'self': TObj()},
                    schema={'self.system.exit_code': TInt(), 'self.system.files.no_output': TBool(), 'self.config.plot': TBool(),
                            'self.exec_time': TReal(), 'self.mu': TOpaque('Any'), 'self.pfactors': TOpaque('Any'),
                            'self.N': TOpaque('Any'), 'self.W': TOpaque('Any')},
                    calls={'self._pre_check': pre, 'self.summary': spec(name='summary'),
                           'elapsed': spec(returns=(NR(z3.Real('t_el')), 's'), name='elapsed'),
                           'self.calc_As': spec(name='calc_As'),
                           'self.calc_pfactor': lambda ex, st, a, k, n: tuple(Opaque(fresh(x, z3.DeclareSort('Any'))) for x in 'abcd'),
                           'self._store_stats': spec(name='_store_stats'), 'self.stats': spec(returns=TStr(), name='stats'),
                           'self.report': spec(name='report'), 'self.system.options.get': spec(returns=TBool(), name='options.get'),
                           'self.export_mat': spec(name='export_mat'), 'self.plot': spec(name='plot'),
                           '<value>.format': lambda ex, st, a, k, n: 'msg'},
                    globals_={'elapsed': Func('elapsed')},
                    ensures=[('returns-the-pre-check;refusal-raises-the-exit-code', post)],
                    modifies=['self.*', 'self.system.exit_code'])


def replay_pre_check(bname, model, meta):
    """F16 on the real code: EIG.run after a failed power flow raises instead of refusing."""
    import logging
    import numpy as np
    import andes
    logging.getLogger('andes').setLevel(logging.CRITICAL)
    ss = andes.load(andes.get_case('kundur/kundur_full.xlsx'), default_config=True, no_output=True)
    ss.PQ.p0.v[0] = 1e6        # infeasible loading: power flow fails
    ss.PFlow.run()
    try:
        r = ss.EIG.run()
        err = None
    except Exception as e:   # noqa
        r, err = None, repr(e)
    return {'confirmed': (ss.PFlow.converged is False) and err is not None, 'pflow_converged': bool(ss.PFlow.converged),
            'eig_run_result': r, 'exception': err,
            'native_cmd': 'kundur_full: PQ.p0[0]=1e6; PFlow.run() fails; EIG.run() -> exception from TDS.init'}


def calc_as(pid):
    """EIG.calc_As: the state matrix is the reduction (contract of EIG._reduce) of exactly dae.fx, dae.fy, dae.gx, dae.gy, dae.Tf in this
    order, taken after the zero-time-constant states have been identified; without such states this is the returned and stored
    matrix; with them it is kept as Asc and the returned matrix is the reduction of what EIG._reorder hands back."""
    from pyvc.symval import Mark
    RED = z3.Function('reduce_result', M.Mat, M.Mat, M.Mat, M.Mat, z3.ArraySort(I, R), M.Mat)
    RED2 = fresh('reduce_of_reordered', M.Mat)

    def find(ex, st, args, kw, node):
        st.ghost['order'] = st.ghost['order'] + ['find_zero_states']
        st.store('self.zstate_idx', TArr(kind='int').make(st, 'zstate_idx_found'))       # find_zero_states writes the list (own contract)
        return None

    def reduce_h(ex, st, args, kw, node):
        st.ghost['order'] = st.ghost['order'] + ['_reduce']
        if len(args) == 1 and isinstance(args[0], tuple) and args[0][0] == 'star':
            ok = isinstance(args[0][1], Mark) and args[0][1].kind == 'reordered' and not kw
            ex.oblige(st, 'pre@call:_reduce(*self._reorder())', z3.BoolVal(bool(ok)), {})
            return Opaque(RED2)
        ok = len(args) == 5 and all(isinstance(a, Opaque) for a in args[:4]) and isinstance(args[4], Ref) and set(kw) <= {'dense'}
        ex.oblige(st, 'pre@call:_reduce(fx,fy,gx,gy,Tf,dense=dense)', z3.BoolVal(bool(ok)), {})
        if not ok:
            raise Unsupported('_reduce call shape')
        if 'dense' in kw:
            ex.oblige(st, 'pre@call:_reduce:dense-passed-on', z3.BoolVal(kw['dense'] is st.env['dense']), {})
        return Opaque(RED(args[0].term, args[1].term, args[2].term, args[3].term, st.content(args[4]).vals))

    def reorder(ex, st, args, kw, node):
        st.ghost['order'] = st.ghost['order'] + ['_reorder']
        ex.oblige(st, 'pre@call:_reorder:after-the-unreordered-matrix-is-stored-in-self.As', z3.BoolVal(bool(isinstance(st.load('self.As'), Opaque) and st.load('self.As').term.eq(st.ghost.get('first')))) if st.ghost.get('first') is not None else z3.BoolVal(True), {})
        return Mark('reordered')

    def np_array(ex, st, args, kw, node):
        return Mark('names')

    def post(old, new, res):
        d = 'self.system.dae.'
        first = RED(old.get(d + 'fx').term, old.get(d + 'fy').term, old.get(d + 'gx').term, old.get(d + 'gy').term, old.arr(d + 'Tf').vals)
        nz = new.st.content(new.st.load('self.zstate_idx')).n
        order = new.st.ghost['order']
        as_ = new.get('self.As').term
        plain = z3.And(res.term == first, as_ == first, z3.BoolVal(order == ['find_zero_states', '_reduce']))
        zero = z3.And(res.term == RED2, as_ == RED2, new.get('self.Asc').term == first,
                      z3.BoolVal(order == ['find_zero_states', '_reduce', '_reorder', '_reduce']))
        return z3.If(nz > 0, zero, plain)
    d = 'self.system.dae.'
    c = Contract(FE, 'EIG.calc_As', pid=pid, params={'self': TObj(), 'dense': TBool()},
                 schema={d + 'fx': M.MatT, d + 'fy': M.MatT, d + 'gx': M.MatT, d + 'gy': M.MatT, d + 'Tf': TArr(), d + 'x_name': TSeq(TStr.sort),
                         'self.zstate_idx': TArr(kind='int'), 'self.As': M.MatT, 'self.Asc': M.MatT},
                 ghost_init={'order': []},
                 calls={'self.find_zero_states': find, 'self._reduce': reduce_h, 'self._reorder': reorder, 'np.array': np_array},
                 ensures=[('As=reduce(dae.fx,dae.fy,dae.gx,dae.gy,dae.Tf)-after-find_zero_states;reordered-reduction-when-zero-time-constants-exist', post)],
                 modifies=['self.As', 'self.Asc', 'self.x_name', 'self.zstate_idx'])
    c.star_ok = True
    c.merge = False
    return c


def replay_calc_as(obligation=None, model=None, meta=None):
    """native: eigenvalues reported on stock cases against a dense NumPy reference built from the assembled matrices and the models' own
    time constants (contracts/bounded_eig_ref.py)"""
    from contracts import bounded_eig_ref
    n, bad = bounded_eig_ref.run()
    if bad:
        return {'confirmed': True, 'inputs': bad, 'observed': bad.get('observed'), 'native_cmd': 'contracts/bounded_eig_ref.py'}
    return {'confirmed': False, 'tried': n}


def sweep_rounds(pid):
    """EIG.sweep, from its round loop on: in every round each listed parameter of each listed device receives its value of this round
    THROUGH the owning model's set(name, device, 'v', value) -- the one entry point that also refreshes dae.Tf and the mass matrix when
    the parameter is a time constant -- and only then the round's matrices are refreshed (TDS.init, TDS.itm_step), the state matrix is
    rebuilt (calc_As) and its eigenvalues (calc_eig of that very matrix) are filed under the round number."""
    from pyvc.symval import Mark, Coll, Obj, TColl
    PS = z3.DeclareSort('Param')
    ER = 'rounds.$e'

    def zip_h(ex, st, args, kw, node):
        ok = len(args) == 1 and isinstance(args[0], tuple) and args[0][0] == 'star' and args[0][1] is st.env['values']
        ex.oblige(st, 'pre@call:rounds=zip(*values)', z3.BoolVal(bool(ok)), {})
        n = fresh('n_rounds', I)
        st.assume(n >= 0)
        return Coll('rounds', n, None)

    def getitem(ex, st, args, kw, node):
        base, sl = args
        if isinstance(base, Obj) and base.path == ER:
            i = to_z3(ex.ev(sl, st))
            return NR(st.content(st.load(ER + '.vals')).vals[i], False)
        if isinstance(base, Mark) and base.kind == 'param.v':
            return Opaque(fresh('param_value', z3.DeclareSort('Any')))
        return NotImplemented

    def setitem(ex, st, args, kw, node):
        base, sl, value = args
        if isinstance(base, Mark) and base.kind == 'param.v':
            ex.oblige(st, 'pre@store:a-swept-parameter-is-written-through-Model.set(not-directly-into-param.v:dae.Tf-would-go-stale)', z3.BoolVal(False), {})
            return None
        if isinstance(base, Mark) and base.kind == 'results':
            st.ghost['filed'] = st.ghost['filed'] + [(ex.ev(sl, st), value)]
            return None
        return NotImplemented

    def attr_of_param(name):
        def h(ex, st, base):
            return Mark('param.' + name, base.term)
        return h

    def set_h(ex, st, args, kw, node):
        base = args[0]
        a = list(args[1:])
        i = st.env.get('idx')
        ok = isinstance(base, Mark) and base.kind == 'param.owner' and base.data[0].eq(st.env['param'].term) and len(a) == 4 and \
            isinstance(a[0], Mark) and a[0].kind == 'param.name' and a[0].data[0].eq(st.env['param'].term) and a[2] == 'v' and not kw
        ex.oblige(st, 'pre@call:owner.set(param.name,<device>,"v",<value>)', z3.BoolVal(bool(ok)), {})
        if ok:
            idxes = st.content(st.env['idxes'])
            vals = st.content(st.load(ER + '.vals'))
            dev = a[1].term if isinstance(a[1], Opaque) else to_z3(a[1])
            ex.oblige(st, 'pre@call:owner.set:device=idxes[k],value=val[k]-for-the-k-th-parameter', z3.And(dev == idxes.arr[to_z3(i)], as_real(a[3]).val == vals.vals[to_z3(i)]), {})
        st.ghost['sets'] = st.ghost['sets'] + 1
        st.ghost['order'] = st.ghost['order'] + ['set']
        return True

    def rec(tag, ret=None):
        def h(ex, st, args, kw, node):
            st.ghost['order'] = st.ghost['order'] + [tag]
            if tag == 'calc_eig':
                ex.oblige(st, 'pre@call:calc_eig(self.As)', z3.BoolVal(bool(len(args) == 1 and isinstance(args[0], Opaque) and args[0].term.eq(st.load('self.As').term))), {})
                mu = Opaque(fresh('mu', z3.DeclareSort('Any')))
                st.ghost['mu'] = mu
                return (mu, Opaque(fresh('N', z3.DeclareSort('Any'))))
            if tag == 'calc_As':
                st.store('self.As', Opaque(fresh('As', M.Mat)))
            return ret
        return h

    def dict_h(ex, st, args, kw, node):
        return Mark('entry', kw.get('mu'), kw.get('param_values'))

    def reset_outer(v):
        v.st.ghost['order'] = []
        v.st.ghost['filed'] = []
        v.st.ghost['in_round'] = True
        return True

    def reset_inner(v):
        v.st.ghost['sets'] = 0
        v.st.ghost['in_iter'] = True
        return True

    def inner(v):
        if not v.st.ghost.get('in_iter'):
            return True
        return z3.BoolVal(v.st.ghost['sets'] == 1)

    def outer(v):
        if not v.st.ghost.get('in_round'):
            return True
        g = v.st.ghost
        o = [x for x in g['order'] if x != 'set']
        filed = g['filed']
        ok = o == ['TDS.init', 'itm_step', 'calc_As', 'calc_eig'] and g['order'][-4:] == o and len(filed) == 1 and \
            isinstance(filed[0][1], Mark) and filed[0][1].kind == 'entry' and filed[0][1].data[0] is g.get('mu')
        if not ok:
            return z3.BoolVal(False)
        return to_z3(filed[0][0]) == to_z3(v.st.env['count'])
    c = Contract(FE, 'EIG.sweep', pid=pid, params={'self': TObj(), 'params': TSeq(PS), 'idxes': TSeq(TStr.sort), 'values': TOpaque('Values')},
                 schema={'self.As': M.MatT, 'rounds': TColl(), ER + '.vals': TArr()},
                 ghost_init={'order': [], 'filed': [], 'sets': 0, 'mu': None},
                 calls={'zip': zip_h, '__getitem__': getitem, '__setitem__': setitem, '<value>.set': set_h, 'self.system.TDS.init': rec('TDS.init'),
                        'self.system.TDS.itm_step': rec('itm_step'), 'self.calc_As': rec('calc_As'), 'self.calc_eig': rec('calc_eig'), 'dict': dict_h},
                 globals_={'zip': Func('zip'), 'dict': Func('dict')},
                 loops={2: Loop(inv=[('round:parameters-set,then-init,step,state-matrix,eigenvalues-of-it-filed-under-the-round-number', outer)],
                                assume=[('reset', reset_outer)], frame=['$count', '$val', '$idx', '$param', '$pos', '$mu', '$N', 'self.As', 'self.mu', 'self.N', ER + '.*',
                                                                        'ghost:sets']),
                        3: Loop(inv=[('each-listed-parameter-is-set-exactly-once-per-round', inner)], assume=[('reset', reset_inner)],
                                frame=['$idx', '$param', '$pos'])},
                 ensures=[], modifies=['self.As', 'self.mu', 'self.N'])
    c.body_from = 'for count, val in enumerate(zip(*values))'
    c.locals = {'positions': TSeq(I), 'results': Mark('results'), 'ret': False, 'param_names': TSeq(TStr.sort)}
    c.properties = {}
    c.star_ok = True
    c.merge = False
    c.check_bounds = False
    c.value_attrs = {'v': attr_of_param('v'), 'owner': attr_of_param('owner'), 'name': attr_of_param('name')}

    def pre_state(st):
        st.ghost.pop('in_iter', None)
        st.ghost.pop('in_round', None)
    c.pre_state = pre_state
    return c


def replay_sweep(obligation=None, model=None, meta=None):
    """native: EIG.sweep over an inertia (a time constant, the documented example) and over an exciter gain on kundur_full without events;
    the spectrum of every round must be the spectrum EIG.run reports on a fresh system in which the same value was set before the first
    initialisation"""
    import contextlib
    import io
    import logging
    import numpy as np
    import andes
    logging.getLogger('andes').setLevel(logging.CRITICAL)
    case = andes.get_case('kundur/kundur_full.xlsx')

    def fresh_system():
        ss = andes.load(case, default_config=True, no_output=True)
        for tg in list(ss.Toggle.idx.v):
            ss.Toggle.alter('u', tg, 0)
        return ss

    def spectrum(mu):
        mu = np.array(mu).ravel()
        return mu[np.lexsort((np.round(mu.imag, 6), np.round(mu.real, 6)))]
    def distance(x, y):
        a, b = spectrum(x), spectrum(y)
        if a.shape != b.shape:
            return float('inf'), 1.0
        return max(float(np.min(np.abs(b - v))) for v in a), max(1.0, float(np.max(np.abs(b))))
    n = 0
    # (i) an inertia (time constant) and a machine damping (enters only Jacobian blocks without variable arguments): the operating point
    #     does not move, so every round must equal a fresh system with that value
    for mdl, par, values in (('GENROU', 'M', None), ('GENROU', 'D', (0.0, 18.0, 45.0))):
        with contextlib.redirect_stdout(io.StringIO()), contextlib.redirect_stderr(io.StringIO()):
            ss = fresh_system()
            ss.PFlow.run()
            ss.EIG.run()
            m = ss.__dict__[mdl]
            dev = m.idx.v[0]
            base_in = float(m.get(par, dev, 'vin'))
            coeff = float(m.get(par, dev, 'pu_coeff'))
            vin_values = [base_in * f for f in (1.0, 2.0, 4.0)] if values is None else list(values)
            res = ss.EIG.sweep(m.__dict__[par], dev, [x * coeff for x in vin_values])
        if not res or len(res) != len(vin_values):
            return {'confirmed': True, 'inputs': {'case': 'kundur_full', 'sweep': '%s.%s of %r' % (mdl, par, dev)}, 'observed': 'sweep returned %r' % (res,),
                    'native_cmd': 'contracts/fn_eig.py replay_sweep'}
        for k, x in enumerate(vin_values):
            n += 1
            with contextlib.redirect_stdout(io.StringIO()), contextlib.redirect_stderr(io.StringIO()):
                ref = fresh_system()
                ref.__dict__[mdl].alter(par, dev, x)
                ref.PFlow.run()
                ref.EIG.run()
            d, scale = distance(res[k]['mu'], ref.EIG.mu)
            if d > 1e-5 * scale:
                return {'confirmed': True, 'inputs': {'case': 'kundur_full (events disabled)', 'sweep': 'EIG.sweep(%s.%s, %r, %r [input base])' % (mdl, par, dev, vin_values), 'round': k},
                        'observed': 'round %d (value %r): an eigenvalue is %.3e away from every eigenvalue of a fresh system with the same value' % (k, x, d),
                        'native_cmd': 'contracts/fn_eig.py replay_sweep'}
    # (ii) a gain: the round's spectrum must be that of the state matrix rebuilt from freshly evaluated Jacobians at the point the sweep left
    with contextlib.redirect_stdout(io.StringIO()), contextlib.redirect_stderr(io.StringIO()):
        ss = fresh_system()
        ss.PFlow.run()
        ss.EIG.run()
        dev = ss.EXDC2.idx.v[0]
        base = float(ss.EXDC2.get('KA', dev, 'v'))
    for f in (2.5, 10.0):
        n += 1
        with contextlib.redirect_stdout(io.StringIO()), contextlib.redirect_stderr(io.StringIO()):
            res = ss.EIG.sweep(ss.EXDC2.KA, dev, [base * f])
            mu_round = np.array(res[0]['mu']).ravel()
            ss.j_update(ss.exist.pflow_tds)                       # Jacobians of the current point, evaluated now
            As = ss.EIG.calc_As()
            mu_now, _ = ss.EIG.calc_eig(As)
        d, scale = distance(mu_round, mu_now)
        if d > 1e-6 * scale:
            return {'confirmed': True, 'inputs': {'case': 'kundur_full (events disabled)', 'sweep': 'EIG.sweep(EXDC2.KA, %r, [%r])' % (dev, base * f)},
                    'observed': 'the reported spectrum is %.3e away from the spectrum of the state matrix rebuilt from Jacobians evaluated at the same point' % d,
                    'native_cmd': 'contracts/fn_eig.py replay_sweep'}
    return {'confirmed': False, 'tried': n}

replay_sweep.real_system = True       # drives the real program on stock inputs: a crash inside repository code is a confirmed failure

replay_calc_as.real_system = True       # drives the real program on stock inputs: a crash inside repository code is a confirmed failure
