"""C05: hand-over from static to dynamic devices (v_numeric of the dynamic models)."""
import z3

from pyvc.symex import Contract, to_z3, as_real
from pyvc.symval import (TArr, TObj, TSeq, TStr, TInt, TReal, fresh, I, R, Bo, Ref, ArrC, SeqC, FiltC, Mark, Unsupported, NR)

FG = 'andes/models/synchronous/genbase.py'
K = TStr.sort


def genbase_v_numeric(pid):
    """GENBase.v_numeric: exactly the static generators linked to machines that are in service are switched off (u := 0); the
    static generator of an out-of-service machine, and every other static generator, keeps its status."""
    N = fresh('n', I)
    U0 = z3.Function('StaticGen_u_before', K, R)

    def groups_getitem(ex, st, args, kw, node):
        base, sl = args
        if base == Mark('groups') and ex.ev(sl, st) == 'StaticGen':
            return Mark('StaticGen')
        return NotImplemented

    def set_(ex, st, args, kw, node):
        base = args[0]
        ok = base == Mark('StaticGen') and kw.get('src') == 'u' and kw.get('attr') == 'v' and len(args) == 1
        ex.oblige(st, 'pre@call:StaticGen.set(src=u,attr=v,...)', z3.BoolVal(bool(ok)), {})
        idx, value = kw.get('idx'), kw.get('value')
        if not isinstance(idx, Ref):
            raise Unsupported('StaticGen.set with idx %r' % (idx,))
        c = st.content(idx)
        g = fresh('g', K)
        k = fresh('k', I)
        old = st.ghost['U']
        if isinstance(c, FiltC):
            n, elem, keep = c.n, (lambda j: c.elem[j]), (lambda j: c.keep[j])
        elif isinstance(c, SeqC):
            n, elem, keep = c.n, (lambda j: c.arr[j]), (lambda j: z3.BoolVal(True))
        else:
            raise Unsupported('StaticGen.set idx content')
        if isinstance(value, Ref):
            vc = st.content(value)
            if isinstance(c, FiltC):
                raise Unsupported('array value with a filtered idx list')
            val = lambda j: vc.vals[j]          # noqa
        else:
            x = as_real(value).val
            val = lambda j: x                   # noqa
        # U'(g) = value of the last position addressing g (positions are applied in order); stated through a witness position
        W = z3.Function('last_write_' + str(k), K, I)
        hit = lambda gg: z3.Exists([k], z3.And(k >= 0, k < n, keep(k), elem(k) == gg))          # noqa
        st.assume(z3.ForAll([g], z3.Implies(hit(g), z3.And(W(g) >= 0, W(g) < n, keep(W(g)), elem(W(g)) == g,
                                                         z3.ForAll([k], z3.Implies(z3.And(k > W(g), k < n, keep(k)), elem(k) != g))))))
        st.ghost['U'] = lambda gg, old=old, hit=hit, val=val, W=W: z3.If(hit(gg), val(W(gg)), old(gg))
        st.ghost['nset'] = st.ghost['nset'] + 1
        return None

    def post(old, new, res):
        U1 = new.st.ghost['U']
        gen, u = old.arr('self.gen.v'), old.arr('self.u.v')
        g, i = fresh('g', K), fresh('i', I)
        online = z3.Exists([i], z3.And(i >= 0, i < N, u.vals[i] == 1, gen.arr[i] == g))
        return z3.ForAll([g], U1(g) == z3.If(online, 0, U0(g)))
    c = Contract(FG, 'GENBase.v_numeric', pid=pid, params={'self': TObj()},
                 schema={'self.n': TInt(), 'self.gen.v': TSeq(elem=K), 'self.u.v': TArr(n=N), 'self.system.dae.t': TReal()},
                 requires=[('n', lambda v: z3.And(N >= 0, v.z('self.n') == N, v.arr('self.gen.v').n == N))],
                 ghost_init={'U': lambda v: (lambda g: U0(g)), 'nset': 0},
                 calls={'__getitem__': groups_getitem, '<value>.set': set_},
                 ensures=[('StaticGen.u=0-exactly-for-generators-of-in-service-machines;others-unchanged', post)], modifies=[])
    c.check_bounds = False

    def pre_state(st):
        st.heap['self.system.groups'] = Mark('groups')
    c.pre_state = pre_state
    return c


def replay_genbase_v_numeric(obligation, model, meta):
    """native run of the real GENBase.v_numeric on a stub: all four combinations of machine / static generator status"""
    from types import SimpleNamespace
    from andes.models.synchronous.genbase import GENBase
    for mu, su in ((1, 1), (1, 0), (0, 1), (0, 0)):
        status = {'g1': float(su), 'g2': 1.0, 'other': 1.0}

        def set_(src, idx, attr, value, status=status):
            import numpy as np
            vals = np.broadcast_to(np.asarray(value, dtype=float), (len(list(idx)),))
            for i, v in zip(idx, vals):
                status[i] = float(v)
        from contracts.packutil import Stub
        stub = Stub(_cls=GENBase, n=2, gen=SimpleNamespace(v=['g1', 'g2']), u=SimpleNamespace(v=__import__('numpy').array([float(mu), 1.0])),
                               system=SimpleNamespace(groups={'StaticGen': SimpleNamespace(set=set_)}))
        GENBase.v_numeric(stub)
        want = {'g1': 0.0 if mu == 1 else float(su), 'g2': 0.0, 'other': 1.0}
        if status != want:
            return {'confirmed': True, 'inputs': {'machine u': [mu, 1], 'static generator u before': {'g1': su, 'g2': 1, 'other': 1}},
                    'observed': 'static generator status after v_numeric %r, expected %r' % (status, want),
                    'native_cmd': 'GENBase.v_numeric(stub) with a recording StaticGen.set'}
    return {'confirmed': False, 'tried': 4}


# F32: internal states that are known to wander in an undisturbed run (case, variable-name pattern)
KNOWN_DRIFT = [('ieee39/ieee39_full.xlsx', r'F[12]_x1? IEEEST \d+'), ('wecc/wecc_full.xlsx', r'F[12]_x1? IEEEST \d+')]


def bounded_flat_run(pack, pid, tier='quick'):
    """bounded native stand-in: on stock dynamic cases with every disturbance disabled, TDS.init succeeds with residuals below tol,
    the bus voltages are those of the power flow, and a short run stays at that point"""
    from contracts.packutil import native_guard
    name = '%s/andes/routines/tds.py:TDS.init;TDS.run/bounded:initialisation-is-an-equilibrium-of-the-power-flow-solution' % pid
    cases = ['kundur/kundur_full.xlsx', 'ieee14/ieee14_full.xlsx', 'ieee14/ieee14_fload.json', 'ieee14/ieee14_ieeevc2.xlsx', 'mixed:kundur'] + (['ieee39/ieee39_full.xlsx', 'wecc/wecc_full.xlsx'] if tier == 'thorough' else [])

    seen_known = []

    def go():
        import contextlib
        import io
        import logging
        import re
        import numpy as np
        import andes
        logging.getLogger('andes').setLevel(logging.CRITICAL)
        for case in cases:
            with contextlib.redirect_stdout(io.StringIO()), contextlib.redirect_stderr(io.StringIO()):
                ss = andes.load(__import__('contracts.mixed_case', fromlist=['resolve']).resolve(case), default_config=True, no_output=True)
                for mdl in ('Toggle', 'Fault', 'Alter'):
                    m = getattr(ss, mdl, None)
                    if m is not None and m.n > 0:
                        for i in list(m.idx.v):
                            m.alter('u', i, 0)
                if not ss.PFlow.run():
                    return {'case': case, 'observed': 'power flow did not converge'}
                v_pf, a_pf = ss.Bus.v.v.copy(), ss.Bus.a.v.copy()
                ss.TDS.config.tf = 0.5
                ss.TDS.init()
            if ss.TDS.test_ok is not True:
                bad = int(np.nanargmax(np.abs(ss.dae.fg))) if np.any(np.isfinite(ss.dae.fg)) else -1
                return {'case': case, 'observed': 'initialisation test failed; largest residual %r at #%d' % (float(np.nanmax(np.abs(ss.dae.fg))), bad)}
            if np.max(np.abs(ss.Bus.v.v - v_pf)) > 1e-8 or np.max(np.abs(ss.Bus.a.v - a_pf)) > 1e-8:
                return {'case': case, 'observed': 'bus voltages after TDS.init differ from the power-flow solution'}
            x0, y0 = ss.dae.x.copy(), ss.dae.y.copy()
            with contextlib.redirect_stdout(io.StringIO()), contextlib.redirect_stderr(io.StringIO()):
                ok = ss.TDS.run()
            names = list(ss.dae.x_name) + list(ss.dae.y_name)
            d = np.concatenate((np.abs(ss.dae.x - x0), np.abs(ss.dae.y - y0)))
            moved = [names[k] for k in np.where(d > 1e-5)[0]]
            listed = [nm for nm in moved if any(re.fullmatch(pat, nm) for c_, pat in KNOWN_DRIFT if c_ == case)]
            if listed:
                seen_known.append((case, listed))
            other = [nm for nm in moved if nm not in listed]
            if not ok or other:
                k = names.index(other[0]) if other else -1
                return {'case': case, 'observed': 'undisturbed run: success=%r; %d variable(s) moved, e.g. %r by %.3e' % (
                    ok, len(other), other[0] if other else None, float(d[k]) if other else 0.0)}
        return None
    bad = native_guard(pack, name, go)
    if seen_known:
        kname = name + ':F32'
        for k in pack.known_for(kname):
            pack.known_finding(k)
        if not pack.known_for(kname):
            bad = bad or {'case': seen_known[0][0], 'observed': 'states moved in an undisturbed run: %r' % seen_known[0][1][:4]}
    pack.bounded.append({'function': 'TDS.init / TDS.run (end to end, no disturbance)', 'kind': 'bounded native (stock cases: %s)' % ', '.join(cases),
                         'counted_as_proved': False})
    if bad:
        pack.violation(name, {'bounded': True, 'inputs': bad, 'native_cmd': 'load; disable Toggle/Fault/Alter; PFlow.run; TDS.init; TDS.run(tf=0.5)'})


def solve_iter_c(pid):
    """Model.solve_iter: the device-wise Newton initialisation of the named variable group is run exactly once for EVERY device position
    0 .. n-1 of the model (whatever the device's status), with the same name and inputs."""
    import z3
    from pyvc.symex import Contract, Loop
    from pyvc.symval import TObj, TInt, TOpaque, fresh, I
    CALLED = 'called'

    def single(ex, st, args, kw, node):
        ok = len(args) == 3 and args[0] is st.env['name'] and args[1] is st.env['kwargs'] and not kw
        ex.oblige(st, 'pre@call:solve_iter_single(name,kwargs,pos)', z3.BoolVal(bool(ok)), {})
        from pyvc.symex import to_z3
        p = to_z3(args[2])
        c = st.ghost[CALLED]
        st.ghost[CALLED] = z3.Store(c, p, c[p] + 1)
        return None

    def inv(v):
        i = v.local('$i0')
        p = fresh('p', I)
        c = v.st.ghost[CALLED]
        return z3.ForAll([p], c[p] == z3.If(z3.And(p >= 0, p < i), 1, 0))

    def post(old, new, res):
        p = fresh('p', I)
        c = new.st.ghost[CALLED]
        n = old.z('self.n')
        return z3.ForAll([p], c[p] == z3.If(z3.And(p >= 0, p < n), 1, 0))
    c = Contract('andes/core/model/model.py', 'Model.solve_iter', pid=pid, params={'self': TObj(), 'name': TOpaque('Names'), 'kwargs': TOpaque('Inputs')},
                 schema={'self.n': TInt(), 'self.class_name': TOpaque('Str')},
                 requires=[('n>=0', lambda v: v.z('self.n') >= 0)],
                 ghost_init={CALLED: lambda v: z3.K(I, z3.IntVal(0))},
                 calls={'self.solve_iter_single': single},
                 loops={0: Loop(inv=[('positions-below-the-loop-index-were-solved-once,others-not-yet', inv)], frame=['$pos', 'ghost:' + CALLED])},
                 ensures=[('every-device-position-0..n-1-is-solved-exactly-once', post)], modifies=[])
    return c


def replay_solve_iter(obligation=None, model=None, meta=None):
    """native: stock cases whose exciters are initialised iteratively (EXAC1, ESAC1A, AC8B), first exciter out of service, no
    disturbance: TDS.init succeeds with residuals below tolerance"""
    import contextlib
    import io
    import logging
    import warnings
    import numpy as np
    import andes
    logging.getLogger('andes').setLevel(logging.CRITICAL)
    n = 0
    for case, name in (('ieee14/ieee14_exac1.xlsx', 'EXAC1'), ('ieee14/ieee14_esac1a.xlsx', 'ESAC1A'), ('ieee14/ieee14_ac8b.xlsx', 'AC8B')):
        for offline in (True, False):
            n += 1
            with contextlib.redirect_stdout(io.StringIO()), contextlib.redirect_stderr(io.StringIO()), warnings.catch_warnings(), np.errstate(all='ignore'):
                warnings.simplefilter('ignore')
                ss = andes.load(andes.get_case(case), default_config=True, no_output=True)
                for evt in ('Toggle', 'Fault', 'Alter'):
                    mdl = getattr(ss, evt)
                    for idx in list(mdl.idx.v):
                        mdl.alter('u', idx, 0)
                exc = getattr(ss, name)
                if offline:
                    exc.alter('u', exc.idx.v[0], 0)
                ss.PFlow.run()
                ss.TDS.init()
            res = np.abs(np.array(ss.dae.fg))
            tol = ss.TDS.config.tol
            if ss.TDS.test_ok is not True or not np.max(res) < tol:
                j = int(np.argmax(res))
                return {'confirmed': True, 'inputs': {'case': case, 'first %s device' % name: 'u = 0' if offline else 'online'},
                        'observed': 'TDS.init: test_ok = %r, largest residual %.3e at <%s> (tolerance %g)' % (ss.TDS.test_ok, float(res[j]), ss.dae.xy_name[j], tol),
                        'native_cmd': 'contracts/fn_handover.py replay_solve_iter'}
    return {'confirmed': False, 'tried': n}

replay_solve_iter.real_system = True       # drives the real program on stock inputs: a crash inside repository code is a confirmed failure
