"""C05: hand-over from static to dynamic devices (v_numeric of the dynamic models)."""
import z3

from pyvc.symex import Contract, to_z3, as_real
from pyvc.symval import (TArr, TObj, TSeq, TStr, TInt, TReal, fresh, I, R, Bo, Ref, ArrC, SeqC, FiltC, Mark, Unsupported, NR)

FG = 'andes/models/synchronous/genbase.py'
K = TStr.sort


def genbase_v_numeric(pid):
    """GENBase.v_numeric: exactly the static generators linked to machines that are in service are switched off (u := 0); the
    static generator of an out-of-service machine, and every other static generator, keeps its status."""
    N = fresh('n', I)
    U0 = z3.Function('StaticGen_u_before', K, R)

    def groups_getitem(ex, st, args, kw, node):
        base, sl = args
        if base == Mark('groups') and ex.ev(sl, st) == 'StaticGen':
            return Mark('StaticGen')
        return NotImplemented

    def set_(ex, st, args, kw, node):
        base = args[0]
        ok = base == Mark('StaticGen') and kw.get('src') == 'u' and kw.get('attr') == 'v' and len(args) == 1
        ex.oblige(st, 'pre@call:StaticGen.set(src=u,attr=v,...)', z3.BoolVal(bool(ok)), {})
        idx, value = kw.get('idx'), kw.get('value')
        if not isinstance(idx, Ref):
            raise Unsupported('StaticGen.set with idx %r' % (idx,))
        c = st.content(idx)
        g = fresh('g', K)
        k = fresh('k', I)
        old = st.ghost['U']
        if isinstance(c, FiltC):
            n, elem, keep = c.n, (lambda j: c.elem[j]), (lambda j: c.keep[j])
        elif isinstance(c, SeqC):
            n, elem, keep = c.n, (lambda j: c.arr[j]), (lambda j: z3.BoolVal(True))
        else:
            raise Unsupported('StaticGen.set idx content')
        if isinstance(value, Ref):
            vc = st.content(value)
            if isinstance(c, FiltC):
                raise Unsupported('array value with a filtered idx list')
            val = lambda j: vc.vals[j]          # noqa
        else:
            x = as_real(value).val
            val = lambda j: x                   # noqa
        # U'(g) = value of the last position addressing g (positions are applied in order); stated through a witness position
        W = z3.Function('last_write_' + str(k), K, I)
        hit = lambda gg: z3.Exists([k], z3.And(k >= 0, k < n, keep(k), elem(k) == gg))          # noqa
        st.assume(z3.ForAll([g], z3.Implies(hit(g), z3.And(W(g) >= 0, W(g) < n, keep(W(g)), elem(W(g)) == g,
                                                         z3.ForAll([k], z3.Implies(z3.And(k > W(g), k < n, keep(k)), elem(k) != g))))))
        st.ghost['U'] = lambda gg, old=old, hit=hit, val=val, W=W: z3.If(hit(gg), val(W(gg)), old(gg))
        st.ghost['nset'] = st.ghost['nset'] + 1
        return None

    def post(old, new, res):
        U1 = new.st.ghost['U']
        gen, u = old.arr('self.gen.v'), old.arr('self.u.v')
        g, i = fresh('g', K), fresh('i', I)
        online = z3.Exists([i], z3.And(i >= 0, i < N, u.vals[i] == 1, gen.arr[i] == g))
        return z3.ForAll([g], U1(g) == z3.If(online, 0, U0(g)))
    c = Contract(FG, 'GENBase.v_numeric', pid=pid, params={'self': TObj()},
                 schema={'self.n': TInt(), 'self.gen.v': TSeq(elem=K), 'self.u.v': TArr(n=N), 'self.system.dae.t': TReal()},
                 requires=[('n', lambda v: z3.And(N >= 0, v.z('self.n') == N, v.arr('self.gen.v').n == N))],
                 ghost_init={'U': lambda v: (lambda g: U0(g)), 'nset': 0},
                 calls={'__getitem__': groups_getitem, '<value>.set': set_},
                 ensures=[('StaticGen.u=0-exactly-for-generators-of-in-service-machines;others-unchanged', post)], modifies=[])
    c.check_bounds = False

    def pre_state(st):
        st.heap['self.system.groups'] = Mark('groups')
    c.pre_state = pre_state
    return c


def replay_genbase_v_numeric(obligation, model, meta):
    """native run of the real GENBase.v_numeric on a stub: all four combinations of machine / static generator status"""
    from types import SimpleNamespace
    from andes.models.synchronous.genbase import GENBase
    for mu, su in ((1, 1), (1, 0), (0, 1), (0, 0)):
        status = {'g1': float(su), 'g2': 1.0, 'other': 1.0}

        def set_(src, idx, attr, value, status=status):
            import numpy as np
            vals = np.broadcast_to(np.asarray(value, dtype=float), (len(list(idx)),))
            for i, v in zip(idx, vals):
                status[i] = float(v)
        stub = SimpleNamespace(n=2, gen=SimpleNamespace(v=['g1', 'g2']), u=SimpleNamespace(v=__import__('numpy').array([float(mu), 1.0])),
                               system=SimpleNamespace(groups={'StaticGen': SimpleNamespace(set=set_)}))
        GENBase.v_numeric(stub)
        want = {'g1': 0.0 if mu == 1 else float(su), 'g2': 0.0, 'other': 1.0}
        if status != want:
            return {'confirmed': True, 'inputs': {'machine u': [mu, 1], 'static generator u before': {'g1': su, 'g2': 1, 'other': 1}},
                    'observed': 'static generator status after v_numeric %r, expected %r' % (status, want),
                    'native_cmd': 'GENBase.v_numeric(stub) with a recording StaticGen.set'}
    return {'confirmed': False, 'tried': 4}
