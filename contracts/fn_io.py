"""Contracts for C13 (narrow): parameter intake (NumParam.add, BaseParam._sanitize), MATPOWER import / export arithmetic,
PSS/E v33 record -> parameter functions."""
import math

import z3

from pyvc.symex import Contract, Loop, spec, View, Outcomes, to_z3, as_real
from pyvc.symval import (TArr, TArr2, Arr2C, TBool, TFloat, TInt, TObj, TOpaque, TReal, TSeq, TStr, TConst, NR, TOptional, fresh,
                         I, R, Bo, MaybeNone, Func, Opaque, TNone, Module, Ref, ArrC, ListC, DictC, Unsupported, Obj, ExcVal, SeqC,
                         TColl, Coll)

FP = 'andes/core/param.py'
FMP = 'andes/io/matpower.py'
FPS = 'andes/io/psse.py'
DEG2RAD = z3.Real('pi') / 180


def numparam_add(pid):
    """NumParam.add: the stored value is the input, or the default when the input is missing / NaN or violates a declared
    non_zero / non_positive / non_negative property; a missing mandatory parameter raises ValueError."""
    PROPS = {}

    def get_property(ex, st, args, kw, node):
        nm = args[0]
        if nm not in PROPS:
            PROPS[nm] = z3.Bool('prop_' + nm)
        return PROPS[nm]

    def super_add(ex, st, args, kw, node):
        st.ghost['stored'] = args[0]
        return None

    def inval(old):
        v = old.local('value')
        missing = z3.Or(v.isnone, v.value.nanz())
        return v, missing

    def post(old, new, res):
        v, missing = inval(old)
        d = old.z('self.default')
        got = new.st.ghost['stored']
        g = as_real(got.value if isinstance(got, MaybeNone) else got).val
        p = lambda n: PROPS.get(n, z3.BoolVal(False))  # noqa
        x0 = z3.If(missing, d, v.value.val)
        x1 = z3.If(z3.And(x0 == 0, p('non_zero')), d, x0)
        x2 = z3.If(z3.And(x1 > 0, p('non_positive')), d, x1)
        x3 = z3.If(z3.And(x2 < 0, p('non_negative')), d, x2)
        return z3.And(z3.Implies(missing, z3.Not(p('mandatory'))), g == x3)

    def raises_post(old, new, exc):
        v, missing = inval(old)
        return z3.And(missing, PROPS.get('mandatory', z3.BoolVal(False)), z3.BoolVal(new.st.ghost['stored'] is None))
    c = Contract(FP, 'NumParam.add', pid=pid, params={'self': TObj(), 'value': TOptional(TFloat())},
                 schema={'self.default': TReal(), 'self.name': TStr(), 'self.owner.class_name': TStr(), 'self.iconvert': TConst(None)},
                 ghost_init={'stored': None},
                 calls={'hasattr': lambda ex, st, a, k, n: True, 'callable': lambda ex, st, a, k, n: False,
                        'isinstance:float': lambda ex, st, a, k, n: (z3.Not(a[0].isnone) if isinstance(a[0], MaybeNone) else True),
                        'math.isnan': lambda ex, st, a, k, n: (a[0].value.nanz() if isinstance(a[0], MaybeNone) else as_real(a[0]).nanz()),
                        'self.get_property': get_property, 'super': lambda ex, st, a, k, n: Module('super'), 'super.add': super_add},
                 globals_={'hasattr': Func('hasattr'), 'callable': Func('callable'), 'math': Module('math'), 'super': Func('super'),
                           'NumParam': Module('NumParam')},
                 ensures=[('stored=input-or-default-per-missing/NaN/non_zero/non_positive/non_negative', post)],
                 raises={'ValueError': [('only-for-a-missing-mandatory-value-and-nothing-stored', raises_post)]},
                 modifies=[])
    c.merge = False
    return c


def sanitize(pid):
    """BaseParam._sanitize: NaN and None become the default (or ValueError when mandatory); anything else is returned as is."""
    def post(old, new, res):
        v = old.local('value')
        missing = z3.Or(v.isnone, v.value.nanz())
        r = as_real(res.value if isinstance(res, MaybeNone) else res).val
        return z3.And(z3.Implies(missing, r == old.z('self.default')), z3.Implies(z3.Not(missing), r == v.value.val))
    mand = z3.Bool('prop_mandatory')
    c = Contract(FP, 'BaseParam._sanitize', pid=pid, params={'self': TObj(), 'value': TOptional(TFloat())},
                 schema={'self.default': TReal(), 'self.name': TStr(), 'self.owner.class_name': TStr()},
                 calls={'isinstance:float': lambda ex, st, a, k, n: (z3.Not(a[0].isnone) if isinstance(a[0], MaybeNone) else True),
                        'math.isnan': lambda ex, st, a, k, n: (a[0].value.nanz() if isinstance(a[0], MaybeNone) else as_real(a[0]).nanz()),
                        'self.get_property': lambda ex, st, a, k, n: mand},
                 globals_={'math': Module('math')},
                 ensures=[('missing/NaN->default;else-unchanged', post)],
                 raises={'ValueError': [('only-when-mandatory-and-missing', lambda old, new, exc: z3.And(
                     mand, z3.Or(old.local('value').isnone, old.local('value').value.nanz())))]},
                 modifies=[])
    c.merge = False
    return c


# ------------------------------------------------------------------------------------------------ MATPOWER import
def mpc2system(pid):
    """mpc2system: every bus / gen / branch row is handed to System.add with the MATPOWER column mapping: powers divided by
    baseMVA, angles in radians, ratio 0 read as 1, loads / shunts created only when non-zero."""
    sch = {'system.config.mva': TReal(), 'mpc.baseMVA': TReal()}
    for sec, ncol in (('bus', 13), ('gen', 21), ('branch', 17)):
        sch['mpc.%s' % sec] = TColl()
        for k in range(ncol):
            sch['mpc.%s.$e.f%d' % (sec, k)] = TReal()
    VN = z3.Function('bus_Vn', I, R)
    A0 = z3.Function('bus_a0', I, R)

    def add(ex, st, args, kw, node):
        model = args[0]
        base = st.load('mpc.baseMVA').val

        def col(sec, k):
            return st.load('mpc.%s.$e.f%d' % (sec, k)).val

        def num(x):
            return as_real(x).val
        want = None
        if model == 'Bus':
            want = {'idx': z3.ToInt(col('bus', 0)), 'Vn': z3.If(col('bus', 9) == 0, 110, col('bus', 9)), 'v0': col('bus', 7),
                    'a0': col('bus', 8) * DEG2RAD, 'vmax': col('bus', 11), 'vmin': col('bus', 12), 'area': col('bus', 6),
                    'zone': col('bus', 10)}
        elif model == 'PQ':
            want = {'bus': z3.ToInt(col('bus', 0)), 'p0': col('bus', 2) / base, 'q0': col('bus', 3) / base,
                    'Vn': z3.If(col('bus', 9) == 0, 110, col('bus', 9))}
            ex.oblige(st, 'pre@call:System.add(PQ):only-for-a-non-zero-load', z3.Or(col('bus', 2) != 0, col('bus', 3) != 0), {})
        elif model == 'Shunt':
            want = {'bus': z3.ToInt(col('bus', 0)), 'g': col('bus', 4) / base, 'b': col('bus', 5) / base}
            ex.oblige(st, 'pre@call:System.add(Shunt):only-for-a-non-zero-shunt', z3.Or(col('bus', 4) != 0, col('bus', 5) != 0), {})
        elif model in ('PV', 'Slack'):
            b = z3.ToInt(col('gen', 0))
            want = {'bus': b, 'busr': b, 'u': z3.ToInt(col('gen', 7)), 'v0': col('gen', 5), 'p0': col('gen', 1) / base,
                    'q0': col('gen', 2) / base, 'qmax': col('gen', 3) / base, 'qmin': col('gen', 4) / base,
                    'pmax': col('gen', 8) / base, 'pmin': col('gen', 9) / base, 'Vn': VN(b)}
            if model == 'Slack':
                want['a0'] = A0(b)
            sw = st.content(st.env['sw'])
            k = fresh('k', I)
            isslack = z3.Exists([k], z3.And(k >= 0, k < sw.n, sw.arr[k] == (b if z3.is_int(sw.arr[k]) else z3.ToReal(b)))) \
                if isinstance(sw, SeqC) else z3.Or(*[to_z3(x) == b for x in sw.items]) if sw.items else z3.BoolVal(False)
            ex.oblige(st, 'pre@call:System.add(%s):slack-iff-the-bus-is-of-type-3' % model,
                      isslack if model == 'Slack' else z3.Not(isslack), {})
        elif model == 'Line':
            ratio, ang = col('branch', 8), col('branch', 9)
            notf = z3.Or(ratio == 0, z3.And(ratio == 1, ang == 0))
            fb, tb = z3.ToInt(col('branch', 0)), z3.ToInt(col('branch', 1))
            want = {'bus1': fb, 'bus2': tb, 'r': col('branch', 2), 'x': col('branch', 3), 'b': col('branch', 4),
                    'rate_a': col('branch', 5), 'rate_b': col('branch', 6), 'rate_c': col('branch', 7),
                    'u': z3.ToInt(col('branch', 10)), 'tap': z3.If(notf, 1, ratio), 'phi': z3.If(notf, 0, ang * DEG2RAD),
                    'Vn1': VN(fb), 'Vn2': VN(tb)}
        if want is None:
            raise Unsupported('System.add(%r)' % (model,))
        missing = [k for k in want if k not in kw]
        conj = [z3.BoolVal(not missing)]
        for k, w in want.items():
            if k in kw:
                g = kw[k]
                gz = to_z3(g) if not isinstance(g, NR) else g.val
                if z3.is_int(gz) and not z3.is_int(z3.simplify(w) if z3.is_expr(w) else z3.IntVal(0)) and z3.is_expr(w) and z3.is_real(w):
                    gz = z3.ToReal(gz)
                conj.append(gz == w)
        ex.oblige(st, 'pre@call:System.add(%s):fields-follow-the-MATPOWER-column-mapping' % model, z3.And(*conj), {'missing': str(missing)})
        return Opaque(fresh('idx', TStr.sort))

    def int_h(ex, st, args, kw, node):
        v = args[0]
        if isinstance(v, NR):
            return z3.ToInt(v.val)
        from pyvc.symex import _int
        return _int(ex, st, args, kw, node)

    def idx2uid(ex, st, args, kw, node):
        return ('uid', to_z3(args[0]))

    def getitem(ex, st, args, kw, node):
        base, sl = args
        if isinstance(base, tuple) and base and base[0] == 'col':
            u = ex.ev(sl, st)
            return NR({'Vn': VN, 'a0': A0}[base[1]](u[1]))
        return NotImplemented
    c = Contract(FMP, 'mpc2system', pid=pid, params={'mpc': None, 'system': TObj()}, schema=sch,
                 requires=[('baseMVA-positive', lambda v: v.z('mpc.baseMVA') > 0)],
                 calls={'system.add': add, 'int': int_h, 'system.Bus.idx2uid': idx2uid, '__getitem__': getitem,
                        'str': lambda ex, st, a, k, n: Opaque(fresh('s', TStr.sort))},
                 globals_={'deg2rad': NR(DEG2RAD)},
                 loops={0: Loop(inv=[], frame=['$data', '$idx', '$ty', '$pd', '$qd', '$gs', '$bs', '$area', '$vmag', '$vang', '$baseKV',
                                               '$zone', '$vmax', '$vmin', 'loc:list', 'mpc.bus.$e.*']),
                        1: Loop(inv=[], frame=['$data', '$bus_idx', '$gen_idx', '$vg', '$status', '$mbase', '$pg', '$qg', '$qmax',
                                               '$qmin', '$pmax', '$pmin', '$uid', '$vn', '$a0', 'mpc.gen.$e.*']),
                        2: Loop(inv=[], frame=['$data', '$fbus', '$tbus', '$r', '$x', '$b', '$rate_a', '$rate_b', '$rate_c', '$status',
                                               '$tf', '$tap_raio', '$phase_shift', '$vf', '$vt', 'mpc.branch.$e.*'])},
                 ensures=[('returns-True', lambda o, n, r: z3.BoolVal(r is True))],
                 modifies=['system.config.mva'])

    def pre_state(st):
        st.env['mpc'] = st.new_ref(DictC({'baseMVA': st.load('mpc.baseMVA'), 'bus': st.load('mpc.bus'), 'gen': st.load('mpc.gen'),
                                          'branch': st.load('mpc.branch')}), 'mpc')
        st.heap['system.Bus.Vn.v'] = ('col', 'Vn')
        st.heap['system.Bus.a0.v'] = ('col', 'a0')
    c.pre_state = pre_state
    c.check_bounds = False
    c.merge = False
    return c


# ------------------------------------------------------------------------------------------------ MATPOWER export
RAD2DEG = 180 / z3.Real('pi')


def system2mpc(pid):
    """system2mpc: bus / gen / branch matrices carry the system values in MATPOWER units and columns; bus Pd/Qd of a bus is the
    load on it (F14: with several PQ on one bus only the last one is kept)."""
    NB, NPQ, NSH, NPV, NSL, NL = [fresh(n, I) for n in ('NB', 'NPQ', 'NSH', 'NPV', 'NSL', 'NL')]
    sch = {'system.config.mva': TReal(), 'system.Bus.n': TInt(), 'system.PV.n': TInt(), 'system.Slack.n': TInt(), 'system.Line.n': TInt(),
           'system.PQ.n': TInt(), 'system.Shunt.n': TInt(), 'system.Bus.idx.v': TArr(n=NB, kind='int'), 'system.Bus.name.v': TArr(n=NB)}
    for f in ('v0', 'a0', 'Vn', 'vmax', 'vmin'):
        sch['system.Bus.%s.v' % f] = TArr(n=NB)
    sch['system.PQ.bus.v'] = TArr(n=NPQ, kind='int')
    for f in ('p0', 'q0'):
        sch['system.PQ.%s.v' % f] = TArr(n=NPQ)
    sch['system.Shunt.bus.v'] = TArr(n=NSH, kind='int')
    for f in ('g', 'b'):
        sch['system.Shunt.%s.v' % f] = TArr(n=NSH)
    for mdl, n in (('PV', NPV), ('Slack', NSL)):
        sch['system.%s.bus.v' % mdl] = TArr(n=n, kind='int')
        for f in ('p0', 'q0', 'qmax', 'qmin', 'v0', 'u', 'pmax', 'pmin', 'a0'):
            sch['system.%s.%s.v' % (mdl, f)] = TArr(n=n)
    for f in ('bus1', 'bus2'):
        sch['system.Line.%s.v' % f] = TArr(n=NL, kind='int')
    for f in ('r', 'x', 'b', 'rate_a', 'rate_b', 'rate_c', 'tap', 'phi', 'u'):
        sch['system.Line.%s.v' % f] = TArr(n=NL)
    POS = z3.Function('bus_position_of_idx', R, I)      # Bus.idx2uid on numeric idx (C19)

    def zeros(ex, st, args, kw, node):
        shp = args[0]
        if isinstance(shp, tuple) and len(shp) == 2:
            return st.new_ref(Arr2C(lambda i, j: z3.RealVal(0), to_z3(shp[0]), to_z3(shp[1])), 'mpcmat')
        return st.new_ref(ArrC(z3.K(I, z3.RealVal(0)), to_z3(shp[0]), None), 'names')

    def idx2uid(ex, st, args, kw, node):
        c = st.content(args[0])
        k = fresh('k', I)
        return st.new_ref(ArrC(z3.Lambda([k], z3.ToReal(POS(c.vals[k]))), c.n, None, kind='int'), 'pos')

    def caller(ex, st, args, kw, node):
        return Func('to_busid')

    def post_bus(old, new, res):
        mpc = new.st.content(res).items
        bus = new.st.content(mpc['bus'])
        base = old.z('system.config.mva')
        B = lambda f: old.arr('system.Bus.%s.v' % f)  # noqa
        i = fresh('i', I)
        return z3.ForAll([i], z3.Implies(z3.And(i >= 0, i < NB), z3.And(
            bus.at(i, 0) == old.arr('system.Bus.idx.v').vals[i], bus.at(i, 7) == B('v0').vals[i], bus.at(i, 9) == B('Vn').vals[i],
            bus.at(i, 11) == B('vmax').vals[i], bus.at(i, 12) == B('vmin').vals[i])))

    def post_load(old, new, res):
        mpc = new.st.content(res).items
        bus = new.st.content(mpc['bus'])
        base = old.z('system.config.mva')
        pb, p0, q0 = old.arr('system.PQ.bus.v'), old.arr('system.PQ.p0.v'), old.arr('system.PQ.q0.v')
        j = fresh('j', I)
        return z3.ForAll([j], z3.Implies(z3.And(j >= 0, j < NPQ), z3.And(
            bus.at(POS(pb.vals[j]), 2) == p0.vals[j] * base, bus.at(POS(pb.vals[j]), 3) == q0.vals[j] * base)))

    def post_branch(old, new, res):
        mpc = new.st.content(res).items
        br = new.st.content(mpc['branch'])
        L = lambda f: old.arr('system.Line.%s.v' % f)  # noqa
        i = fresh('i', I)
        return z3.Implies(NL > 0, z3.ForAll([i], z3.Implies(z3.And(i >= 0, i < NL), z3.And(
            br.at(i, 0) == L('bus1').vals[i], br.at(i, 1) == L('bus2').vals[i], br.at(i, 2) == L('r').vals[i],
            br.at(i, 3) == L('x').vals[i], br.at(i, 4) == L('b').vals[i], br.at(i, 8) == L('tap').vals[i],
            br.at(i, 9) == L('phi').vals[i] * RAD2DEG, br.at(i, 10) == L('u').vals[i]))))

    def post_gen(old, new, res):
        mpc = new.st.content(res).items
        gen = new.st.content(mpc['gen'])
        base = old.z('system.config.mva')
        i = fresh('i', I)
        cl = []
        for mdl, n, off in (('Slack', NSL, z3.IntVal(0)), ('PV', NPV, NSL)):
            G = lambda f, mdl=mdl: old.arr('system.%s.%s.v' % (mdl, f))  # noqa
            cl.append(z3.Implies(n > 0, z3.ForAll([i], z3.Implies(z3.And(i >= 0, i < n), z3.And(
                gen.at(off + i, 0) == G('bus').vals[i], gen.at(off + i, 1) == G('p0').vals[i] * base,
                gen.at(off + i, 2) == G('q0').vals[i] * base, gen.at(off + i, 3) == G('qmax').vals[i] * base,
                gen.at(off + i, 4) == G('qmin').vals[i] * base, gen.at(off + i, 5) == G('v0').vals[i], gen.at(off + i, 6) == base,
                gen.at(off + i, 7) == G('u').vals[i], gen.at(off + i, 8) == G('pmax').vals[i] * base,
                gen.at(off + i, 9) == G('pmin').vals[i] * base)))))
        return z3.And(*cl)
    c = Contract(FMP, 'system2mpc', pid=pid, params={'system': TObj()}, schema=sch,
                 requires=[('sizes', lambda v: z3.And(NB >= 0, NPQ >= 0, NSH >= 0, NPV >= 0, NSL >= 0, NL >= 0, v.z('system.Bus.n') == NB,
                                                      v.z('system.PV.n') == NPV, v.z('system.Slack.n') == NSL, v.z('system.Line.n') == NL,
                                                      v.z('system.PQ.n') == NPQ, v.z('system.Shunt.n') == NSH)),
                           ('bus-positions-in-range (C19)', lambda v: z3.ForAll([XX], z3.And(POS(XX) >= 0, POS(XX) < NB))),
                           ('at-most-one-PQ-and-one-Shunt-per-bus (several loads per bus: known finding F14, native replay)',
                            lambda v: z3.And(
                                z3.ForAll([J1, J2], z3.Implies(z3.And(0 <= J1, J1 < J2, J2 < NPQ),
                                                               POS(v.arr('system.PQ.bus.v').vals[J1]) != POS(v.arr('system.PQ.bus.v').vals[J2]))),
                                z3.ForAll([J1, J2], z3.Implies(z3.And(0 <= J1, J1 < J2, J2 < NSH),
                                                               POS(v.arr('system.Shunt.bus.v').vals[J1]) != POS(v.arr('system.Shunt.bus.v').vals[J2])))))],
                 calls={'np.zeros': zeros, '_get_bus_id_caller': caller, 'to_busid': lambda ex, st, a, k, n: a[0],
                        'system.Bus.idx2uid': idx2uid, 'np.array': lambda ex, st, a, k, n: a[0], 'dict': None},
                 globals_={'_get_bus_id_caller': Func('_get_bus_id_caller'), 'rad2deg': NR(RAD2DEG), 'object': 'object'},
                 ensures=[('bus-columns:idx,Vm,baseKV,Vmax,Vmin', post_bus), ('bus-Pd,Qd=load-on-that-bus-in-MW/MVAr', post_load),
                          ('branch-columns-incl.-degrees', post_branch), ('gen-rows:slack-first-then-PV;MW/MVAr', post_gen)],
                 modifies=[])
    from pyvc.symex import _dict
    c.calls['dict'] = _dict
    c.check_bounds = False
    return c


XX = z3.Real('xx')
J1, J2 = z3.Ints('j1 j2')


def wit_f14(old, new):
    j1, j2 = z3.Ints('j1 j2')
    pb = old.arr('system.PQ.bus.v')
    POS = z3.Function('bus_position_of_idx', R, I)
    return z3.Exists([j1, j2], z3.And(0 <= j1, j1 < j2, j2 < pb.n, POS(pb.vals[j1]) == POS(pb.vals[j2])))


WIT_F14 = {'F14': wit_f14}


def replay_system2mpc(bname, model, meta):
    """F14 on the real code: two PQ loads on one bus -> only the last one is exported."""
    if 'load-on-that-bus' not in bname:
        return None
    import logging
    import andes
    from andes.io.matpower import system2mpc as s2m
    logging.getLogger('andes').setLevel(logging.CRITICAL)
    ss = andes.load(andes.get_case('5bus/pjm5bus.xlsx'), default_config=True, no_output=True, setup=False)
    b = ss.PQ.bus.v[0]
    ss.add('PQ', dict(bus=b, p0=0.25, q0=0.1, Vn=ss.Bus.Vn.v[ss.Bus.idx2uid(b)]))
    ss.setup()
    mpc = s2m(ss)
    row = ss.Bus.idx2uid(b)
    total = sum(p for p, bb in zip(ss.PQ.p0.v, ss.PQ.bus.v) if bb == b) * ss.config.mva
    return {'confirmed': abs(mpc['bus'][row, 2] - total) > 1e-9, 'exported_Pd': float(mpc['bus'][row, 2]), 'total_load_on_bus_MW': float(total),
            'native_cmd': 'pjm5bus + a second PQ on the bus of PQ[0]; system2mpc(ss)["bus"][row, 2] vs sum of p0*mva'}


# ------------------------------------------------------------------------------------------------ PSS/E v33 records
BUSVN = z3.Function('psse_bus_Vn', TStr.sort, R)
BUSV0 = z3.Function('psse_bus_v0', TStr.sort, R)


def _psse_contract(pid, qual, section, ncols, str_cols, spec_fn, model_names, extra_params=None, nested=None, extra_calls=None):
    """Common scaffolding: one arbitrary record of raw[section]; the dict appended to out[<Model>] is checked field by field
    against ``spec_fn(col, kw) -> {param: z3 term}`` written from the PSS/E v33 record layout."""
    E = 'raw.%s.$e' % section
    sch = {'raw.%s' % section: TColl(), 'system.config.mva': TReal()}
    if nested:
        for r, n in enumerate(nested):
            sch[E + '.f%d' % r] = TObj()
            for k in range(n):
                sch[E + '.f%d.f%d' % (r, k)] = TReal()
    else:
        for k in range(ncols):
            sch[E + '.f%d' % k] = TStr() if k in str_cols else TReal()

    def col(st, k, r=None):
        v = st.load(E + ('.f%d.f%d' % (r, k) if r is not None else '.f%d' % k))
        return v.term if isinstance(v, Opaque) else v.val

    def bus_get(ex, st, args, kw, node):
        f = {'Vn': BUSVN, 'v0': BUSV0}[kw['src']]
        idx = kw['idx']
        key = idx.term if isinstance(idx, Opaque) else IDOF(as_real(idx).val)
        return NR(f(key))

    def append_hook(ex, st, args, kw, node):
        base, item = args[0], args[1]
        if isinstance(item, Ref) and isinstance(st.content(item), DictC) and isinstance(base, tuple) and base[0] == 'outlist':
            d = st.content(item).items
            want = spec_fn(lambda k, r=None: col(st, k, r), st, base[1])
            defaults = {'g': 0, 'b': 0, 'g1': 0, 'b1': 0, 'g2': 0, 'b2': 0}      # Line parameter defaults
            missing = sorted(k for k in want if k not in d and k not in defaults)
            conj = [z3.BoolVal(not missing)]
            for k, w in want.items():
                if k not in d and k in defaults:
                    conj.append(w == defaults[k])       # an omitted field takes the model default
                if k in d:
                    g = d[k]
                    gz = g.term if isinstance(g, Opaque) else (as_real(g).val if not isinstance(g, (bool,)) else z3.BoolVal(g))
                    if z3.is_expr(w) and z3.is_bool(w):
                        conj.append(gz == w)
                    else:
                        conj.append(gz == w)
            ex.oblige(st, 'pre@store:out[%s]:fields-follow-the-PSS/E-v33-record-layout' % base[1], z3.And(*conj),
                      {'missing': str(missing)})
            return None
        return NotImplemented

    def getitem(ex, st, args, kw, node):
        base, sl = args
        if isinstance(base, tuple) and base and base[0] == 'outdict':
            return ('outlist', ex.ev(sl, st))
        if isinstance(base, Opaque) and base.term.sort().name() == 'SwDict':
            return NR(fresh('swing_angle', R))
        return NotImplemented
    params = {'raw': None, 'system': TObj()}
    params.update(extra_params or {})
    calls = {'defaultdict': lambda ex, st, a, k, n: ('outdict',), 'system.Bus.get': bus_get, '<value>.append': append_hook,
             '__getitem__': getitem, '_add_devices_from_dict': lambda ex, st, a, k, n: None,
             'len': lambda ex, st, a, k, n: 28, 'list': lambda ex, st, a, k, n: st.new_ref(ListC([]), 'l'),
             'dict': lambda ex, st, a, k, n: ('swdict',), '__setitem__': lambda ex, st, a, k, n: None}
    calls.update(extra_calls or {})
    c = Contract(FPS, qual, pid=pid, params=params, schema=sch,
                 requires=[('mva-positive', lambda v: v.z('system.config.mva') > 0)],
                 calls=calls,
                 globals_={'defaultdict': Func('defaultdict'), '_add_devices_from_dict': Func('_add_devices_from_dict'),
                           'deg2rad': NR(DEG2RAD)},
                 loops={0: Loop(inv=[], frame=['$data', '$idx', '$ty', '$a0', '$param', '$bus', '$vn', '$v0', '$subidx', '$gen_mva',
                                               '$gen_idx', '$status', '$wmod', 'loc:list', 'loc:l', 'loc:d', E + '.*', '$Sn', '$bus_Vn1',
                                               '$bus_Vn2', '$Vn1', '$Vn2', '$transf', '$tap', '$phi', '$rate_a', '$rate_b', '$rate_c',
                                               '$xf_3_count'])},
                 ensures=[], modifies=[])

    def pre_state(st):
        st.env['raw'] = st.new_ref(DictC({section: st.load('raw.%s' % section)}), 'raw')
    c.pre_state = pre_state
    c.check_bounds = False
    c.merge = False
    return c


IDOF = z3.Function('idx_of_number', R, TStr.sort)


def psse_bus(pid):
    def spec_fn(col, st, model):
        return {'idx': col(0), 'name': col(1), 'Vn': col(2), 'v0': col(7), 'a0': col(8) * DEG2RAD, 'area': col(4), 'zone': col(5),
                'owner': col(6)}
    return _psse_contract(pid, '_parse_bus_v33', 'bus', 9, {1}, spec_fn, ['Bus'])


def psse_load(pid):
    def spec_fn(col, st, model):
        mva = st.load('system.config.mva').val
        v0 = BUSV0(IDOF(col(0)))
        # PL + IP*V + YP*V^2 ; QL + IQ*V - YQ*V^2 (YQ negative for an inductive load), MW/Mvar at 1 pu voltage
        return {'bus': col(0), 'u': col(2), 'Vn': BUSVN(IDOF(col(0))), 'p0': (col(5) + col(7) * v0 + col(9) * v0 * v0) / mva,
                'q0': (col(6) + col(8) * v0 - col(10) * v0 * v0) / mva, 'owner': col(11)}
    return _psse_contract(pid, '_parse_load_v33', 'load', 12, set(), spec_fn, ['PQ'])


def psse_fshunt(pid):
    def spec_fn(col, st, model):
        mva = st.load('system.config.mva').val
        return {'bus': col(0), 'Vn': BUSVN(IDOF(col(0))), 'u': col(2), 'Sn': mva, 'g': col(3) / mva, 'b': col(4) / mva}
    return _psse_contract(pid, '_parse_fshunt_v33', 'fshunt', 5, set(), spec_fn, ['Shunt'])


def psse_line(pid):
    """I,J,CKT,R,X,B,RATEA,RATEB,RATEC,GI,BI,GJ,BJ,ST,...: includes the line shunts at both ends (g1,b1,g2,b2)."""
    def spec_fn(col, st, model):
        return {'u': col(13), 'bus1': col(0), 'bus2': col(1), 'r': col(3), 'x': col(4), 'b': col(5), 'rate_a': col(6),
                'rate_b': col(7), 'rate_c': col(8), 'Vn1': BUSVN(IDOF(col(0))), 'Vn2': BUSVN(IDOF(col(1))),
                'g1': col(9), 'b1': col(10), 'g2': col(11), 'b2': col(12)}
    return _psse_contract(pid, '_parse_line_v33', 'branch', 17, set(), spec_fn, ['Line'])


def psse_gen(pid):
    def spec_fn(col, st, model):
        mva = st.load('system.config.mva').val
        return {'Sn': col(8), 'Vn': BUSVN(IDOF(col(0))), 'u': col(14), 'bus': col(0), 'subidx': col(1), 'p0': col(2) / mva,
                'q0': col(3) / mva, 'pmax': col(16) / mva, 'pmin': col(17) / mva, 'qmax': col(4) / mva, 'qmin': col(5) / mva,
                'v0': col(6), 'ra': col(9), 'xs': col(10), 'wmod': col(26)}

    def contains(ex, st, args, kw, node):
        return fresh('is_swing_bus', Bo)
    return _psse_contract(pid, '_parse_gen_v33', 'gen', 28, set(), spec_fn, ['PV', 'Slack'],
                          extra_params={'sw': TOpaque('SwDict')},
                          extra_calls={'__contains__': contains, '<value>.keys': lambda ex, st, a, k, n: Opaque(fresh('keys', z3.DeclareSort('Keys'))),
                                       '<value>.update': lambda ex, st, a, k, n: None})


def psse_transf2(pid):
    """Two-winding transformer record block (4 records) against the PSS/E v33 layout: tap from both windings by winding code
    CW, impedance base by CZ, magnetising admittance (CM = 1) as g / b."""
    def spec_fn(col, st, model):
        mva = st.load('system.config.mva').val
        I_, J_ = col(0, 0), col(1, 0)
        CW, CZ = col(4, 0), col(5, 0)
        MAG1, MAG2, STAT = col(7, 0), col(8, 0), col(11, 0)
        R12, X12, SB12 = col(0, 1), col(1, 1), col(2, 1)
        W1, NOM1, ANG1 = col(0, 2), col(1, 2), col(2, 2)
        W2, NOM2 = col(0, 3), col(1, 3)
        bv1, bv2 = BUSVN(IDOF(I_)), BUSVN(IDOF(J_))
        Vn1 = z3.If(NOM1 != 0, NOM1, bv1)
        Vn2 = z3.If(NOM2 != 0, NOM2, bv2)
        tap = z3.If(CW == 2, (W1 / bv1) / (W2 / bv2), z3.If(CW == 3, (W1 * Vn1 / bv1) / (W2 * Vn2 / bv2), W1 / W2))
        return {'bus1': I_, 'bus2': J_, 'u': STAT, 'r': R12, 'x': X12, 'g': MAG1, 'b': MAG2, 'trans': z3.BoolVal(True), 'tap': tap,
                'phi': ANG1 * DEG2RAD, 'Sn': z3.If(CZ == 2, SB12, mva), 'Vn1': Vn1, 'Vn2': Vn2, 'rate_a': col(3, 2),
                'rate_b': col(4, 2), 'rate_c': col(5, 2)}
    c = _psse_contract(pid, '_parse_transf_v33', 'transf', 0, set(), spec_fn, ['Line'], extra_params={'max_bus': TInt()},
                       nested=[12, 3, 6, 2], extra_calls={'len': lambda ex, st, a, k, n: 4})
    E = 'raw.transf.$e'
    c.loops[0].assume = [('every-record:CW-in-{1,2,3},CZ-in-{1,2},CM=1,WINDV2!=0', lambda v: z3.And(
        z3.Or(*[v.z(E + '.f0.f4') == k for k in (1, 2, 3)]), z3.Or(v.z(E + '.f0.f5') == 1, v.z(E + '.f0.f5') == 2),
        v.z(E + '.f0.f6') == 1, v.z(E + '.f3.f0') != 0)),
        ('bus-base-voltages-positive;nominal-winding-voltages-non-negative', lambda v: z3.And(
            BUSVN(IDOF(v.z(E + '.f0.f0'))) > 0, BUSVN(IDOF(v.z(E + '.f0.f1'))) > 0, v.z(E + '.f2.f1') >= 0, v.z(E + '.f3.f1') >= 0))]
    return c


def wit_transf(old, new):
    E = 'raw.transf.$e'
    w2_ignored = z3.And(z3.Or(old.z(E + '.f0.f4') == 1, old.z(E + '.f0.f4') == 3), old.z(E + '.f3.f0') != 1)
    return {'F26': w2_ignored, 'F27': old.z(E + '.f0.f7') != 0}


WIT_TRANSF = {'F26': lambda old, new: wit_transf(old, new)['F26'], 'F27': lambda old, new: wit_transf(old, new)['F27']}


def replay_transf(bname, model, meta):
    """F26/F27 on the real parser: a two-winding record with WINDV2 = 0.95 (CW = 1) and MAG1 = 0.002."""
    from types import SimpleNamespace as NS
    import andes.io.psse as P
    got = {}
    saved = P._add_devices_from_dict
    P._add_devices_from_dict = lambda out, system: got.update(out)
    try:
        system = NS(config=NS(mva=100.0), Bus=NS(get=lambda src, idx, attr: 230.0, idx=NS(v=[1, 2])))
        rec = [[1, 2, 0, '1', 1, 1, 1, 0.002, -0.01, 2, 'T1', 1, 1, 1.0], [0.001, 0.05, 100.0],
               [1.05, 0.0, 0.0, 100.0, 110.0, 120.0], [0.95, 0.0]]
        P._parse_transf_v33({'transf': [rec]}, system, 2)
    finally:
        P._add_devices_from_dict = saved
    p = got['Line'][0]
    return {'confirmed': abs(p['tap'] - 1.05 / 0.95) > 1e-9 and 'g' not in p, 'tap': p['tap'], 'expected_tap': 1.05 / 0.95,
            'has_g': 'g' in p, 'native_cmd': '_parse_transf_v33 on one 2-winding record: WINDV1=1.05, WINDV2=0.95, CW=1, MAG1=0.002'}



def bounded_file_roundtrip(pack, pid):
    """bounded native stand-in: stock cases, with one load and one line status altered after loading, written to xlsx and json and read
    again give, for every model, the same input-base parameter table (values and device order); power flow of the reloaded case equals
    the original"""
    from contracts.packutil import native_guard
    name = '%s/andes/io:xlsx,json/bounded:dump-and-reload-reproduces-every-input-parameter' % pid
    cases = ['ieee14/ieee14_shuntsw.json', 'kundur/kundur_full.xlsx', '5bus/pjm5bus.xlsx']

    def go():
        import logging
        import os
        import shutil
        import tempfile
        import numpy as np
        import andes
        from andes.io import xlsx as ax, json as aj
        logging.getLogger('andes').setLevel(logging.CRITICAL)
        tmp = tempfile.mkdtemp(prefix='verif_io_')
        try:
            for case in cases:
                for fmt, writer in (('json', aj.write), ('xlsx', ax.write)):
                    # a fresh system per format: one writer must not benefit from the cache refresh of the other
                    a = andes.load(andes.get_case(case), default_config=True, no_output=True)
                    # parameters changed after loading (Model.alter: input-base value and converted value) must reach the dumped file
                    a.PQ.alter('p0', a.PQ.idx.v[0], 0.9 * float(a.PQ.get('p0', a.PQ.idx.v[0], 'vin')))
                    a.Line.alter('u', a.Line.idx.v[min(3, a.Line.n - 1)], 0)
                    a.PFlow.run()
                    path = os.path.join(tmp, 'dump.' + fmt)
                    writer(a, path, overwrite=True)
                    b = andes.load(path, default_config=True, no_output=True)
                    for mname, ma in a.models.items():
                        mb = b.models[mname]
                        if ma.n != mb.n:
                            return {'case': case, 'format': fmt, 'model': mname, 'devices': [ma.n, mb.n]}
                        if ma.n == 0:
                            continue
                        da, db = ma.as_df(vin=True), mb.as_df(vin=True)
                        for col in da.columns:
                            va, vb = list(da[col]), list(db[col]) if col in db.columns else None
                            same = vb is not None and all(
                                (x == y) or (isinstance(x, float) and isinstance(y, float) and (abs(x - y) <= 1e-12 * max(1.0, abs(x)) or (x != x and y != y)))
                                or (np.ndim(x) > 0 and np.allclose(np.asarray(x, dtype=float), np.asarray(y, dtype=float))) or str(x) == str(y)
                                for x, y in zip(va, vb))
                            if not same:
                                return {'case': case, 'format': fmt, 'model': mname, 'parameter': col, 'original': str(va)[:120], 'reloaded': str(vb)[:120]}
                    b.PFlow.run()
                    if a.dae.y.shape != b.dae.y.shape or np.max(np.abs(a.dae.y - b.dae.y)) > 1e-8:
                        return {'case': case, 'format': fmt, 'what': 'power-flow solution of the reloaded case differs'}
            return None
        finally:
            shutil.rmtree(tmp, ignore_errors=True)
    bad = native_guard(pack, name, go)
    pack.bounded.append({'function': 'andes.io.xlsx.write / json.write + readers', 'kind': 'bounded native (stock cases: %s)' % ', '.join(cases),
                         'counted_as_proved': False})
    if bad:
        pack.violation(name, {'bounded': True, 'inputs': bad, 'native_cmd': 'load; write xlsx / json; load again; compare as_df(vin=True) of every model'})


def writer_refreshes(pid, fmt):
    """xlsx._write_system / json._dump_system: for every model that is written, the cached input table is REFRESHED from the current
    input values (cache.refresh("df_in")) before it is read, so that parameters changed after loading (Model.alter) reach the file;
    the table is filed under the model's own name; models without devices are skipped only when skip_empty is set."""
    import z3
    from pyvc.symex import Contract, Loop
    from pyvc.symval import TObj, TInt, TBool, TColl, TStr, Mark, Opaque, fresh, Func
    E = 'system.models.$e'

    def refresh(ex, st, args, kw, node):
        if len(args) == 1 and args[0] == 'df_in':
            st.ghost['fresh'] = True
        return None

    def df_in(ex, st):
        st.ghost['reads'] = st.ghost['reads'] + [bool(st.ghost['fresh'])]
        return Mark('df_in')

    def to_excel(ex, st, args, kw, node):
        base = args[0]
        nm = kw.get('sheet_name')
        ok = isinstance(base, Mark) and base.kind == 'df_in' and isinstance(nm, Opaque) and nm.term.eq(st.env['name'].term)
        st.ghost['written'] = st.ghost['written'] + [bool(ok)]
        return None

    def to_dict(ex, st, args, kw, node):
        return Mark('table') if isinstance(args[0], Mark) and args[0].kind == 'df_in' else Mark('other')

    def setitem(ex, st, args, kw, node):
        base, sl, value = args
        if isinstance(base, Mark) and base.kind == 'out':
            k = ex.ev(sl, st)
            ok = isinstance(value, Mark) and value.kind == 'table' and isinstance(k, Opaque) and k.term.eq(st.env['name'].term)
            st.ghost['written'] = st.ghost['written'] + [bool(ok)]
            return None
        return NotImplemented

    def reset(v):
        v.st.ghost['fresh'] = False
        v.st.ghost['reads'] = []
        v.st.ghost['written'] = []
        v.st.ghost['in_iter'] = True
        return True

    def inv(v):
        g = v.st.ghost
        if not g.get('in_iter'):
            return True
        skip = z3.And(v.st.env['skip_empty'] if z3.is_expr(v.st.env['skip_empty']) else z3.BoolVal(bool(v.st.env['skip_empty'])), v.z(E + '.n') == 0)
        done = g['written'] == [True] and g['reads'] == [True]
        nothing = g['written'] == [] and g['reads'] == []
        return z3.If(skip, z3.BoolVal(nothing), z3.BoolVal(done))
    if fmt == 'xlsx':
        file, qual, params = 'andes/io/xlsx.py', '_write_system', {'system': TObj(), 'writer': TObj(), 'skip_empty': TBool()}
    else:
        file, qual, params = 'andes/io/json.py', '_dump_system', {'system': TObj(), 'skip_empty': TBool()}
    c = Contract(file, qual, pid=pid, params=params, schema={'system.models': TColl(TStr.sort), E + '.n': TInt()},
                 ghost_init={'fresh': False, 'reads': [], 'written': []},
                 calls={E + '.cache.refresh': refresh, '<value>.to_excel': to_excel, '<value>.to_dict': to_dict, '__setitem__': setitem,
                        'OrderedDict': lambda ex, st, a, k, n: Mark('out'), 'json.dumps': lambda ex, st, a, k, n: Opaque(fresh('text', TStr.sort))},
                 globals_={'OrderedDict': Func('OrderedDict'), 'json': __import__('pyvc.symval', fromlist=['Module']).Module('json')},
                 loops={0: Loop(inv=[('written-model:table-refreshed-then-read-once-and-filed-under-its-name;skipped-model:untouched', inv)], assume=[('reset', reset)],
                                frame=['$name', '$instance', E + '.*'])},
                 ensures=[], modifies=[], static=True)
    c.properties = {E + '.cache.df_in': df_in}
    c.merge = False
    c.tag = fmt

    def pre_state(st):
        st.ghost.pop('in_iter', None)
    c.pre_state = pre_state
    return c


def replay_altered_dump(obligation=None, model=None, meta=None):
    """native: load, alter one load and one line status, dump to json / xlsx with a fresh system per format, reload, compare every input table"""
    from pyvc.report import Pack

    class _P:
        def __init__(self):
            self.bounded, self.v = [], []

        def violation(self, name, payload, **kw):
            self.v.append(payload)

        def undecided_obl(self, *a, **k):
            pass
    p = _P()
    bounded_file_roundtrip(p, 'C13')
    if p.v:
        return {'confirmed': True, 'inputs': p.v[0].get('inputs'), 'observed': 'reloaded file differs: %r' % (p.v[0].get('inputs'),), 'native_cmd': p.v[0].get('native_cmd')}
    return {'confirmed': False, 'tried': 6}

replay_altered_dump.real_system = True       # drives the real program on stock inputs: a crash inside repository code is a confirmed failure


def replay_mpc_roundtrip(obligation=None, model=None, meta=None):
    """native: System -> system2mpc -> mpc2system -> System on cases with off-nominal taps, once as shipped and once with the optional,
    purely informational Line.trans flag left at its default 0: the branch data (r, x, b, tap, phi) and the power flow are reproduced"""
    import contextlib
    import io
    import json
    import logging
    import os
    import shutil
    import tempfile
    import numpy as np
    import andes
    from andes.io.matpower import system2mpc, mpc2system
    logging.getLogger('andes').setLevel(logging.CRITICAL)
    tmp = tempfile.mkdtemp(prefix='verif_mpc_')
    n = 0
    try:
        for drop_trans in (False, True):
            n += 1
            with open(andes.get_case('ieee14/ieee14.json')) as f:
                data = json.load(f)
            keep = ('Bus', 'Line', 'PQ', 'PV', 'Slack', 'Shunt', 'Area')
            data = {k: v for k, v in data.items() if k in keep}
            if drop_trans:
                for row in data['Line']:
                    row.pop('trans', None)
            path = os.path.join(tmp, 'static%d.json' % drop_trans)
            with open(path, 'w') as f:
                json.dump(data, f)
            with contextlib.redirect_stdout(io.StringIO()), contextlib.redirect_stderr(io.StringIO()):
                a = andes.load(path, default_config=True, no_output=True)
                a.PFlow.run()
                mpc = system2mpc(a)
                b = andes.System(default_config=True, no_output=True)
                mpc2system(mpc, b)
                b.setup()
                b.PFlow.run()
            what = {'case': 'ieee14.json (static part)', 'Line.trans column': 'left out (default 0)' if drop_trans else 'as shipped'}
            for par in ('r', 'x', 'b', 'tap', 'phi'):
                x, y = np.asarray(a.Line.__dict__[par].v, dtype=float), np.asarray(b.Line.__dict__[par].v, dtype=float)
                if x.shape != y.shape or not np.allclose(x, y, rtol=1e-9, atol=1e-12):
                    k = int(np.argmax(np.abs(x - y))) if x.shape == y.shape else 0
                    return {'confirmed': True, 'inputs': what, 'observed': 'Line.%s of branch #%d: %r before the export, %r after the re-import' % (par, k, float(x[k]), float(y[k])),
                            'native_cmd': 'contracts/fn_io.py replay_mpc_roundtrip'}
            dv = float(np.max(np.abs(np.asarray(a.Bus.v.v) - np.asarray(b.Bus.v.v))))
            if dv > 1e-8:
                return {'confirmed': True, 'inputs': what, 'observed': 'bus voltages of the re-imported case differ by %.3e' % dv, 'native_cmd': 'contracts/fn_io.py replay_mpc_roundtrip'}
    finally:
        shutil.rmtree(tmp, ignore_errors=True)
    return {'confirmed': False, 'tried': n}


replay_mpc_roundtrip.real_system = True


def replay_psse_load(obligation=None, model=None, meta=None):
    """native run of the real _parse_load_v33 on a stub system: load records with constant-power, constant-current and
    constant-admittance parts (PSS/E enters YQ negative for an inductive load) against the record arithmetic done here"""
    import andes.io.psse as P
    from contracts.packutil import Stub
    n = 0
    added = []
    saved = P._add_devices_from_dict
    P._add_devices_from_dict = lambda out, system: added.append(out)
    try:
        for rec, vn, v0, mva in (([7, '1', 1, 1, 1, 20.0, 8.0, 0.0, 0.0, 0.0, 0.0, 1], 138.0, 1.02, 100.0),
                                 ([7, '1', 1, 1, 1, 10.0, 4.0, 6.0, 2.0, 5.0, -3.0, 1], 138.0, 1.05, 100.0),
                                 ([9, '2', 0, 2, 1, 0.0, 0.0, 0.0, 0.0, 12.0, 7.5, 2], 69.0, 0.97, 50.0),
                                 ([3, '1', 1, 1, 1, 1.0, 2.0, 3.0, 4.0, 0.0, 0.0, 1], 230.0, 0.9, 100.0)):
            system = Stub(config=Stub(mva=mva), Bus=Stub(get=lambda src, idx, attr, vn=vn, v0=v0: {'Vn': vn, 'v0': v0}[src]))
            n += 1
            out = P._parse_load_v33({'load': [list(rec)]}, system)
            got = out['PQ'][0]
            want = {'bus': rec[0], 'u': rec[2], 'Vn': vn, 'p0': (rec[5] + rec[7] * v0 + rec[9] * v0 ** 2) / mva,
                    'q0': (rec[6] + rec[8] * v0 - rec[10] * v0 ** 2) / mva, 'owner': rec[11]}
            bad = {k: (got.get(k), w) for k, w in want.items() if got.get(k) is None or (abs(got[k] - w) > 1e-12 if isinstance(w, float) else got[k] != w)}
            if bad or len(out['PQ']) != 1:
                return {'confirmed': True, 'inputs': {'load record (I, ID, STATUS, AREA, ZONE, PL, QL, IP, IQ, YP, YQ, OWNER)': rec, 'bus voltage': v0, 'system MVA': mva},
                        'observed': 'fields (parsed, from the record): %r' % (bad,), 'native_cmd': "andes.io.psse._parse_load_v33({'load': [record]}, stub system)"}
    finally:
        P._add_devices_from_dict = saved
    return {'confirmed': False, 'tried': n}
