"""C17: exit-code aggregation of andes.main.run (the statements after the routines have run)."""
import z3

from pyvc.symex import Contract, Loop, to_z3
from pyvc.symval import TObj, TInt, TSeq, TColl, TConst, TOpaque, TStr, fresh, I, R, Mark, Obj, Ref, ListC, NR, Func

FMN = 'andes/main.py'


def _mk(pid, kind):
    """kind: 'single', 'single-none', 'multi-list', 'multi-no-list' (what _run_mp_proc returns: True)"""
    E0 = fresh('ex_code_before', I)
    X = fresh('exit_code', I)

    def post(old, new, res):
        ex1 = to_z3(new.st.env['ex_code'])
        if kind == 'single':
            return ex1 == E0 + X
        if kind == 'single-none':
            return ex1 == E0 + 1
        if kind == 'multi-list':
            n = new.st.ghost.get('sum')
            return z3.BoolVal(n is not None) if n is None else ex1 == n
        # several cases were run but no per-case result came back: their failures must still be reflected  (F17)
        return z3.Implies(FAILED_ANY, ex1 > E0)
    FAILED_ANY = fresh('some_case_failed', z3.BoolSort())
    c = Contract(FMN, 'run', pid=pid, params={}, schema={'system.exit_code': TInt(), 'system.$e.exit_code': TInt()},
                 calls={'elapsed': lambda ex, st, a, k, n: (NR(fresh('t', R)), 's'), 'len': None, 'print': lambda ex, st, a, k, n: None,
                        'isinstance:list': lambda ex, st, a, k, n: kind == 'multi-list'},
                 globals_={'elapsed': Func('elapsed'), 'print': Func('print')},
                 ensures=[({'single': 'one-case:exit-code-of-that-system-added', 'single-none': 'one-case,no-system:counts-as-failure',
                            'multi-list': 'several-cases:every-exit-code-added',
                            'multi-no-list': 'several-cases:a-failed-case-makes-the-total-non-zero'}[kind], post)],
                 modifies=[])
    c.body_from = 't0, s0 = elapsed(t0)'
    c.body_to = 3
    c.tag = kind
    c.merge = False
    c.check_bounds = False

    def pre_state(st):
        from pyvc.symval import SeqC
        st.env['t0'] = NR(fresh('t0', R))
        st.env['ex_code'] = E0
        st.assume(E0 >= 0)
        if kind.startswith('single'):
            st.env['cases'] = st.new_ref(ListC([Mark('case')]), 'cases')
            if kind == 'single':
                st.env['system'] = Obj('system')
                st.heap['system.exit_code'] = X
                st.assume(X >= 0)
            else:
                st.env['system'] = None
        else:
            st.env['cases'] = st.new_ref(ListC([Mark('case1'), Mark('case2')]), 'cases')
            if kind == 'multi-list':
                a, b = fresh('exit1', I), fresh('exit2', I)
                st.assume(z3.And(a >= 0, b >= 0))
                s1, s2 = Obj('sys1'), Obj('sys2')
                st.heap['sys1.exit_code'], st.heap['sys2.exit_code'] = a, b
                st.env['system'] = st.new_ref(ListC([s1, s2]), 'systems')
                st.ghost['sum'] = E0 + a + b
            else:
                st.env['system'] = True
    c.pre_state = pre_state
    return c


def items(pid):
    return [(_mk(pid, 'single'),), (_mk(pid, 'single-none'),), (_mk(pid, 'multi-list'),), (_mk(pid, 'multi-no-list'),)]
