"""C17: exit-code aggregation of andes.main.run (the statements after the routines have run)."""
import z3

from pyvc.symex import Contract, Loop, to_z3
from pyvc.symval import TObj, TInt, TSeq, TColl, TConst, TOpaque, TStr, fresh, I, R, Mark, Obj, Ref, ListC, NR, Func

FMN = 'andes/main.py'


def _mk(pid, kind):
    """kind: 'single', 'single-none', 'multi-list', 'multi-no-list' (what _run_mp_proc returns: True)"""
    E0 = fresh('ex_code_before', I)
    X = fresh('exit_code', I)

    def post(old, new, res):
        ex1 = to_z3(new.st.env['ex_code'])
        if kind == 'single':
            return ex1 == E0 + X
        if kind == 'single-none':
            return ex1 == E0 + 1
        if kind == 'multi-list':
            n = new.st.ghost.get('sum')
            return z3.BoolVal(n is not None) if n is None else ex1 == n
        # several cases were run but no per-case result came back: their failures must still be reflected  (F17)
        return z3.Implies(FAILED_ANY, ex1 > E0)
    FAILED_ANY = fresh('some_case_failed', z3.BoolSort())
    c = Contract(FMN, 'run', pid=pid, params={}, schema={'system.exit_code': TInt(), 'system.$e.exit_code': TInt()},
                 calls={'elapsed': lambda ex, st, a, k, n: (NR(fresh('t', R)), 's'), 'len': None, 'print': lambda ex, st, a, k, n: None,
                        'isinstance:list': lambda ex, st, a, k, n: kind == 'multi-list'},
                 globals_={'elapsed': Func('elapsed'), 'print': Func('print')},
                 ensures=[({'single': 'one-case:exit-code-of-that-system-added', 'single-none': 'one-case,no-system:counts-as-failure',
                            'multi-list': 'several-cases:every-exit-code-added',
                            'multi-no-list': 'several-cases:a-failed-case-makes-the-total-non-zero'}[kind], post)],
                 modifies=[])
    c.body_from = 't0, s0 = elapsed(t0)'
    c.body_to = 3
    c.tag = kind
    c.merge = False
    c.check_bounds = False

    def pre_state(st):
        from pyvc.symval import SeqC
        st.env['t0'] = NR(fresh('t0', R))
        st.env['ex_code'] = E0
        st.assume(E0 >= 0)
        if kind.startswith('single'):
            st.env['cases'] = st.new_ref(ListC([Mark('case')]), 'cases')
            if kind == 'single':
                st.env['system'] = Obj('system')
                st.heap['system.exit_code'] = X
                st.assume(X >= 0)
            else:
                st.env['system'] = None
        else:
            st.env['cases'] = st.new_ref(ListC([Mark('case1'), Mark('case2')]), 'cases')
            if kind == 'multi-list':
                a, b = fresh('exit1', I), fresh('exit2', I)
                st.assume(z3.And(a >= 0, b >= 0))
                s1, s2 = Obj('sys1'), Obj('sys2')
                st.heap['sys1.exit_code'], st.heap['sys2.exit_code'] = a, b
                st.env['system'] = st.new_ref(ListC([s1, s2]), 'systems')
                st.ghost['sum'] = E0 + a + b
            else:
                st.env['system'] = True
    c.pre_state = pre_state
    return c


def items(pid):
    return [(_mk(pid, 'single'), None, replay_unloadable), (_mk(pid, 'single-none'), None, replay_unloadable), (_mk(pid, 'multi-list'),), (_mk(pid, 'multi-no-list'),)]


def replay_unloadable(obligation=None, model=None, meta=None):
    """native: andes.main.run(cli=True) on a file that exists but cannot be loaded (empty / garbage raw) returns a non-zero exit code; a
    valid case returns 0"""
    import contextlib
    import io
    import logging
    import os
    import shutil
    import tempfile
    import andes
    from andes.main import run
    logging.getLogger('andes').setLevel(logging.CRITICAL)
    tmp = tempfile.mkdtemp(prefix='verif_main_')
    n = 0
    try:
        files = {'empty.raw': '', 'garbage.raw': 'this is not a power-flow case\n1 2 3\n'}
        for fname, text in files.items():
            n += 1
            with open(os.path.join(tmp, fname), 'w') as f:
                f.write(text)
            with contextlib.redirect_stdout(io.StringIO()), contextlib.redirect_stderr(io.StringIO()):
                try:
                    code = run(fname, input_path=tmp, cli=True, verbose=50, default_config=True, no_output=True)
                except SystemExit as e:      # noqa
                    code = e.code
            if code == 0 or code is None or code is False:
                return {'confirmed': True, 'inputs': {'file': fname, 'content': text, 'call': 'andes.main.run(file, input_path=<dir>, cli=True, default_config=True, no_output=True)'},
                        'observed': 'exit code %r for a case file that could not be loaded' % (code,), 'native_cmd': 'contracts/fn_main.py replay_unloadable'}
        n += 1
        with contextlib.redirect_stdout(io.StringIO()), contextlib.redirect_stderr(io.StringIO()):
            code = run(andes.get_case('5bus/pjm5bus.xlsx'), cli=True, verbose=50, default_config=True, no_output=True)
        if code != 0:
            return {'confirmed': True, 'inputs': {'file': '5bus/pjm5bus.xlsx'}, 'observed': 'exit code %r for a valid case' % (code,), 'native_cmd': 'contracts/fn_main.py replay_unloadable'}
    finally:
        shutil.rmtree(tmp, ignore_errors=True)
    return {'confirmed': False, 'tried': n}

replay_unloadable.real_system = True       # drives the real program on stock inputs: a crash inside repository code is a confirmed failure
