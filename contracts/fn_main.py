"""C17: exit-code aggregation of andes.main.run (the statements after the routines have run)."""
import z3

from pyvc.symex import Contract, Loop, to_z3
from pyvc.symval import TObj, TInt, TSeq, TColl, TConst, TOpaque, TStr, fresh, I, R, Mark, Obj, Ref, ListC, NR, Func

FMN = 'andes/main.py'


def _mk(pid, kind):
    """kind: 'single', 'single-none', 'multi-list', 'multi-no-list' (what _run_mp_proc returns: True)"""
    E0 = fresh('ex_code_before', I)
    X = fresh('exit_code', I)

    def post(old, new, res):
        ex1 = to_z3(new.st.env['ex_code'])
        if kind == 'single':
            return ex1 == E0 + X
        if kind == 'single-none':
            return ex1 == E0 + 1
        if kind == 'multi-list':
            n = new.st.ghost.get('sum')
            return z3.BoolVal(n is not None) if n is None else ex1 == n
        # several cases were run but no per-case result came back: their failures must still be reflected  (F17)
        return z3.Implies(FAILED_ANY, ex1 > E0)
    FAILED_ANY = fresh('some_case_failed', z3.BoolSort())
    c = Contract(FMN, 'run', pid=pid, params={}, schema={'system.exit_code': TInt(), 'system.$e.exit_code': TInt()},
                 calls={'elapsed': lambda ex, st, a, k, n: (NR(fresh('t', R)), 's'), 'len': None, 'print': lambda ex, st, a, k, n: None,
                        'isinstance:list': lambda ex, st, a, k, n: kind == 'multi-list'},
                 globals_={'elapsed': Func('elapsed'), 'print': Func('print')},
                 ensures=[({'single': 'one-case:exit-code-of-that-system-added', 'single-none': 'one-case,no-system:counts-as-failure',
                            'multi-list': 'several-cases:every-exit-code-added',
                            'multi-no-list': 'several-cases:a-failed-case-makes-the-total-non-zero'}[kind], post)],
                 modifies=[])
    c.body_from = 't0, s0 = elapsed(t0)'
    c.body_to = 3
    c.tag = kind
    c.merge = False
    c.check_bounds = False

    def pre_state(st):
        from pyvc.symval import SeqC
        st.env['t0'] = NR(fresh('t0', R))
        st.env['ex_code'] = E0
        st.assume(E0 >= 0)
        if kind.startswith('single'):
            st.env['cases'] = st.new_ref(ListC([Mark('case')]), 'cases')
            if kind == 'single':
                st.env['system'] = Obj('system')
                st.heap['system.exit_code'] = X
                st.assume(X >= 0)
            else:
                st.env['system'] = None
        else:
            st.env['cases'] = st.new_ref(ListC([Mark('case1'), Mark('case2')]), 'cases')
            if kind == 'multi-list':
                a, b = fresh('exit1', I), fresh('exit2', I)
                st.assume(z3.And(a >= 0, b >= 0))
                s1, s2 = Obj('sys1'), Obj('sys2')
                st.heap['sys1.exit_code'], st.heap['sys2.exit_code'] = a, b
                st.env['system'] = st.new_ref(ListC([s1, s2]), 'systems')
                st.ghost['sum'] = E0 + a + b
            else:
                st.env['system'] = True
    c.pre_state = pre_state
    return c


def items(pid):
    return [(_mk(pid, 'single'), None, replay_unloadable), (_mk(pid, 'single-none'), None, replay_unloadable), (_mk(pid, 'multi-list'),), (_mk(pid, 'multi-no-list'),)]


def replay_unloadable(obligation=None, model=None, meta=None):
    """native: andes.main.run(cli=True) on a file that exists but cannot be loaded (empty / garbage raw) returns a non-zero exit code; a
    valid case returns 0"""
    import contextlib
    import io
    import logging
    import os
    import shutil
    import tempfile
    import andes
    from andes.main import run
    logging.getLogger('andes').setLevel(logging.CRITICAL)
    tmp = tempfile.mkdtemp(prefix='verif_main_')
    n = 0
    try:
        files = {'empty.raw': '', 'garbage.raw': 'this is not a power-flow case\n1 2 3\n'}
        for fname, text in files.items():
            n += 1
            with open(os.path.join(tmp, fname), 'w') as f:
                f.write(text)
            with contextlib.redirect_stdout(io.StringIO()), contextlib.redirect_stderr(io.StringIO()):
                try:
                    code = run(fname, input_path=tmp, cli=True, verbose=50, default_config=True, no_output=True)
                except SystemExit as e:      # noqa
                    code = e.code
            if code == 0 or code is None or code is False:
                return {'confirmed': True, 'inputs': {'file': fname, 'content': text, 'call': 'andes.main.run(file, input_path=<dir>, cli=True, default_config=True, no_output=True)'},
                        'observed': 'exit code %r for a case file that could not be loaded' % (code,), 'native_cmd': 'contracts/fn_main.py replay_unloadable'}
        n += 1
        with contextlib.redirect_stdout(io.StringIO()), contextlib.redirect_stderr(io.StringIO()):
            code = run(andes.get_case('5bus/pjm5bus.xlsx'), cli=True, verbose=50, default_config=True, no_output=True)
        if code != 0:
            return {'confirmed': True, 'inputs': {'file': '5bus/pjm5bus.xlsx'}, 'observed': 'exit code %r for a valid case' % (code,), 'native_cmd': 'contracts/fn_main.py replay_unloadable'}
    finally:
        shutil.rmtree(tmp, ignore_errors=True)
    return {'confirmed': False, 'tried': n}

replay_unloadable.real_system = True       # drives the real program on stock inputs: a crash inside repository code is a confirmed failure


def run_mp_proc(pid):
    """andes.main._run_mp_proc: every case is started as a process running ``run_case(file, **kwargs)`` with ALL the keyword
    arguments the caller gave (among them ``config_option``, ``config``, ``config_path``: what was asked for is what each case runs with)."""
    K = TStr.sort

    def process(ex, st, args, kw, node):
        same = isinstance(kw.get('kwargs'), Ref) and isinstance(st.env.get('kwargs'), Ref) and kw['kwargs'].loc == st.env['kwargs'].loc
        tgt = kw.get('target')
        a = kw.get('args')
        ok_args = isinstance(a, tuple) and len(a) == 1 and a[0] is st.env.get('file')
        ex.oblige(st, 'pre@call:Process:target=run_case,args=(this case,),kwargs=every-keyword-of-the-caller',
                  z3.BoolVal(bool(same and ok_args and isinstance(tgt, Func) and tgt.name == 'run_case')), {})
        return TOpaque('Job').make(st, 'job')
    nop = lambda ex, st, a, k, n: None     # noqa
    c = Contract(FMN, '_run_mp_proc', pid=pid, params={'cases': TSeq(elem=K), 'ncpu': TInt()}, schema={},
                 requires=[('ncpu-positive', lambda v: to_z3(v.local('ncpu')) > 0)],
                 calls={'Process': process, 'print': nop, 'logger.debug': nop, 'sleep': nop, '<value>.start': nop, '<value>.join': nop,
                        '<value>.append': nop},
                 globals_={'Process': Func('Process'), 'run_case': Func('run_case'), 'sleep': Func('sleep'), 'print': Func('print')},
                 loops={0: Loop(inv=[], frame=['$idx', '$file', '$job', '$jobs', '$start_msg']), 1: Loop(inv=[], frame=['$job'])},
                 ensures=[('returns-True', lambda old, new, res: z3.BoolVal(res is True))], modifies=[])
    return c


def replay_mp_kwargs(obligation=None, model=None, meta=None):
    """native: the real _run_mp_proc and _run_mp_pool with the process / pool classes replaced by recorders -- every keyword given
    to the front end (config_option, config, config_path, routine, tf, an unknown one) reaches run_case for every case"""
    import andes.main as M
    given = dict(config_option=['PFlow.max_iter=40'], config={'TDS': {'tf': 3}}, config_path='/nonexistent/andes.rc', routine='pflow', tf=2.0,
                 no_output=True, default_config=True, some_future_keyword=1)
    seen = []

    class FakeProcess:
        def __init__(self, name=None, target=None, args=(), kwargs=None):
            seen.append(('proc', target, args, dict(kwargs or {})))

        def start(self):
            pass

        def join(self):
            pass

    class FakePool:
        def __init__(self, n):
            pass

        def map(self, f, cases):
            for c in cases:
                seen.append(('pool', getattr(f, 'func', None), (c,), dict(getattr(f, 'keywords', {}) or {})))
            return []
    saved = M.Process, M.Pool, M.sleep
    M.Process, M.Pool, M.sleep = FakeProcess, FakePool, (lambda s: None)
    import contextlib
    import io
    try:
        with contextlib.redirect_stdout(io.StringIO()):
            M._run_mp_proc(['a.m', 'b.m', 'c.m'], ncpu=2, **given)
            M._run_mp_pool(['a.m', 'b.m'], ncpu=2, verbose=30, **given)
    finally:
        M.Process, M.Pool, M.sleep = saved
    n = 0
    for kind, target, args, kws in seen:
        n += 1
        missing = sorted(k for k, v in given.items() if k not in kws or kws[k] != v)
        if target is not M.run_case or missing:
            return {'confirmed': True, 'inputs': {'front end': '_run_mp_%s' % kind, 'case': args, 'keywords given': sorted(given)},
                    'observed': 'run_case is started without %r (target %r)' % (missing, getattr(target, '__name__', target)),
                    'native_cmd': 'andes.main._run_mp_proc / _run_mp_pool with Process / Pool replaced by recorders'}
    if n != 5:
        return {'confirmed': True, 'inputs': {'cases': 5}, 'observed': '%d jobs started for 3 + 2 cases' % n, 'native_cmd': 'andes.main._run_mp_proc / _run_mp_pool'}
    return {'confirmed': False, 'tried': n}


FIO = 'andes/io/__init__.py'


def io_parse(pid):
    """andes.io.parse: True exactly when the format is known (given or guessed), the base case was read AND -- if an additional file is
    named -- that file was read too; the additional file is read with the parser of ITS format, after the base case."""
    from pyvc.symval import Bo, Opaque
    GUESS, BASE, ADD = fresh('guess_ok', Bo), fresh('base_read_ok', Bo), fresh('addfile_read_ok', Bo)

    def import_module(ex, st, args, kw, node):
        return Mark('parser', (args[0],))

    def read(ex, st, args, kw, node):
        p = args[0]
        fmt = st.load('system.files.input_format')
        ok = isinstance(p, Mark) and p.kind == 'parser' and args[1] is st.env['system'] and args[2] is st.load('system.files.case')
        ex.oblige(st, 'pre@call:read:base-case-read-with-a-parser-on-this-system-and-the-case-file', z3.BoolVal(bool(ok)), {})
        st.ghost['calls'] = st.ghost['calls'] + ['read']
        return BASE

    def read_add(ex, st, args, kw, node):
        p = args[0]
        ok = isinstance(p, Mark) and p.kind == 'parser' and args[1] is st.env['system'] and args[2] is st.load('system.files.addfile')
        ex.oblige(st, 'pre@call:read_add:additional-file-read-on-this-system,after-the-base-case', z3.BoolVal(bool(ok and st.ghost['calls'] == ['read'])), {})
        st.ghost['calls'] = st.ghost['calls'] + ['read_add']
        return ADD
    nop = lambda ex, st, a, k, n: None     # noqa

    def post(old, new, res):
        from pyvc.symex import zb
        have_fmt = zb(old.ex.truth(old.get('system.files.input_format'), old.st))
        have_add = zb(old.ex.truth(old.get('system.files.addfile'), old.st))
        want = z3.And(z3.Or(have_fmt, GUESS), BASE, z3.Or(z3.Not(have_add), ADD))
        return to_b(res) == want

    def to_b(r):
        return r if z3.is_expr(r) else z3.BoolVal(bool(r))
    c = Contract(FIO, 'parse', pid=pid, params={'system': TObj()},
                 schema={'system.files.input_format': TStr(), 'system.files.add_format': TStr(), 'system.files.case': TStr(),
                         'system.files.addfile': TStr(), 'system.files.fullname': TStr()},
                 ghost_init={'calls': []},
                 calls={'elapsed': lambda ex, st, a, k, n: (Opaque(fresh('t', R)), 's'), 'guess': lambda ex, st, a, k, n: GUESS,
                        'importlib.import_module': import_module, '<value>.read': read, '<value>.read_add': read_add,
                        'logger.info': nop, 'logger.error': nop, 'logger.debug': nop, 'logger.warning': nop},
                 globals_={'elapsed': Func('elapsed'), 'guess': Func('guess'), '__name__': 'andes.io', 'importlib': __import__('pyvc.symval', fromlist=['Module']).Module('importlib')},
                 ensures=[('True-iff-format-known,base-case-read,and-the-additional-file(if-named)-read', post)], modifies=[])
    return c


def replay_io_parse(obligation=None, model=None, meta=None):
    """native: andes.io.parse on a stub system with stub parsers: every combination of (base case read, additional file named,
    additional file read) -- the status returned is the conjunction; and the real loader on kundur.raw with an inconsistent dyr"""
    import itertools
    import sys
    import types
    import logging
    import andes.io as IO
    from contracts.packutil import Stub
    logging.getLogger('andes').setLevel(logging.CRITICAL)
    n = 0
    for base_ok, have_add, add_ok in itertools.product((True, False), repeat=3):
        calls = []
        mod = types.ModuleType('andes.io.verifstub')
        mod.read = lambda system, file, calls=calls, r=base_ok: (calls.append(('read', file)), r)[1]
        mod.read_add = lambda system, file, calls=calls, r=add_ok: (calls.append(('read_add', file)), r)[1]
        sys.modules['andes.io.verifstub'] = mod
        try:
            system = Stub(files=Stub(input_format='verifstub', add_format='verifstub', case='base.x', fullname='base.x', addfile='add.y' if have_add else None))
            n += 1
            got = IO.parse(system)
        finally:
            sys.modules.pop('andes.io.verifstub', None)
        want = base_ok and (not have_add or add_ok)
        want_calls = [('read', 'base.x')] + ([('read_add', 'add.y')] if (base_ok and have_add) else [])
        if bool(got) != want or calls != want_calls:
            return {'confirmed': True, 'inputs': {'base case read': base_ok, 'additional file named': have_add, 'additional file read': add_ok},
                    'observed': 'parse returned %r (calls %r); the conjunction is %r (calls %r)' % (got, calls, want, want_calls),
                    'native_cmd': 'andes.io.parse(stub system) with a stub parser module'}
    return {'confirmed': False, 'tried': n}
