"""
andes/thirdparty/npfunc.py -- the run-time helper the generated code binds to (``from andes.thirdparty.npfunc import *`` in every
pycode module; ``SymProcessor.lambdify_func``).  The expression front end treats ``safe_div(a, b)`` in a declared string as
``a / b`` where ``b != 0`` and ``0`` where ``b == 0``; this contract is what makes that reading the executed one.

numpy is external: ``np.divide(a, b, out=o, where=w)`` is taken with its documented element-wise meaning
(``w[k] ? a[k] / b[k] : o[k]``), ``np.zeros_like`` as an array of zeros of the same length, ``b != 0`` element-wise.
"""
import ast
import z3
from pyvc.symex import Contract, as_real
from pyvc.symval import Unsupported
from pyvc.symval import TArr, TConst, NR, fresh, I, Ref, ArrC

FN = 'andes/thirdparty/npfunc.py'


def _arr(st, x):
    if isinstance(x, Ref):
        c = st.content(x)
        if isinstance(c, ArrC):
            return c
    return None


def _compare(ex, st, args, kw, node):
    op, a, b = args
    if isinstance(op, (ast.Is, ast.IsNot, ast.In, ast.NotIn)):
        return NotImplemented
    ca, cb = _arr(st, a), _arr(st, b)
    if ca is None and cb is None:
        return NotImplemented
    if not isinstance(op, (ast.Eq, ast.NotEq)):
        raise Unsupported('ordering of arrays in npfunc')
    n = ca.n if ca is not None else cb.n
    k = fresh('k', I)
    x = ca.vals[k] if ca is not None else as_real(a).val
    y = cb.vals[k] if cb is not None else as_real(b).val
    t = (x == y) if isinstance(op, ast.Eq) else (x != y)
    return st.new_ref(ArrC(z3.Lambda([k], z3.If(t, z3.RealVal(1), z3.RealVal(0))), n, None, kind='bool'), 'cmp')


def _divide(ex, st, args, kw, node):
    """numpy.divide with out= and where= (documented semantics; positions where the mask is False keep out's value)"""
    if set(kw) - {'out', 'where'} or len(args) != 2:
        raise Unsupported('np.divide arguments')
    ca, cb = _arr(st, args[0]), _arr(st, args[1])
    if ca is None or cb is None:
        raise Unsupported('np.divide of non-arrays')
    k = fresh('k', I)
    q = ca.vals[k] / cb.vals[k]
    if 'where' in kw:
        w = _arr(st, kw['where'])
        o = _arr(st, kw.get('out'))
        if w is None or o is None:
            # without out= the masked positions are uninitialised memory
            raise Unsupported('np.divide(where=...) without an out array')
        vals = z3.Lambda([k], z3.If(w.vals[k] != 0, q, o.vals[k]))
    else:
        # plain division: no value is defined where b == 0 (inf / nan)
        und = fresh('undefined', z3.ArraySort(I, z3.RealSort()))
        vals = z3.Lambda([k], z3.If(cb.vals[k] != 0, q, und[k]))
    r = ArrC(vals, ca.n, None)
    if 'out' in kw and isinstance(kw['out'], Ref):
        st.set_content(kw['out'], r)
        return kw['out']
    return st.new_ref(r, 'divide')


def safe_div(pid, with_out):
    n = fresh('n', I)

    def post(old, new, res):
        r = new.st.content(res)
        a, b = new.st.content(new.local('a')), new.st.content(new.local('b'))
        k = fresh('k', I)
        if with_out:
            dflt = old.st.content(old.local('out')).vals[k]
        else:
            dflt = z3.RealVal(0)
        return z3.And(r.n == n, z3.ForAll([k], z3.Implies(z3.And(k >= 0, k < n),
                                                         r.vals[k] == z3.If(b.vals[k] != 0, a.vals[k] / b.vals[k], dflt))))
    params = {'a': TArr(n=n), 'b': TArr(n=n), 'out': TArr(n=n) if with_out else TConst(None)}
    c = Contract(FN, 'safe_div', pid=pid, params=params, schema={}, requires=[('n-nonneg', lambda v: n >= 0)],
                 calls={'__compare__': _compare, 'np.divide': _divide},
                 ensures=[('quotient-where-the-divisor-is-nonzero,the-default-(zero-unless-given)-elsewhere', post)],
                 modifies=['out'] if with_out else [])
    c.tag = 'out-given' if with_out else 'no-out'
    return c


def replay_safe_div(obligation=None, model=None, meta=None):
    """native run of the real safe_div: zero and non-zero divisors, scalars and arrays, with and without defaults"""
    import numpy as np
    from andes.thirdparty.npfunc import safe_div as f
    n = 0
    cases = [(np.array([1.0, -2.0, 0.0, 3.5, 1e-300]), np.array([0.0, 0.0, 0.0, 7.0, -2.0])),
             (np.array([5.0]), np.array([0.0])), (np.array([-1e10, 4.0]), np.array([0.0, 0.5]))]
    for a, b in cases:
        for out in (None, np.full_like(a, 9.25)):
            n += 1
            dflt = np.zeros_like(a) if out is None else out.copy()
            with np.errstate(all='ignore'):
                want = np.where(b != 0, a / np.where(b != 0, b, 1.0), dflt)
            got = np.asarray(f(a.copy(), b.copy(), out=None if out is None else out.copy()), dtype=float)
            if got.shape != want.shape or not np.array_equal(got, want):
                return {'confirmed': True, 'inputs': {'a': a.tolist(), 'b': b.tolist(), 'out': None if out is None else out.tolist()},
                        'observed': 'safe_div = %r, declared meaning gives %r' % (got.tolist(), want.tolist()),
                        'native_cmd': 'andes.thirdparty.npfunc.safe_div(a, b, out)'}
    return {'confirmed': False, 'tried': n}
