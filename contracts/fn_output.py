"""Contracts for C15: DAE.store, DAETimeSeries.unpack_np, DAE.write_npz / write_lst, Output.to_output_addr."""
import z3

from pyvc.symex import Contract, Loop, spec, View, Outcomes, to_z3, as_real
from pyvc.symval import (TArr, TArr2, Arr2C, TBool, TFloat, TInt, TObj, TOpaque, TReal, TSeq, TStr, TConst, NR, TOptional, fresh,
                         I, R, Bo, MaybeNone, Func, Opaque, TNone, Module, Ref, ArrC, ListC, DictC, Unsupported, Obj, ExcVal, SeqC,
                         TRowDict, RowDictC, Mark)

FD = 'andes/variables/dae.py'
FO = 'andes/models/misc/output.py'


def forall(n, body):
    k = fresh('k', I)
    return z3.ForAll([k], z3.Implies(z3.And(k >= 0, k < n), body(k)))


def dae_store(pid, selected):
    """DAE.store: one new entry under the current time in _xs and _ys, holding a *copy* of the solver vectors (or of the
    selected sub-vectors) -- never the live arrays."""
    NX, NY, SX, SY = [fresh(n, I) for n in ('NX', 'NY', 'SX', 'SY')]

    def store_hook(ex, st, args, kw, node):
        base, sl, value = args
        if isinstance(base, Ref) and isinstance(st.content(base), RowDictC) and isinstance(value, Ref):
            live = [st.load(p).loc for p in ('self.x', 'self.y', 'self.f', 'self.h', 'self.i')]
            ex.oblige(st, 'pre@store:time-series:stored-value-is-a-copy-not-the-live-solver-array',
                      z3.BoolVal(value.loc not in live), {})

    def post(old, new, res):
        t = old.z('self.t')
        cl = []
        for d, src, sel, n in (('self.ts._xs', 'self.x', 'self.system.Output.xidx', SX), ('self.ts._ys', 'self.y', 'self.system.Output.yidx', SY)):
            c0, c1 = old.arr(d), new.arr(d)
            a = old.arr(src)
            if selected:
                ix = old.arr(sel)
                row = lambda k, a=a, ix=ix: a.vals[z3.ToInt(ix.vals[k])]  # noqa
                w = ix.n
            else:
                row = lambda k, a=a: a.vals[k]  # noqa
                w = a.n
            i, k = fresh('i', I), fresh('k', I)
            cl.append(z3.And(c1.n == c0.n + 1, c1.keys[c0.n] == t,
                             z3.ForAll([k], z3.Implies(z3.And(k >= 0, k < w), c1.rows(c0.n, k) == row(k))),
                             z3.ForAll([i, k], z3.Implies(z3.And(i >= 0, i < c0.n), z3.And(c1.rows(i, k) == c0.rows(i, k),
                                                                                       c1.keys[i] == c0.keys[i])))))
        return z3.And(*cl)
    c = Contract(FD, 'DAE.store', pid=pid, params={'self': TObj()},
                 schema={'self.t': TReal(), 'self.x': TArr(n=NX), 'self.y': TArr(n=NY), 'self.f': TArr(), 'self.h': TArr(), 'self.i': TArr(),
                         'self.ts._xs': TRowDict(), 'self.ts._ys': TRowDict(), 'self.ts._zs': TRowDict(), 'self.ts._fs': TRowDict(),
                         'self.ts._hs': TRowDict(), 'self.ts._is': TRowDict(),
                         'self.system.Output.n': TConst(1 if selected else 0),
                         'self.system.Output.xidx': TArr(n=SX, kind='int'), 'self.system.Output.yidx': TArr(n=SY, kind='int'),
                         'self.system.TDS.config.store_z': TBool(), 'self.system.TDS.config.store_f': TBool(),
                         'self.system.TDS.config.store_h': TBool(), 'self.system.TDS.config.store_i': TBool(),
                         'self.system.exist.pflow_tds': TOpaque('Models')},
                 requires=[('sizes', lambda v: z3.And(NX >= 0, NY >= 0, SX >= 0, SY >= 0)),
                           ('time-stamp-is-new (strictly increasing time axis: C06)', lambda v: z3.And(*[
                               forall(v.arr(d).n, lambda j, d=d: v.arr(d).keys[j] != v.z('self.t'))
                               for d in ('self.ts._xs', 'self.ts._ys', 'self.ts._zs', 'self.ts._fs', 'self.ts._hs', 'self.ts._is')])),
                           ('selection-in-range', lambda v: z3.And(
                               forall(SX, lambda j: z3.And(v.arr('self.system.Output.xidx').vals[j] >= 0,
                                                           z3.ToInt(v.arr('self.system.Output.xidx').vals[j]) < NX)),
                               forall(SY, lambda j: z3.And(v.arr('self.system.Output.yidx').vals[j] >= 0,
                                                           z3.ToInt(v.arr('self.system.Output.yidx').vals[j]) < NY))))],
                 calls={'__store__': store_hook,
                        'self.system.get_z': lambda ex, st, a, k, n: st.new_ref(ArrC(fresh('z', z3.ArraySort(I, R)), fresh('nz', I), None), 'zvals')},
                 ensures=[('one-new-entry-at-t-holding-the-(selected)-solver-values;earlier-entries-untouched', post)],
                 modifies=['self.ts.*'])
    return c


def unpack_np(pid):
    """DAETimeSeries.unpack_np: row i of x / y is the i-th stored entry, t[i] its key."""
    N = fresh('N', I)

    def zeros(ex, st, args, kw, node):
        shp = args[0]
        if isinstance(shp, tuple) and len(shp) == 2:
            return st.new_ref(Arr2C(lambda i, j: z3.RealVal(0), to_z3(shp[0]), to_z3(shp[1])), 'zeros2d')
        from pyvc.externals import np_zeros
        return np_zeros(ex, st, args, kw, node)

    def inv(v):
        ii = v.local('$i0')
        src, dest = v.local('src'), v.local('dest')
        d = v.arr('self.' + src)
        a = v.arr('self.' + dest)
        i, k = fresh('i', I), fresh('k', I)
        return z3.And(a.n0 == N, z3.ForAll([i, k], z3.Implies(z3.And(i >= 0, i < ii, k >= 0, k < d.width), a.at(i, k) == d.rows(i, k))))

    def post(old, new, res):
        cl = []
        for src, dest in (('_xs', 'x'), ('_ys', 'y')):
            d = old.arr('self.' + src)
            a = new.arr('self.' + dest)
            i, k = fresh('i', I), fresh('k', I)
            cl.append(z3.ForAll([i, k], z3.Implies(z3.And(i >= 0, i < N, k >= 0, k < d.width), a.at(i, k) == d.rows(i, k))))
        t = new.arr('self.t')
        ky = old.arr('self._ys').keys
        cl.append(z3.And(t.n == N, forall(N, lambda i: t.vals[i] == ky[i])))
        return z3.And(*cl)
    sch = {'self.t': TArr(), 'self.xy': TOpaque('Any'), 'self.txy': TOpaque('Any'), 'self.txyz': TOpaque('Any')}
    for s_ in ('_xs', '_ys', '_zs', '_fs', '_hs', '_is'):
        sch['self.' + s_] = TRowDict(n=N)
    for d_ in ('x', 'y', 'z', 'f', 'h', 'i'):
        sch['self.' + d_] = TArr2()
    c = Contract(FD, 'DAETimeSeries.unpack_np', pid=pid, params={'self': TObj(), 'attr': TConst(None), 'warn_empty': TBool()},
                 schema=sch, requires=[('N>=0', lambda v: N >= 0)],
                 calls={'np.zeros': zeros, 'np.hstack': lambda ex, st, a, k, n: Opaque(fresh('hstack', z3.DeclareSort('Any'))),
                        '<value>.reshape': lambda ex, st, a, k, n: a[0]},
                 loops={0: Loop(inv=[('rows-copied-so-far-equal-the-stored-entries', inv)], frame=[lambda st: [st.load('self.' + st.env['dest']).loc], '$ii', '$val'])},
                 ensures=[('x[i,:],y[i,:]=i-th-stored-entry;t[i]=its-key', post)],
                 modifies=['self.*'])
    c.check_bounds = False
    return c


# ------------------------------------------------------------------------------------------------ write_npz (ghost file)
ROW = z3.DeclareSort('Row')
ROWS = z3.SeqSort(ROW)


def write_npz(pid):
    """DAE.write_npz with limit_store: the file receives exactly the rows not written yet (rows[idx_ptr:] of the series as stored
    now) after what it already holds, and idx_ptr moves to the end -- no row twice, none skipped.  ``ts.txyz`` is a cached
    attribute: it equals the stored series only when it has not been computed before (first write) or after ``ts.unpack()``."""
    TRUE_ROWS = fresh('rows_as_stored_now', ROWS)
    def savez(ex, st, args, kw, node):
        st.ghost['file'] = kw['data'].term
        st.ghost['saved'] = True
        return None

    def load(ex, st, args, kw, node):
        return ('npz', st.ghost['file'])

    def getitem(ex, st, args, kw, node):
        base, sl = args
        if isinstance(base, tuple) and base and base[0] == 'npz':
            return Opaque(base[1])
        if isinstance(base, Opaque) and base.term.sort() == ROWS:
            # txyz[idx_ptr:, :]
            lo = to_z3(ex.ev(sl.elts[0].lower, st))
            return Opaque(z3.SubSeq(base.term, lo, z3.Length(base.term) - lo))
        raise Unsupported('getitem')

    def len_h(ex, st, args, kw, node):
        v = args[0]
        if isinstance(v, Opaque) and v.term.sort() == ROWS:
            return z3.Length(v.term)
        if isinstance(v, Ref):
            from pyvc.symex import _len
            return _len(ex, st, args, kw, node)
        raise Unsupported('len')

    def vstack(ex, st, args, kw, node):
        a, b = args[0]
        return Opaque(z3.Concat(a.term, b.term))

    def unpack(ex, st, args, kw, node):
        st.store('self.ts.txyz', Opaque(TRUE_ROWS))      # callee contract of DAETimeSeries.unpack: the cache is refreshed
        return None

    def post(old, new, res):
        rows = TRUE_ROWS
        p = old.z('self.ts.idx_ptr')
        f0, f1 = old.st.ghost['file'], new.st.ghost['file']
        newrows = z3.SubSeq(rows, p, z3.Length(rows) - p)
        app = old.z('self._write_append')
        return z3.Implies(old.z('self.system.TDS.config.limit_store'), z3.And(
            z3.Implies(z3.And(app, z3.Length(newrows) > 0), z3.And(f1 == z3.Concat(f0, newrows), new.z('self.ts.idx_ptr') == z3.Length(rows))),
            z3.Implies(z3.And(app, z3.Length(newrows) == 0), z3.And(f1 == f0, new.z('self.ts.idx_ptr') == p)),
            z3.Implies(z3.Not(app), z3.And(f1 == newrows, new.z('self.ts.idx_ptr') == z3.Length(rows), new.z('self._write_append')))))

    def post_whole(old, new, res):
        rows = TRUE_ROWS
        return z3.Implies(z3.Not(old.z('self.system.TDS.config.limit_store')), new.st.ghost['file'] == rows)
    c = Contract(FD, 'DAE.write_npz', pid=pid, params={'self': TObj(), 'file_path': TStr()},
                 schema={'self.system.TDS.config.limit_store': TBool(), 'self.ts.txyz': TOpaque('RowSeq'), 'self._write_append': TBool(),
                         'self.ts.idx_ptr': TInt(), 'self.ts.t': TSeq()},
                 requires=[('pointer-in-range', lambda v: z3.And(v.z('self.ts.idx_ptr') >= 0, v.z('self.ts.idx_ptr') <= z3.Length(TRUE_ROWS))),
                           ('one-row-per-time-stamp', lambda v: v.arr('self.ts.t').n == z3.Length(TRUE_ROWS)),
                           ('cache-fresh-unless-appending(the-series-was-reset-after-the-previous-off-load)',
                            lambda v: z3.Implies(z3.Or(z3.Not(v.z('self._write_append')), z3.Not(v.z('self.system.TDS.config.limit_store'))),
                                                 v.get('self.ts.txyz').term == TRUE_ROWS))],
                 ghost_init={'file': z3.Const('file0', ROWS), 'saved': False},
                 calls={'np.savez_compressed': savez, 'np.load': load, '__getitem__': getitem, 'len': len_h, 'np.vstack': vstack,
                        'self.ts.unpack': unpack},
                 ensures=[('append-protocol:file+=rows[idx_ptr:];pointer-to-end', post), ('unlimited-store:whole-series-written', post_whole)],
                 modifies=['self._write_append', 'self.ts.idx_ptr', 'self.ts.txyz'])
    # the RowSeq opaque sort must be the z3 sequence sort
    c.schema['self.ts.txyz'] = _RowSeq()
    c.merge = False
    return c


def replay_write_npz(obligation, model, meta):
    """native: a real chunked run (limit_store=1, several off-loads) must leave in the npz file exactly the time stamps of the same
    run kept in memory"""
    import contextlib
    import io
    import logging
    import os
    import shutil
    import tempfile
    import numpy as np
    import andes
    logging.getLogger('andes').setLevel(logging.CRITICAL)
    case = andes.get_case('kundur/kundur_full.xlsx')
    out = tempfile.mkdtemp(prefix='verif_npz_')
    try:
        with contextlib.redirect_stdout(io.StringIO()), contextlib.redirect_stderr(io.StringIO()):
            ref = andes.load(case, default_config=True, no_output=True)
            ref.TDS.config.tf = 2.5
            ref.PFlow.run()
            ref.TDS.run()
            ss = andes.load(case, default_config=True, output_path=out)
            ss.TDS.config.limit_store, ss.TDS.config.max_store, ss.TDS.config.tf = 1, 15, 2.5
            ss.PFlow.run()
            ss.TDS.run()
            ss.TDS.save_output()
        data = np.load(os.path.join(out, 'kundur_full_out.npz'))['data']
        t_ref = np.array(ref.dae.ts.t)
        if len(data) != len(t_ref) or not np.allclose(data[:, 0], t_ref, rtol=0, atol=1e-12):
            missing = [float(t) for t in t_ref if not np.any(np.isclose(data[:, 0], t, rtol=0, atol=1e-12))] if len(data) else list(t_ref)
            return {'confirmed': True, 'inputs': {'case': 'kundur_full', 'limit_store': 1, 'max_store': 15, 'tf': 2.5},
                    'observed': 'npz holds %d rows, the run has %d accepted steps; first missing stamps %r' % (len(data), len(t_ref), missing[:5]),
                    'native_cmd': 'TDS.run() with limit_store=1 and file output, then np.load(<case>_out.npz)'}
    finally:
        shutil.rmtree(out, ignore_errors=True)
    return {'confirmed': False, 'tried': 1}


class _RowSeq(TOpaque):
    def __init__(self):
        self.sort = ROWS

    def make(self, st, name):
        return Opaque(fresh(name, ROWS))


def write_lst(pid):
    """DAE.write_lst (no output selection): line k (k >= 1) is labelled with the k-th name of xyz_name, i.e. column k of txyz."""
    N = fresh('N', I)

    def fmt(ex, st, args, kw, node):
        a = args[1:]
        if len(a) == 3 and 'e' in st.env:
            e, i = st.env['e'], st.env['i']
            un = st.content(st.load('self.xyz_name'))
            ex.oblige(st, 'pre@call:format:line-number-e+1-carries-the-name-of-column-e+1',
                      z3.And(to_z3(a[0]) == to_z3(e) + 1, to_z3(i) == to_z3(e), to_z3(a[1]) == un.arr[to_z3(e)]), {})
        return Opaque(fresh('line', TStr.sort))

    def list_range(ex, st, args, kw, node):
        v = args[0]
        if isinstance(v, tuple) and v and v[0] == 'range':
            k = fresh('k', I)
            return st.new_ref(SeqC(z3.Lambda([k], k), v[1], None), 'idxlist')
        from pyvc.symex import _list
        return _list(ex, st, args, kw, node)

    def range_h(ex, st, args, kw, node):
        return ('range', to_z3(args[0]))
    c = Contract(FD, 'DAE.write_lst', pid=pid, params={'self': TObj(), 'lst_path': TStr()},
                 schema={'self._lst_written': TBool(), 'self.system.Output.n': TConst(0), 'self.m': TInt(), 'self.n': TInt(), 'self.o': TInt(),
                         'self.xyz_name': TSeq(elem=TStr.sort), 'self.xyz_tex_name': TSeq(elem=TStr.sort)},
                 requires=[('sizes', lambda v: z3.And(v.z('self.m') >= 0, v.z('self.n') >= 0, v.z('self.o') >= 0,
                                                      v.arr('self.xyz_name').n == v.z('self.m') + v.z('self.n') + v.z('self.o'),
                                                      v.arr('self.xyz_tex_name').n == v.arr('self.xyz_name').n))],
                 calls={'<value>.format': fmt, 'list': list_range, 'range': range_h, 'open': lambda ex, st, a, k, n: Opaque(fresh('file', z3.DeclareSort('File'))),
                        '<value>.write': lambda ex, st, a, k, n: None},
                 globals_={'range': Func('range'), 'open': Func('open')},
                 loops={0: Loop(inv=[], frame=['$out', '$e', '$i'])},
                 ensures=[], modifies=['self._lst_written'])
    c.with_ok = True
    return c


def to_output_addr(pid):
    """Output.to_output_addr: the returned positions are exactly those j with xidx[j] among the variable's addresses."""
    NA, NX = fresh('NA', I), fresh('NX', I)

    def in1d(ex, st, args, kw, node):
        addr = st.content(args[0])
        x = st.content(st.load('self.xidx'))
        k, j = fresh('k', I), fresh('j', I)
        mask = z3.Lambda([k], z3.If(z3.Exists([j], z3.And(j >= 0, j < addr.n, addr.vals[j] == x.vals[k])), z3.RealVal(1), z3.RealVal(0)))
        ex.oblige(st, 'pre@call:in1d:queried-with-the-variable\'s-own-addresses-and-class',
                  z3.BoolVal(args[0].loc == st.load('item.a').loc and args[1] is st.load('item.v_code')), {})
        return st.new_ref(ArrC(mask, x.n, None, kind='bool'), 'isin')

    def where_h(ex, st, args, kw, node):
        mask = st.content(args[0])
        cnt = fresh('cnt', I)
        idx = fresh('where', z3.ArraySort(I, R))
        k, j = fresh('k', I), fresh('j', I)
        st.assume(z3.And(cnt >= 0, cnt <= mask.n))
        st.assume(z3.ForAll([k], z3.Implies(z3.And(k >= 0, k < cnt), z3.And(z3.IsInt(idx[k]), idx[k] >= 0, z3.ToInt(idx[k]) < mask.n,
                                                                            mask.vals[z3.ToInt(idx[k])] != 0))))
        st.assume(z3.ForAll([j], z3.Implies(z3.And(j >= 0, j < mask.n, mask.vals[j] != 0),
                                            z3.Exists([k], z3.And(k >= 0, k < cnt, z3.ToInt(idx[k]) == j)))))
        return (st.new_ref(ArrC(idx, cnt, None, kind='int'), 'where'),)

    def post(old, new, res):
        r = new.st.content(res)
        x, a = old.arr('self.xidx'), old.arr('item.a')
        k, j, q = fresh('k', I), fresh('j', I), fresh('q', I)
        member = lambda p: z3.Exists([q], z3.And(q >= 0, q < NA, a.vals[q] == x.vals[p]))  # noqa
        only = z3.ForAll([k], z3.Implies(z3.And(k >= 0, k < r.n), z3.And(z3.ToInt(r.vals[k]) >= 0, z3.ToInt(r.vals[k]) < NX,
                                                                         member(z3.ToInt(r.vals[k])))))
        every = z3.ForAll([j], z3.Implies(z3.And(j >= 0, j < NX, member(j)), z3.Exists([k], z3.And(k >= 0, k < r.n, z3.ToInt(r.vals[k]) == j))))
        return z3.And(only, every)
    c = Contract(FO, 'Output.to_output_addr', pid=pid, params={'self': TObj(), 'item': TObj(), 'check': TConst(False)},
                 schema={'item.a': TArr(n=NA, kind='int'), 'item.v_code': TConst('x'), 'self.xidx': TArr(n=NX, kind='int'),
                         'self.yidx': TArr(kind='int')},
                 requires=[('sizes', lambda v: z3.And(NA >= 0, NX >= 0))],
                 calls={'self.in1d': in1d, 'np.where': where_h},
                 ensures=[('positions-j-with-xidx[j]-among-the-variable-addresses', post)], modifies=[])
    c.check_bounds = False
    return c


def in1d(pid):
    """Output.in1d: membership mask of xidx (or yidx) in the given addresses, chosen by the variable class."""
    def isin(ex, st, args, kw, node):
        st.ghost['isin_args'] = (args[0], args[1])
        return Opaque(fresh('mask', z3.DeclareSort('Any')))

    def post(old, new, res):
        a = new.st.ghost['isin_args']
        vc = old.local('v_code')
        want = old.get('self.xidx') if vc == 'x' else old.get('self.yidx')
        return z3.BoolVal(a is not None and a[0] is want and a[1] is old.local('addr'))
    cs = []
    for vc in ('x', 'y'):
        cs.append(Contract(FO, 'Output.in1d', pid=pid, params={'self': TObj(), 'addr': TArr(kind='int'), 'v_code': TConst(vc)},
                           schema={'self.xidx': TArr(kind='int'), 'self.yidx': TArr(kind='int')}, ghost_init={'isin_args': None},
                           calls={'np.isin': isin}, ensures=[('np.isin(%sidx, addr)' % vc, post)], modifies=[]))
    return cs


FPL = 'andes/plot.py'


def export_csv(pid):
    """TDSData.export_csv: the header and the body written to the file are built for the same index list, in the same order."""
    def get_header(ex, st, args, kw, node):
        st.ghost['header_for'] = args[0]
        return Mark('header')

    def get_values(ex, st, args, kw, node):
        st.ghost['body_for'] = args[0]
        return Mark('body')

    def post(old, new, res):
        h, b = new.st.ghost.get('header_for'), new.st.ghost.get('body_for')
        return z3.BoolVal(h is not None and b is not None and ((isinstance(h, Ref) and isinstance(b, Ref) and h.loc == b.loc) or h is b))
    c = Contract(FPL, 'TDSData.export_csv', pid=pid,
                 params={'self': TObj(), 'path': TStr(), 'idx': TSeq(minlen=1), 'header': TConst(None), 'formatted': TBool(), 'sort_idx': TBool(),
                         'fmt': TStr()},
                 schema={'self._csv_file': TStr(), 'self._idx': TSeq()}, ghost_init={'header_for': None, 'body_for': None},
                 calls={'self.get_header': get_header, 'self.get_values': get_values, 'len': lambda ex, st, a, k, n: fresh('len', I),
                        'open': lambda ex, st, a, k, n: Mark('file'), '<value>.write': lambda ex, st, a, k, n: None,
                        '<value>.join': lambda ex, st, a, k, n: 'line', 'np.savetxt': lambda ex, st, a, k, n: None,
                        'logger.info': lambda ex, st, a, k, n: None,
                        'sorted': lambda ex, st, a, k, n: st.new_ref(SeqC(fresh('sorted', z3.ArraySort(I, R)), st.content(a[0]).n, None), 'sorted')},
                 globals_={'open': Func('open'), 'sorted': Func('sorted')},
                 ensures=[('header-and-body-built-for-the-same-index-list', post)], allow_raise=['ValueError'], modifies=[])
    c.merge = False
    return c


def replay_export_csv(obligation, model, meta):
    """native: export a selection given in non-ascending order from a real result file and compare every column with the values
    of the variable named in its header"""
    import contextlib
    import io
    import logging
    import os
    import shutil
    import tempfile
    import numpy as np
    import andes
    from andes.plot import TDSData
    logging.getLogger('andes').setLevel(logging.CRITICAL)
    out = tempfile.mkdtemp(prefix='verif_csv_')
    try:
        with contextlib.redirect_stdout(io.StringIO()), contextlib.redirect_stderr(io.StringIO()):
            ss = andes.load(andes.get_case('kundur/kundur_full.xlsx'), default_config=True, output_path=out)
            ss.TDS.config.tf = 0.3
            ss.PFlow.run()
            ss.TDS.run()
            ss.TDS.save_output()
            td = TDSData(full_name=os.path.join(out, 'kundur_full_out'), path=out)
            idx = [7, 3, 12, 1]
            path = td.export_csv(path=os.path.join(out, 'sel.csv'), idx=idx)
        with open(path) as f:
            header = f.readline().strip().split(',')
        body = np.loadtxt(path, delimiter=',', skiprows=1)
        names = td.get_header(idx)
        for col, (name, i) in enumerate(zip(names, idx)):
            want = td.get_values([i])[:, 0]
            if header[col] != name or not np.allclose(body[:, col], want, rtol=0, atol=1e-12):
                return {'confirmed': True, 'inputs': {'case': 'kundur_full tf=0.3', 'idx': idx},
                        'observed': 'column %d is labelled %r but does not hold the values of variable #%d' % (col, header[col], i),
                        'native_cmd': 'TDSData(<result>).export_csv(idx=[7, 3, 12, 1])'}
    finally:
        shutil.rmtree(out, ignore_errors=True)
    return {'confirmed': False, 'tried': 1}



def bounded_loader_roundtrip(pack, pid):
    """bounded native stand-in: a short run written to lst/npz and read back by the plot loader gives, for every variable name, the
    values the simulation kept in memory (names, column order, time stamps); find()/get_header()/get_values() agree"""
    from contracts.packutil import native_guard
    name = '%s/andes/plot.py:TDSData/bounded:file-loader-returns-the-simulated-values-under-the-right-names' % pid

    def go():
        import contextlib
        import io
        import logging
        import os
        import shutil
        import tempfile
        import numpy as np
        import andes
        from andes.plot import TDSData
        logging.getLogger('andes').setLevel(logging.CRITICAL)
        out = tempfile.mkdtemp(prefix='verif_load_')
        try:
            with contextlib.redirect_stdout(io.StringIO()), contextlib.redirect_stderr(io.StringIO()):
                ss = andes.load(andes.get_case('kundur/kundur_full.xlsx'), default_config=True, output_path=out)
                ss.TDS.config.tf = 0.4
                ss.PFlow.run()
                ss.TDS.run()
                ss.TDS.save_output()
                td = TDSData(full_name=os.path.join(out, 'kundur_full_out'), path=out)
            t = np.array(ss.dae.ts.t)
            if not np.array_equal(td.get_values([0])[:, 0], t):
                return {'what': 'time column', 'expected_first': t[:3].tolist(), 'read_first': td.get_values([0])[:3, 0].tolist()}
            names = list(ss.dae.x_name) + list(ss.dae.y_name)
            mem = np.hstack((np.array(ss.dae.ts.x), np.array(ss.dae.ts.y)))
            for col in list(range(0, len(names), 7)) + [len(names) - 1]:
                nm = names[col]
                idx, found = td.find('^' + __import__('re').escape(nm) + '$')
                if len(idx) != 1 or found != [nm] or td.get_header(idx) != [nm]:
                    return {'what': 'lookup of %r' % nm, 'find': [idx, found], 'get_header': td.get_header(idx) if idx else None}
                if not np.array_equal(td.get_values(idx)[:, 0], mem[:, col]):
                    return {'what': 'values of %r' % nm, 'max_difference': float(np.max(np.abs(td.get_values(idx)[:, 0] - mem[:, col])))}
            return None
        finally:
            shutil.rmtree(out, ignore_errors=True)
    bad = native_guard(pack, name, go)
    pack.bounded.append({'function': 'TDSData.load_lst / load_npy_or_csv / find / get_header / get_values', 'counted_as_proved': False,
                         'kind': 'bounded native (kundur_full, tf=0.4: time column and every 7th variable compared with the in-memory series)'})
    if bad:
        pack.violation(name, {'bounded': True, 'inputs': bad, 'native_cmd': 'TDS.run with output; TDSData(<result>); compare with dae.ts'})



def replay_to_output_addr(obligation, model, meta):
    """native run of the real Output.to_output_addr on a stub: contiguous, scattered and partially stored addresses, both codes"""
    from types import SimpleNamespace
    import numpy as np
    from andes.models.misc.output import Output
    xidx, yidx = np.array([0, 2, 3, 7, 8, 9]), np.array([1, 2, 3, 4, 5, 6, 8, 10, 11])
    for code, addr in (('x', [2, 3]), ('x', [0, 3, 9]), ('x', [7, 1, 9]), ('y', [1, 2, 3, 6, 8]), ('y', [10, 1]), ('y', [7]), ('x', [5])):
        from contracts.packutil import Stub
        stub = Stub(_cls=Output, xidx=xidx, yidx=yidx)
        item = SimpleNamespace(a=np.array(addr), v_code=code, owner=SimpleNamespace(class_name='M'), name='v')
        got = sorted(int(i) for i in Output.to_output_addr(stub, item))
        stored = xidx if code == 'x' else yidx
        want = sorted(int(j) for j in range(len(stored)) if stored[j] in addr)
        if got != want:
            return {'confirmed': True, 'inputs': {'stored %sidx' % code: stored.tolist(), 'variable addresses': addr},
                    'observed': 'returned columns %r, the variable is stored in columns %r' % (got, want),
                    'native_cmd': 'Output.to_output_addr(stub, item)'}
    return {'confirmed': False, 'tried': 7}


def set_output_subidx_tail(pid):
    """System.set_output_subidx, from the assignment of Output.xidx on: whatever addresses the selection rows collected (with
    repetitions when rows overlap), Output.xidx and Output.yidx are strictly increasing -- every selected address once -- and hold exactly
    the collected addresses.  np.unique(a) returns the distinct values of a in ascending order; sorted(a) returns the values of a in
    ascending order with their multiplicities (assumed contracts)."""
    from pyvc.symval import DictC

    def members(src_vals, src_n, dst_vals, dst_n, tag):
        """every element of src occurs in dst (witness function) """
        w = z3.Function('wit_%s!%d' % (tag, next(_wit)), I, I)
        k = fresh('k', I)
        return z3.ForAll([k], z3.Implies(z3.And(k >= 0, k < src_n), z3.And(w(k) >= 0, w(k) < dst_n, dst_vals(w(k)) == src_vals(k))))

    def members_goal(src_vals, src_n, dst_vals, dst_n):
        k, j = fresh('k', I), fresh('j', I)
        return z3.ForAll([k], z3.Implies(z3.And(k >= 0, k < src_n), z3.Exists([j], z3.And(j >= 0, j < dst_n, dst_vals(j) == src_vals(k)))))

    def content(st, x):
        c = st.content(x)
        if isinstance(c, ArrC):
            return (lambda i: c.vals[i]), c.n
        if isinstance(c, SeqC):
            return (lambda i: c.arr[i]), c.n
        raise Unsupported('sequence expected')

    def unique(ex, st, args, kw, node):
        src, n = content(st, args[0])
        out = TArr().make(st, 'unique')
        oc = st.content(out)
        a, b = fresh('a', I), fresh('b', I)
        st.assume(z3.And(oc.n <= n, z3.ForAll([a, b], z3.Implies(z3.And(a >= 0, a < b, b < oc.n), oc.vals[a] < oc.vals[b]))))
        st.assume(members(src, n, lambda i: oc.vals[i], oc.n, 'u1'))
        st.assume(members(lambda i: oc.vals[i], oc.n, src, n, 'u2'))
        st.ghost['ascending'] = st.ghost['ascending'] + [out.loc]
        return out

    def sorted_(ex, st, args, kw, node):
        src, n = content(st, args[0])
        out = TSeq().make(st, 'sorted')
        oc = st.content(out)
        a, b = fresh('a', I), fresh('b', I)
        if isinstance(args[0], Ref) and args[0].loc in st.ghost['ascending']:
            # sorting an ascending sequence returns its values in place (a property of every sorting function)
            st.assume(z3.And(oc.n == n, z3.ForAll([a], z3.Implies(z3.And(a >= 0, a < n), oc.arr[a] == src(a)))))
            return out
        # an ascending permutation: position a of the result holds element perm(a) of the source, perm injective
        perm = z3.Function('perm!%d' % next(_wit), I, I)
        st.assume(z3.And(oc.n == n, z3.ForAll([a, b], z3.Implies(z3.And(a >= 0, a < b, b < n), oc.arr[a] <= oc.arr[b]))))
        st.assume(z3.ForAll([a], z3.Implies(z3.And(a >= 0, a < n), z3.And(perm(a) >= 0, perm(a) < n, oc.arr[a] == src(perm(a))))))
        st.assume(z3.ForAll([a, b], z3.Implies(z3.And(a >= 0, a < b, b < n), perm(a) != perm(b))))
        st.assume(members(src, n, lambda i: oc.arr[i], oc.n, 's1'))
        return out

    def mk_post(code, attr, which):
        def post(old, new, res):
            src, n = content(old.st, old.st.content(old.st.env['export_vars']).items[code])
            dv, dn = content(new.st, new.st.load(attr))
            a, b = fresh('a', I), fresh('b', I)
            if which == 'increasing':
                return z3.ForAll([a, b], z3.Implies(z3.And(a >= 0, a < b, b < dn), dv(a) < dv(b)))
            if which == 'complete':
                return members_goal(src, n, dv, dn)
            return members_goal(dv, dn, src, n)
        return post
    posts = [('%s:%s' % (attr.split('.')[-1], which), mk_post(code, attr, which)) for code, attr in (('x', 'self.Output.xidx'), ('y', 'self.Output.yidx'))
             for which in ('increasing', 'complete', 'nothing-else')]
    c = Contract(FS, 'System.set_output_subidx', pid=pid, params={'self': TObj()},
                 schema={'self.Output.xidx': TSeq(), 'self.Output.yidx': TSeq()},
                 calls={'np.unique': unique, 'sorted': sorted_}, globals_={'sorted': Func('sorted')}, ghost_init={'ascending': []},
                 ensures=posts, modifies=['self.Output.xidx', 'self.Output.yidx'])
    c.body_from = 'self.Output.xidx = '

    def pre_state(st):
        st.env['export_vars'] = st.new_ref(DictC({'x': TSeq().make(st, 'collected_x'), 'y': TSeq().make(st, 'collected_y')}), 'export_vars')
    c.pre_state = pre_state
    c.tag = 'tail'
    return c


import itertools as _it2  # noqa: E402
_wit = _it2.count()
FS = 'andes/system.py'


def replay_output_selection(obligation=None, model=None, meta=None):
    """native: accessors of the stored series with single and overlapping Output selections (contracts/bounded_getdata.py)"""
    from contracts import bounded_getdata
    n, bad = bounded_getdata.run()
    if bad:
        return {'confirmed': True, 'inputs': bad, 'observed': bad.get('observed'), 'native_cmd': 'contracts/bounded_getdata.py'}
    return {'confirmed': False, 'tried': n}

replay_output_selection.real_system = True       # drives the real program on stock inputs: a crash inside repository code is a confirmed failure


def replay_thinning(obligation=None, model=None, meta=None):
    """native: a run that the stability criterion stops early, stored with save_every = 2, 3, 5: every stored row is a row of the same run
    stored at every step (same time stamp, same values), and the stored times are those of every k-th accepted step"""
    import contextlib
    import io
    import logging
    import numpy as np
    import andes
    logging.getLogger('andes').setLevel(logging.CRITICAL)

    def run(save_every, early):
        with contextlib.redirect_stdout(io.StringIO()), contextlib.redirect_stderr(io.StringIO()):
            ss = andes.load(andes.get_case('kundur/kundur_full.xlsx'), default_config=True, no_output=True, setup=False)
            for tg in list(ss.Toggle.idx.v):
                ss.Toggle.alter('u', tg, 0)
            if early:
                ss.add('Fault', dict(bus=7, tf=1.0, tc=1.6, xf=0.0001))
            ss.setup()
            ss.PFlow.run()
            ss.TDS.config.tf = 2.5 if early else 1.0
            ss.TDS.config.save_every = save_every
            ss.TDS.run()
        return np.array(ss.dae.ts.t), np.array(ss.dae.ts.xy), float(ss.dae.t)
    n = 0
    for early in (True, False):
        t1, xy1, _ = run(1, early)
        for k in (2, 3, 5):
            n += 1
            tk, xyk, _ = run(k, early)
            what = {'case': 'kundur_full' + (' with a bolted fault on bus 7 from 1.0 to 1.6 s (stopped by the angle criterion)' if early else ', 1 s, no event'), 'save_every': k}
            for i, t in enumerate(tk):
                j = np.where(t1 == t)[0]
                if len(j) != 1:
                    return {'confirmed': True, 'inputs': what, 'observed': 'stored row with t = %r is not a step of the run stored at every step (last stored step of that run: t = %r)' % (float(t), float(t1[-1])),
                            'native_cmd': 'contracts/fn_output.py replay_thinning'}
                if not np.array_equal(xyk[i], xy1[j[0]]):
                    return {'confirmed': True, 'inputs': what, 'observed': 'row at t = %r differs from the row of the run stored at every step (max difference %.3e)' % (
                        float(t), float(np.max(np.abs(xyk[i] - xy1[j[0]])))), 'native_cmd': 'contracts/fn_output.py replay_thinning'}
    return {'confirmed': False, 'tried': n}


replay_thinning.real_system = True


def replay_dae_store(obligation=None, model=None, meta=None):
    """native run of the real DAE.store on a stub: the solver vectors are updated IN PLACE between two calls; every stored row must
    keep the values the vectors held when it was stored -- without a selection, with a scattered selection and with selections
    that are one contiguous block (whole model / whole variable) or a single address"""
    import numpy as np
    from andes.variables.dae import DAE
    from contracts.packutil import Stub
    n = 0
    for xidx, yidx in ((None, None), ([0, 2, 5], [1, 4]), ([1, 2, 3], [0, 1, 2, 3]), ([4], [2]), ([0, 1, 2, 3, 4, 5], [3, 4, 5]), ([], [2, 3])):
        x, y = np.arange(6, dtype=float) + 0.5, np.arange(6, dtype=float) * 10.0
        ts = Stub(_xs={}, _ys={}, _zs={}, _fs={}, _hs={}, _is={})
        t = np.array(0.0)
        sel = xidx is not None
        stub = Stub(DAE, x=x, y=y, t=t, ts=ts, f=np.zeros(6), h=np.zeros(0), i=np.zeros(0),
                    system=Stub(Output=Stub(n=1 if sel else 0, xidx=list(xidx or []), yidx=list(yidx or [])), exist=Stub(pflow_tds={}),
                                TDS=Stub(config=Stub(store_z=0, store_f=0, store_h=0, store_i=0))))
        want = {}
        for k in range(3):
            t[...] = 0.1 * k
            x += 1.0            # in place, as the integrator does
            y *= 1.5
            want[float(t)] = (np.array(x[xidx] if sel else x), np.array(y[yidx] if sel else y))
            n += 1
            DAE.store(stub)
        for tk, (wx, wy) in want.items():
            gx, gy = np.asarray(ts._xs.get(tk)), np.asarray(ts._ys.get(tk))
            if ts._xs.get(tk) is None or gx.shape != wx.shape or gy.shape != wy.shape or not (np.array_equal(gx, wx) and np.array_equal(gy, wy)):
                return {'confirmed': True, 'inputs': {'Output.xidx': xidx, 'Output.yidx': yidx, 'stored at t': tk, 'steps': 3},
                        'observed': 'row stored at t = %r reads x %r, y %r after later steps; the vectors held x %r, y %r when it was stored' % (
                            tk, gx.tolist(), gy.tolist(), wx.tolist(), wy.tolist()),
                        'native_cmd': 'DAE.store(stub) three times with dae.x / dae.y updated in place in between'}
    return {'confirmed': False, 'tried': n}
