"""Contracts on andes/routines/pflow.py (shared by C01 and C17)."""
import z3

from pyvc.symex import Contract, Loop, spec, View
from pyvc.symval import (TArr, TBool, TFloat, TInt, TObj, TOpaque, TReal, TSeq, TStr, TConst, NR, TOptional, fresh, I,
                         MaybeNone)

F = 'andes/routines/pflow.py'

Mat = TOpaque('Mat')


def schema():
    return {
        'self.niter': TInt(), 'self.converged': TBool(), 'self.mis': TSeq(nan=True, minlen=1),
        'self.config.tol': TReal(), 'self.config.max_iter': TInt(),
        'self.config.method': TStr(), 'self.config.n_factorize': TInt(), 'self.config.linsolve': TBool(),
        'self.config.check_conn': TInt(), 'self.config.init_tds': TBool(), 'self.config.report': TBool(),
        'self.system.dae.m': TInt(), 'self.system.dae.n': TInt(),
        'self.system.exit_code': TInt(),
        'self.system.dae.x': TArr(nan=True, n='self.system.dae.n'), 'self.system.dae.y': TArr(nan=True, n='self.system.dae.m'),
        'self.system.dae.f': TArr(nan=True, n='self.system.dae.n'), 'self.system.dae.g': TArr(nan=True, n='self.system.dae.m'),
        'self.system.dae.fx': Mat, 'self.system.dae.fy': Mat, 'self.system.dae.gx': Mat, 'self.system.dae.gy': Mat,
        'self.system.dae.xy': TArr(nan=True),
        'self.x_sol': TOptional(TArr(nan=True)), 'self.y_sol': TOptional(TArr(nan=True)),
        'self.exec_time': TReal(), 'self.res': TArr(nan=True), 'self.inc': TArr(nan=True), 'self.A': Mat,
        'self.solver.worker.new_A': TBool(), 'self.models': TOpaque('Models'),
        'self.system.files.case': TStr(), 'self.system.dae.xy_name': TSeq(elem=TStr.sort),
        'self.system.dae.x_name': TSeq(elem=TStr.sort), 'self.system.dae.y_name': TSeq(elem=TStr.sort),
    }


NR_STEP_FRAME = ['self.system.dae.*', 'loc:self.system.dae.*', 'self.inc', 'loc:self.inc', 'self.A', 'self.res', 'loc:self.res',
                 'self.solver.worker.new_A']


def last(seq, back=1):
    return seq.arr[seq.n - back], (seq.nans[seq.n - back] if seq.nans is not None else z3.BoolVal(False))


def mismatch_bounds_residual(new, res):
    """the returned mismatch is NaN, or it bounds every entry of the residual vectors (none of which is NaN)"""
    k = fresh('k', I)
    g = new.arr('self.system.dae.g')
    f = new.arr('self.system.dae.f')
    absv = lambda t: z3.If(t >= 0, t, -t)  # noqa
    ok_g = z3.ForAll([k], z3.Implies(z3.And(k >= 0, k < g.n), z3.And(z3.Not(g.nan_at(k)), absv(g.vals[k]) <= res.val)))
    ok_f = z3.ForAll([k], z3.Implies(z3.And(k >= 0, k < f.n), z3.And(z3.Not(f.nan_at(k)), absv(f.vals[k]) <= res.val)))
    return z3.Or(res.nanz(), z3.And(ok_g, ok_f))


def nr_step(pid):
    """PFlow.nr_step: the returned scalar is the infinity norm of the assembled residual (NaN if any entry is NaN)."""
    return Contract(
        F, 'PFlow.nr_step', pid=pid, params={'self': TObj()}, schema=schema(),
        requires=[('sizes', lambda v: z3.And(v.z('self.system.dae.n') >= 0, v.z('self.system.dae.m') > 0))],
        calls={
            'self.fg_update': spec(modifies=['loc:self.system.dae.f', 'loc:self.system.dae.g'], name='PFlow.fg_update'),
            'self.system.j_update': spec(modifies=['self.system.dae.fx', 'self.system.dae.fy', 'self.system.dae.gx',
                                                   'self.system.dae.gy'], name='System.j_update'),
            'sparse': spec(returns=Mat, name='kvxopt.sparse'),
            'self.solver.solve': spec(returns=TArr(nan=True), name='Solver.solve'),
            'self.solver.linsolve': spec(returns=TArr(nan=True), name='Solver.linsolve'),
            'self.system.vars_to_models': spec(name='System.vars_to_models'),
        },
        globals_={'sparse': __import__('pyvc.symval', fromlist=['Func']).Func('sparse')},
        ensures=[('returned-mismatch-bounds-the-assembled-residual', lambda old, new, res: mismatch_bounds_residual(new, res))],
        modifies=NR_STEP_FRAME + ['self.system.dae.x', 'self.system.dae.y', 'self.system.dae.f', 'self.system.dae.g'],
    )


def nr_solve(pid):
    """PFlow.nr_solve: success flag => the last tested mismatch is a number below tol."""
    def post_tested(old, new, res):
        m, mn = last(new.arr('self.mis'))
        return z3.Implies(new.z('self.converged'), z3.And(z3.Not(mn), m < new.z('self.config.tol')))

    def len_inv(v):
        n = v.z('self.niter')
        return v.arr('self.mis').n == z3.If(n == 0, 1, n)
    return Contract(
        F, 'PFlow.nr_solve', pid=pid, params={'self': TObj()}, schema=schema(),
        requires=[('not-yet-converged', lambda v: z3.Not(v.z('self.converged'))),
                  ('tol-positive', lambda v: v.z('self.config.tol') > 0),
                  ('max_iter-nonneg', lambda v: v.z('self.config.max_iter') >= 0),
                  ('mis-has-one-entry', lambda v: v.arr('self.mis').n == 1)],
        calls={'self.nr_step': spec(returns=TFloat(), modifies=NR_STEP_FRAME, name='PFlow.nr_step')},
        loops={0: Loop(inv=[('not-converged-inside-loop', lambda v: z3.Not(v.z('self.converged'))),
                            ('niter-nonneg', lambda v: v.z('self.niter') >= 0),
                            ('niter-bounded', lambda v: v.z('self.niter') <= v.z('self.config.max_iter') + 1),
                            ('len(mis)==max(niter,1)', len_inv)],
                       frame=['self.niter', 'loc:self.mis', 'self.converged', '$mis'] + NR_STEP_FRAME)},
        ensures=[('returns-converged-flag', lambda old, new, res: res == new.z('self.converged')),
                 ('success=>mismatch-tested-below-tol-and-not-NaN', post_tested),
                 ('iterations-bounded', lambda old, new, res: new.z('self.niter') <= new.z('self.config.max_iter') + 1),
                 ('mis-nonempty', lambda old, new, res: new.arr('self.mis').n >= 1)],
        modifies=['self.niter', 'self.mis', 'self.converged'] + NR_STEP_FRAME,
    )


def argmax_xy(ex, st, args, kw, node):
    """np.argmax(np.abs(dae.xy)) in the failure diagnostics: dae.xy / dae.xy_name have n + m > 0 entries (C10)"""
    from pyvc.externals import np_argmax
    k = np_argmax(ex, st, args, kw, node)
    names = st.content(st.load('self.system.dae.xy_name'))
    st.assume(z3.And(k >= 0, k < names.n))
    return k


def run(pid):
    """PFlow.run: the returned flag is the convergence flag; exit code mirrors it; solution copied only on success."""
    def nr_solve_post(old, new, res, args, kw):
        m, mn = last(new.arr('self.mis'))
        return z3.And(new.arr('self.mis').n >= 1,
                      z3.Implies(new.z('self.converged'), z3.And(z3.Not(mn), m < new.z('self.config.tol'))))

    def init_post(old, new, res, args, kw):
        return z3.And(z3.Not(new.z('self.converged')), new.arr('self.mis').n == 1, new.z('self.niter') == 0,
                      new.isnone('self.x_sol'), new.isnone('self.y_sol'))

    def post_flag(old, new, res):
        return res == new.z('self.converged')

    def post_exit(old, new, res):
        return new.z('self.system.exit_code') == z3.If(new.z('self.converged'), 0, 1)

    def post_tested(old, new, res):
        m, mn = last(new.arr('self.mis'))
        return z3.Implies(z3.And(res, new.z('self.system.dae.m') != 0),
                          z3.And(z3.Not(mn), m < new.z('self.config.tol')))

    def post_sol(old, new, res):
        return z3.Implies(z3.Not(res), z3.Or(new.isnone('self.x_sol'), new.z('self.system.dae.m') == 0))
    # the island data every later stage relies on (neutralised rows, slack classification) is recomputed from the current statuses
    # at the start of every run when check_conn is 1 -- whatever bus-status request is pending; ghost field self.ghost_islands_fresh
    conn_base = spec(name='System.connectivity')
    init_base = spec(modifies=['self.converged', 'self.niter', 'loc:self.mis', 'self.x_sol', 'self.y_sol',
                               'self.exec_time', 'self.system.dae.*', 'loc:self.system.dae.*', 'self.res', 'self.A',
                               'self.models'],
                     ensures=[init_post], name='PFlow.init')

    def conn_h(ex, st, args, kw, node):
        r = conn_base(ex, st, args, kw, node)
        st.store('self.ghost_islands_fresh', z3.BoolVal(True))
        return r

    def init_h(ex, st, args, kw, node):
        from pyvc.symex import to_z3
        ex.oblige(st, 'pre@call:PFlow.init:with-check_conn=1-the-islands-were-recomputed-in-this-run(whatever-status-request-is-pending)',
                  z3.Implies(to_z3(st.load('self.config.check_conn')) == 1, to_z3(st.load('self.ghost_islands_fresh'))), {})
        return init_base(ex, st, args, kw, node)
    sch = dict(schema())
    sch.update({'self.ghost_islands_fresh': TBool(), 'self.system.conn.is_needed': TBool()})
    return Contract(
        F, 'PFlow.run', pid=pid, params={'self': TObj()}, schema=sch,
        requires=[('tol-positive', lambda v: v.z('self.config.tol') > 0),
                  ('max_iter-nonneg', lambda v: v.z('self.config.max_iter') >= 0),
                  ('ghost:islands-not-yet-recomputed-in-this-run', lambda v: z3.Not(v.z('self.ghost_islands_fresh')))],
        calls={
            'np.argmax': argmax_xy,
            'self.system.connectivity': conn_h,
            'self.summary': spec(name='PFlow.summary'),
            'self.init': init_h,
            'self.nr_solve': spec(requires=[('not-yet-converged', lambda v, a, k: z3.Not(v.z('self.converged'))),
                                            ('mis-has-one-entry', lambda v, a, k: v.arr('self.mis').n == 1),
                                            ('tol-positive', lambda v, a, k: v.z('self.config.tol') > 0),
                                            ('max_iter-nonneg', lambda v, a, k: v.z('self.config.max_iter') >= 0)],
                                  modifies=['self.niter', 'loc:self.mis', 'self.converged'] + NR_STEP_FRAME,
                                  ensures=[nr_solve_post], returns=TBool(), name='PFlow.nr_solve'),
            'self.newton_krylov': spec(modifies=['self.niter', 'loc:self.mis', 'self.converged'] + NR_STEP_FRAME,
                                       ensures=[nr_solve_post], returns=TBool(), name='PFlow.newton_krylov'),
            'elapsed': spec(returns=(NR(z3.Real('t_elapsed')), 'elapsed-str'), name='elapsed'),
            'self.system.TDS.init': spec(modifies=['self.system.dae.*', 'loc:self.system.dae.*'], name='TDS.init'),
            'self.system.PFlow.report': spec(name='PFlow.report'),
        },
        globals_={'elapsed': __import__('pyvc.symval', fromlist=['Func']).Func('elapsed')},
        ensures=[('returns-converged-flag', post_flag), ('exit-code-mirrors-flag', post_exit),
                 ('success=>mismatch-tested-below-tol-and-not-NaN', post_tested),
                 ('failure=>no-solution-copied', post_sol)],
        raises={},
        modifies=['self.*', 'self.system.exit_code', 'self.system.dae.*'],
    )


def replay_nr_step(bname, model, meta):
    """native witness: NaN in g must surface as a NaN mismatch"""
    if 'mismatch-bounds' not in bname:
        return None
    import numpy as np
    from andes.routines.pflow import PFlow

    class NS:
        pass
    self = NS()
    self.system = NS()
    dae = self.system.dae = NS()
    dae.n, dae.m = 0, 2
    dae.x, dae.y, dae.f, dae.g = np.zeros(0), np.zeros(2), np.zeros(0), np.array([0.0, np.nan])
    dae.fx = dae.fy = dae.gx = dae.gy = None
    dae.x_name, dae.y_name = [], ['a', 'b']
    self.system.j_update = lambda m: None
    self.system.vars_to_models = lambda: None
    self.fg_update = lambda: None
    self.config = NS()
    self.config.method, self.config.n_factorize, self.config.linsolve = 'NR', 4, 0
    self.niter = 0
    self.models = {}
    self.res = np.zeros(2)
    self.solver = NS()
    self.solver.worker = NS()
    self.solver.solve = lambda A, b: np.zeros(2)
    import andes.routines.pflow as M
    saved = M.sparse
    M.sparse = lambda blocks: None
    try:
        mis = PFlow.nr_step(self)
    finally:
        M.sparse = saved
    return {'confirmed': not np.isnan(mis), 'returned_mismatch': float(mis), 'g': [0.0, 'nan'],
            'native_cmd': 'PFlow.nr_step(stub) with dae.g = [0, nan], dae.n = 0'}


def replay_run(bname=None, model=None, meta=None):
    return replay_run_islands(bname, model, meta)


def nr_step_point(pid):
    """PFlow.nr_step: the Jacobian handed to the linear solver belongs to the same evaluation point as the residual it is solved
    against -- either it was assembled in this step AFTER the models were updated (fg_update flips discrete flags such as the
    PV -> PQ conversion and re-evaluates the services), or it is the matrix kept from an earlier step (dishonest method).
    Ghost fields: ``self.ghost_state_epoch`` counts the updates of the models' evaluation state, ``self.ghost_jac_epoch`` is the
    epoch the assembled Jacobian blocks belong to."""
    from pyvc.symex import to_z3
    sch = dict(schema())
    sch.update({'self.ghost_state_epoch': TInt(), 'self.ghost_jac_epoch': TInt()})
    base_fg = spec(modifies=['loc:self.system.dae.f', 'loc:self.system.dae.g'], name='PFlow.fg_update')
    base_j = spec(modifies=['self.system.dae.fx', 'self.system.dae.fy', 'self.system.dae.gx', 'self.system.dae.gy'], name='System.j_update')

    def fg(ex, st, args, kw, node):
        r = base_fg(ex, st, args, kw, node)
        st.store('self.ghost_state_epoch', to_z3(st.load('self.ghost_state_epoch')) + 1)
        return r

    def ju(ex, st, args, kw, node):
        r = base_j(ex, st, args, kw, node)
        st.store('self.ghost_jac_epoch', to_z3(st.load('self.ghost_state_epoch')))
        return r

    def solve_with(name):
        base = spec(returns=TArr(nan=True), name=name)

        def h(ex, st, args, kw, node):
            e, j = to_z3(st.load('self.ghost_state_epoch')), to_z3(st.load('self.ghost_jac_epoch'))
            ex.oblige(st, 'pre@call:%s:jacobian-assembled-at-the-point-of-the-residual(after-the-model-update)-or-kept-from-an-earlier-step' % name,
                      z3.Or(j == e, j == st.ghost['j0']), {})
            ex.oblige(st, 'pre@call:%s:residual-evaluated-in-this-step' % name, e == st.ghost['e0'] + 1, {})
            return base(ex, st, args, kw, node)
        return h

    def pre_state(st):
        st.ghost['e0'] = to_z3(st.load('self.ghost_state_epoch'))
        st.ghost['j0'] = to_z3(st.load('self.ghost_jac_epoch'))
    c = Contract(
        F, 'PFlow.nr_step', pid=pid, params={'self': TObj()}, schema=sch,
        requires=[('sizes', lambda v: z3.And(v.z('self.system.dae.n') >= 0, v.z('self.system.dae.m') > 0)),
                  ('ghost:the-kept-jacobian-is-older-than-the-current-state', lambda v: v.z('self.ghost_jac_epoch') < v.z('self.ghost_state_epoch'))],
        calls={'self.fg_update': fg, 'self.system.j_update': ju,
               'sparse': spec(returns=Mat, name='kvxopt.sparse'),
               'self.solver.solve': solve_with('Solver.solve'), 'self.solver.linsolve': solve_with('Solver.linsolve'),
               'self.system.vars_to_models': spec(name='System.vars_to_models')},
        globals_={'sparse': __import__('pyvc.symval', fromlist=['Func']).Func('sparse')},
        ensures=[('new-jacobian-flag-set-iff-rebuilt', lambda old, new, res: z3.Implies(
            new.z('self.ghost_jac_epoch') != old.z('self.ghost_jac_epoch'), new.z('self.solver.worker.new_A')))],
        modifies=NR_STEP_FRAME + ['self.system.dae.x', 'self.system.dae.y', 'self.system.dae.f', 'self.system.dae.g',
                                  'self.ghost_state_epoch', 'self.ghost_jac_epoch'],
    )
    c.tag = 'evaluation-point'
    c.pre_state = pre_state
    return c


def replay_nr_step_point(obligation=None, model=None, meta=None):
    """native: the real nr_step on ieee14_full with PV.pv2pq=1 (discrete flags flip during the iterations) and on kundur_full; at
    the moment the linear system is solved the matrix must equal the Jacobian assembled afresh at that very state, and within a
    step the Jacobian is never assembled before the models are updated"""
    import logging
    import numpy as np
    import andes
    from kvxopt import matrix, sparse
    logging.getLogger('andes').setLevel(logging.CRITICAL)
    n = 0
    for case, opts in (('ieee14/ieee14_full.xlsx', ['PV.pv2pq=1']), ('ieee14/ieee14_full.xlsx', ['PV.pv2pq=1', 'PFlow.method=dishonest']),
                       ('kundur/kundur_full.xlsx', None)):
        ss = andes.load(andes.get_case(case), default_config=True, no_output=True, config_option=opts, setup=True)
        pf = ss.PFlow
        pf.init()
        order = []
        real_fg, real_j, real_solve = pf.fg_update, ss.j_update, pf.solver.solve
        found = {}

        def fg(*a, **k):
            order.append('fg_update')
            return real_fg(*a, **k)

        def ju(*a, **k):
            order.append('j_update')
            return real_j(*a, **k)

        def solve(A, b):
            if 'j_update' in order:
                real_j(pf.models)
                A2 = sparse([[ss.dae.fx, ss.dae.gx], [ss.dae.fy, ss.dae.gy]])
                d = np.abs(np.array(matrix(A2 - A))).max() if len(A2 - A) else 0.0
                if d > 1e-9 and not found:
                    found.update(kind='matrix', diff=float(d))
            return real_solve(A, b)
        pf.fg_update, ss.j_update, pf.solver.solve = fg, ju, solve
        try:
            for it in range(12):
                del order[:]
                pf.niter = it
                mis = pf.nr_step()
                n += 1
                if 'j_update' in order and 'fg_update' in order and order.index('j_update') < order.index('fg_update') and not found:
                    found.update(kind='order', order=list(order))
                if found:
                    return {'confirmed': True, 'inputs': {'case': case, 'config_option': opts, 'iteration': it},
                            'observed': ('within one step the calls came as %r: the Jacobian was assembled before the models were updated' % found['order'])
                            if found['kind'] == 'order' else
                            'the matrix solved with differs by %.3g from the Jacobian assembled at the state the residual was evaluated at' % found['diff'],
                            'native_cmd': 'PFlow.nr_step() with PFlow.fg_update / System.j_update / solver.solve wrapped'}
                if mis < 1e-8:
                    break
        finally:
            pf.fg_update, ss.j_update, pf.solver.solve = real_fg, real_j, real_solve
    return {'confirmed': False, 'tried': n}

replay_nr_step_point.real_system = True


def replay_run_islands(obligation=None, model=None, meta=None):
    """native: PFlow.run on ieee14_full after a bus-status request that leaves nothing to switch (the same bus requested off twice before the
    next routine), followed by ordinary line switching: after every run the reported islands / isolated buses are the components /
    degree-zero nodes of the in-service branch graph"""
    import contextlib
    import io
    import logging
    import andes
    from contracts.bounded_islands_real import components
    logging.getLogger('andes').setLevel(logging.CRITICAL)
    n = 0
    with contextlib.redirect_stdout(io.StringIO()), contextlib.redirect_stderr(io.StringIO()):
        ss = andes.load(andes.get_case('ieee14/ieee14_full.xlsx'), default_config=True, no_output=True)
        ss.PFlow.run()
    uid = {b: i for i, b in enumerate(ss.Bus.idx.v)}
    history = ['PFlow.run()']

    def compare():
        edges = [(uid[f], uid[t]) for f, t, u in zip(ss.Line.bus1.v, ss.Line.bus2.v, ss.Line.u.v) if u == 1]
        iso, isl = components(ss.Bus.n, edges)
        got_iso = sorted(int(i) for i in ss.Bus.islanded_buses)
        got_isl = sorted(sorted(int(i) for i in s) for s in ss.Bus.island_sets)
        if got_iso != iso or (got_isl != isl and not (len(isl) == 1 and got_isl in ([], isl))):
            return {'confirmed': True, 'inputs': {'case': 'ieee14_full', 'sequence': list(history)},
                    'observed': 'after the last run: isolated buses %r, islands %r; the branch graph gives %r, %r' % (got_iso, got_isl, iso, isl),
                    'native_cmd': 'contracts/fn_pflow.py replay_run_islands'}
        return None
    steps = [[('Bus', 14, 0), ('Bus', 14, 0), ('Line', 'Line_9', 0), ('Line', 'Line_10', 0), ('Line', 'Line_13', 0)],
             [('Line', 'Line_9', 1), ('Line', 'Line_10', 1), ('Line', 'Line_13', 1), ('Line', 'Line_8', 0), ('Line', 'Line_14', 0)]]
    for group in steps:
        with contextlib.redirect_stdout(io.StringIO()), contextlib.redirect_stderr(io.StringIO()):
            for mdl, idx, val in group:
                if mdl == 'Bus':
                    ss.Bus.set(src='u', attr='v', idx=idx, value=val)
                    history.append("Bus.set('u', %r, 'v', %r)" % (idx, val))
                else:
                    ss.Line.alter(src='u', idx=idx, value=val)
                    history.append("Line.alter('u', %r, %r)" % (idx, val))
            ss.PFlow.run()
            history.append('PFlow.run()')
        n += 1
        bad = compare()
        if bad:
            return bad
    return {'confirmed': False, 'tried': n}

replay_run_islands.real_system = True

replay_run.real_system = True
