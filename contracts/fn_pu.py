"""Contracts for C11: per-unit coefficients, set_pu_coeff / restore, Model.set / alter, GroupBase.alter, as_dict."""
import ast as _ast

import z3

from pyvc.symex import Contract, Loop, spec, View, Outcomes, to_z3, as_real
from pyvc.symval import (TArr, TBool, TFloat, TInt, TObj, TOpaque, TReal, TSeq, TStr, TConst, NR, TOptional, fresh, I, R, Bo,
                         MaybeNone, Func, Opaque, TNone, Module, Ref, ArrC, ListC, DictC, Unsupported, Obj, TColl, Coll)

FS = 'andes/system.py'
FP = 'andes/core/param.py'
FM = 'andes/core/model/model.py'
FG = 'andes/models/group.py'
FMD = 'andes/core/model/modeldata.py'
K = TStr.sort


def calc_pu_coeff(pid):
    """System.calc_pu_coeff: every parameter flagged with a quantity kind receives the textbook ratio of device base to
    system / bus base for that kind (verified pointwise for one arbitrary device of one arbitrary model)."""
    E = 'self.models.$e'
    names = ['Sn', 'Vn', 'Vn1', 'bus', 'bus1', 'node', 'node1', 'Vdcn', 'Vdcn1', 'Idcn']
    sch = {'self.config.mva': TReal(), 'self.models': TColl()}
    for nm in names:
        sch[E + '.%s.v' % nm] = TReal()

    def contains(ex, st, args, kw, node):
        cont, item = args
        if isinstance(cont, tuple) and cont and cont[0] == 'objdict' and isinstance(item, str):
            key = 'has_' + item
            if key not in st.ghost:
                st.ghost[key] = fresh(key, Bo)
            return st.ghost[key]
        return NotImplemented

    def bus_get(which):
        def h(ex, st, args, kw, node):
            ex.oblige(st, 'pre@call:%s.get:base-voltage-looked-up-by-the-device\'s-own-bus-field' % which,
                      z3.BoolVal(kw.get('src') in ('Vn', 'Vdcn') and kw.get('attr') == 'v'), {})
            key = 'Vb_' + which + '_' + ('1' if st.ghost.get('has_bus', None) is None else '')
            v = NR(fresh('basev_' + which, R))
            st.assume(v.val > 0)
            st.ghost.setdefault('bases', []).append(v)
            return v
        return h

    def spec_ratio(st, prop):
        g = st.ghost
        Sb = st.load('self.config.mva').val

        def has(n):
            return g.get('has_' + n, z3.BoolVal(False))

        def val(n):
            return st.load(E + '.%s.v' % n).val
        Sn = z3.If(has('Sn'), val('Sn'), Sb)
        Vb = st.env['Vb']
        Vb = as_real(Vb).val
        Vn = as_real(st.env['Vn']).val
        # independent statement of the device voltage base: own Vn (or Vn1 for series devices) when declared, else the bus base
        Vn_spec = z3.If(has('bus'), z3.If(has('Vn'), val('Vn'), Vb), z3.If(has('bus1'), z3.If(has('Vn1'), val('Vn1'), Vb), 1))
        Vdcb, Vdcn, Idcn = [as_real(st.env[x]).val for x in ('Vdcb', 'Vdcn', 'Idcn')]
        Idcb = Sb / Vdcb
        table = {
            'voltage': Vn_spec / Vb, 'power': Sn / Sb, 'ipower': Sb / Sn, 'current': (Sn / Vn_spec) / (Sb / Vb),
            'z': (Vn_spec * Vn_spec / Sn) / (Vb * Vb / Sb), 'y': (Vb * Vb / Sb) / (Vn_spec * Vn_spec / Sn),
            'dc_voltage': Vdcn / Vdcb, 'dc_current': Idcn / Idcb, 'r': (Vdcn / Idcn) / (Vdcb / Idcb),
            'g': (Vdcb / Idcb) / (Vdcn / Idcn)}
        return table[prop]

    def set_pu(ex, st, args, kw, node):
        prop = st.env['prop']
        c = as_real(args[0]).val
        ex.oblige(st, 'pre@call:NumParam.set_pu_coeff:coefficient-for-<%s>-is-the-textbook-ratio' % prop,
                  c == spec_ratio(st, prop), {})
        return None

    def find_param(ex, st, args, kw, node):
        ex.oblige(st, 'pre@call:find_param:parameters-selected-by-the-property-being-converted',
                  z3.BoolVal(args[0] == st.env['prop']), {})
        n = fresh('nparam', I)
        st.assume(n >= 0)
        return Coll(E + '.$params', n, None)
    fr_outer = ['$mdl', '$Sn', '$Vb', '$Vn', '$Zn', '$Zb', '$Vdcb', '$Vdcn', '$Idcn', '$Idcb', '$Rb', '$Rn', '$coeffs', '$prop',
                '$coeff', '$p', E + '.*', 'ghost:has_*']
    c = Contract(
        FS, 'System.calc_pu_coeff', pid=pid, params={'self': TObj()}, schema=sch,
        requires=[('system-base-positive', lambda v: v.z('self.config.mva') > 0)],
        calls={'__contains__': contains, 'self.Bus.get': bus_get('Bus'), 'self.Node.get': bus_get('Node'),
               E + '.find_param': find_param, E + '.$params.$e.set_pu_coeff': set_pu},
        loops={0: Loop(inv=[], frame=fr_outer), 1: Loop(inv=[], frame=['$prop', '$coeff', '$p']),
               2: Loop(inv=[], frame=['$p'])},
        ensures=[], modifies=['self.models.*'])

    def pre_state(st):
        for nm in names:
            v = st.load(E + '.%s.v' % nm)
            if nm in ('Sn', 'Vn', 'Vn1', 'Vdcn', 'Vdcn1', 'Idcn'):
                st.assume(v.val > 0)
    c.pre_state = pre_state
    return c


def set_pu_coeff(pid):
    """NumParam.set_pu_coeff (1-D): pu_coeff := coeff and v := vin * coeff, element by element."""
    N = fresh('N', I)

    def post(old, new, res):
        co = old.st.content(old.local('coeff'))
        vin, v, pc = old.arr('self.vin'), new.arr('self.v'), new.arr('self.pu_coeff')
        k = fresh('k', I)
        same_obj = new.get('self.v').loc == old.get('self.v').loc and new.get('self.pu_coeff').loc == old.get('self.pu_coeff').loc
        return z3.And(z3.BoolVal(same_obj), z3.ForAll([k], z3.Implies(z3.And(k >= 0, k < N), z3.And(
            pc.vals[k] == co.vals[k], v.vals[k] == vin.vals[k] * co.vals[k]))))
    return Contract(FP, 'NumParam.set_pu_coeff', pid=pid, params={'self': TObj(), 'coeff': TArr(n=N)},
                    schema={'self.pu_coeff': TArr(n=N), 'self.vin': TArr(n=N), 'self.v': TArr(n=N), 'self.pu_coeff.ndim': TConst(1)},
                    requires=[('N>=0', lambda v: N >= 0)],
                    ensures=[('v=vin*coeff;pu_coeff=coeff;both-written-in-place', post)], modifies=['self.v', 'self.pu_coeff'])


def restore(pid):
    N = fresh('N', I)

    def post(old, new, res):
        vin, v = old.arr('self.vin'), new.arr('self.v')
        k = fresh('k', I)
        same_obj = new.get('self.v').loc == old.get('self.v').loc
        return z3.And(z3.BoolVal(same_obj), z3.ForAll([k], z3.Implies(z3.And(k >= 0, k < N), v.vals[k] == vin.vals[k])))
    return Contract(FP, 'NumParam.restore', pid=pid, params={'self': TObj()},
                    schema={'self.vin': TArr(n=N), 'self.v': TArr(n=N), 'self.pu_coeff': TArr(n=N)}, requires=[('N>=0', lambda v: N >= 0)],
                    ensures=[('v=vin,written-in-place', post)], modifies=['self.v'])


def replay_restore(obligation=None, model=None, meta=None):
    """native run of the real NumParam.restore on parameters whose v was changed after the conversion (Model.set semantics): unit and
    non-unit coefficients, one and several devices"""
    import numpy as np
    from andes.core.param import NumParam
    n = 0
    for coeff in ([1.0], [1.0, 1.0, 1.0], [9.0, 1.0], [0.5, 2.0, 4.0]):
        n += 1
        p = NumParam(default=1.0)
        p.name, p.owner = 'p', None
        k = len(coeff)
        p.vin = np.arange(1.0, k + 1.0)
        p.pu_coeff = np.array(coeff)
        p.v = p.vin * p.pu_coeff
        p.v[0] = 0.97                      # a temporary value written by Model.set
        ident = id(p.v)
        p.restore()
        if id(p.v) != ident or not np.array_equal(p.v, p.vin):
            return {'confirmed': True, 'inputs': {'vin': p.vin.tolist(), 'pu_coeff': coeff, 'v before restore': [0.97] + (np.arange(1.0, k + 1.0) * np.array(coeff))[1:].tolist()},
                    'observed': 'after restore() v = %r (same array object: %r), expected the input values %r' % (p.v.tolist(), id(p.v) == ident, p.vin.tolist()),
                    'native_cmd': 'NumParam.restore() on a parameter with the listed arrays'}
    return {'confirmed': False, 'tried': n}


UIDF = z3.Function('uid_of_idx', K, I)


def model_set(pid, attr='v'):
    """Model.set(src, idx, attr, value) for one device: exactly element uid(idx) of self.<src>.<attr> is written, in place;
    when <src> is the time constant of a state, dae.Tf at that state's address and the Teye diagonal follow."""
    N = fresh('N', I)
    NS = fresh('NS', I)
    E = 'self.states.$e'

    def is_hook(ex, st, args, kw, node):
        op, a, b = args
        if isinstance(op, _ast.Is) and isinstance(a, Obj) and isinstance(b, Obj) and a.path.endswith('.t_const'):
            t = fresh('is_time_constant_of_this_state', Bo)
            st.ghost['is_tc'] = t
            return t
        return NotImplemented

    def setitem(ex, st, args, kw, node):
        base, sl, value = args
        if isinstance(base, Opaque) and base.term.sort().name() == 'Teye':
            idx = ex.ev(sl, st)
            a = st.content(st.load(E + '.a'))
            uid = st.ghost['uid']
            want = z3.ToInt(a.vals[uid])
            st.assume(z3.IsInt(a.vals[uid]))          # instance of "addresses are integers"
            ex.oblige(st, 'pre@store:TDS.Teye:diagonal-entry-at-the-state-address-gets-the-new-time-constant',
                      z3.And(to_z3(idx[0]) == want, to_z3(idx[1]) == want,
                             as_real(value).val == st.content(st.load('self.p.v')).vals[uid]), {})
            st.ghost['teye_written'] = True
            return None
        raise Unsupported('setitem')

    def idx2uid(ex, st, args, kw, node):
        u = UIDF(to_z3(args[0]))
        st.ghost['uid'] = u
        return u

    def store_hook(ex, st, args, kw, node):
        base, sl, value = args
        if isinstance(base, Ref) and base.loc == st.load('self.system.dae.Tf').loc:
            a = st.content(st.load(E + '.a'))
            uid = st.ghost['uid']
            st.assume(z3.IsInt(a.vals[uid]))
            iv = ex.ev(sl, st)
            if isinstance(iv, Ref):          # list-shaped uid: gather result
                ic = st.content(iv)
                got = z3.ToInt(ic.vals[0]) if isinstance(ic, ArrC) else to_z3(ic.arr[0])
            else:
                got = to_z3(iv)
                got = z3.ToInt(got) if z3.is_real(got) else got
            val = value if not isinstance(value, Ref) else st.content(value).at(0)
            ex.oblige(st, 'pre@store:dae.Tf:slot-at-the-state-address-of-that-device-gets-the-new-time-constant',
                      z3.And(got == z3.ToInt(a.vals[uid]), as_real(val).val == st.content(st.load('self.p.v')).vals[uid]), {})

    def uid_shape(v):
        u = v.local('uid')
        want = UIDF(to_z3(v.local('idx')))
        if isinstance(u, Ref):
            items = v.st.content(u).items
            return z3.And(z3.BoolVal(len(items) == 1), to_z3(items[0]) == want)
        return to_z3(u) == want

    def post(old, new, res):
        a0, a1 = old.arr('self.p.' + attr), new.arr('self.p.' + attr)
        u = UIDF(to_z3(old.local('idx')))
        k = fresh('k', I)
        same_obj = new.get('self.p.' + attr).loc == old.get('self.p.' + attr).loc
        return z3.And(z3.BoolVal(same_obj), a1.vals[u] == as_real(old.local('value')).val,
                      z3.ForAll([k], z3.Implies(z3.And(k >= 0, k < N, k != u), a1.vals[k] == a0.vals[k])))
    c = Contract(
        FM, 'Model.set', pid=pid,
        params={'self': TObj(), 'src': TConst('p'), 'idx': TStr(), 'attr': TConst(attr), 'value': TReal()},
        schema={'self.p.v': TArr(n=N), 'self.p.vin': TArr(n=N), 'self.states': TColl(), E + '.t_const': TObj(), E + '.a': TArr(n=N, kind='int'),
                'self.system.dae.Tf': TArr(n=NS), 'self.system.TDS.Teye': TOpaque('Teye'), 'self.p': TObj()},
        requires=[('sizes', lambda v: z3.And(N >= 0, NS >= 0)),
                  ('uid-in-range (C19)', lambda v: z3.And(UIDF(to_z3(v.local('idx'))) >= 0, UIDF(to_z3(v.local('idx'))) < N)),
                  ('state-addresses-in-range (C10)', lambda v: z3.ForAll([JJ], z3.Implies(z3.And(JJ >= 0, JJ < N), z3.And(
                      v.arr(E + '.a').vals[JJ] >= 0, z3.ToInt(v.arr(E + '.a').vals[JJ]) < NS))))],
        calls={'self.idx2uid': idx2uid, '__compare__': is_hook, '__setitem__': setitem, '__store__': store_hook,
               'isinstance:(float, int, str, np.integer, np.floating)': lambda ex, st, a, k, n: True},
        loops={0: Loop(inv=[('uid-local-denotes-the-device-position(scalar-or-[scalar])', uid_shape)],
                       frame=['$state', '$uid', '$uid_int', '$ii', 'loc:self.system.dae.Tf', E + '.*'])},
        ensures=[('element-uid(idx)-written-in-place;others-untouched', post), ('returns-True', lambda o, n, r: z3.BoolVal(r is True))],
        modifies=['self.p.' + attr, 'self.system.dae.Tf', 'self.system.TDS.Teye'])
    return c


JJ = z3.Int('jj')


def model_alter(pid):
    """Model.alter: both representations are written consistently (v = vin * pu_coeff afterwards for the altered device)."""
    N = fresh('N', I)

    def set_h(ex, st, args, kw, node):
        a = list(args)
        attr = kw.get('attr', a[2] if len(a) > 2 else None)
        value = kw.get('value', a[3] if len(a) > 3 else None)
        st.ghost['sets'] = st.ghost['sets'] + [(attr, value)]
        ex.oblige(st, 'pre@call:Model.set:same-src-and-idx', z3.BoolVal(a[0] == 'p' and a[1] is st.env['idx']), {})
        return True

    def post(old, new, res):
        sets = new.st.ghost['sets']
        u = UIDF(to_z3(old.local('idx')))
        k = old.arr('self.p.pu_coeff').vals[u]
        val = as_real(old.local('value')).val
        attr = old.local('attr')
        d = {a: as_real(v).val for a, v in sets}
        if set(d) != {'v', 'vin'} or len(sets) != 2:
            return False
        if attr == 'v':       # value in the input base
            return z3.And(d['vin'] == val, d['v'] == val * k)
        return z3.And(d['v'] == val, z3.Implies(k != 0, d['vin'] * k == val))

    def mk(attr):
        c = Contract(
            FM, 'Model.alter', pid=pid,
            params={'self': TObj(), 'src': TConst('p'), 'idx': TStr(), 'value': TReal(), 'attr': TConst(attr)},
            schema={'self.p.vin': TArr(n=N), 'self.p.pu_coeff': TArr(n=N), 'self.p.v': TArr(n=N), 'self.class_name': TStr()},
            requires=[('uid-in-range (C19)', lambda v: z3.And(N >= 0, UIDF(to_z3(v.local('idx'))) >= 0, UIDF(to_z3(v.local('idx'))) < N))],
            ghost_init={'sets': []},
            calls={'hasattr': lambda ex, st, a, k, n: True, 'self.idx2uid': lambda ex, st, a, k, n: UIDF(to_z3(a[0])),
                   'self.set': set_h},
            globals_={'hasattr': Func('hasattr')},
            ensures=[('vin-and-v-written-consistently(attr=%s)' % attr, post)], modifies=[])
        return c
    return [mk('v'), mk('vin')]


def group_alter(pid):
    """GroupBase.alter: every (model, idx, value) triple is delegated to that model's alter with the same attr."""
    def alter_h(ex, st, args, kw, node):
        args = args[1:]          # receiver first
        i = st.env['$i0']
        idx = st.content(st.env['idx'])
        val = st.content(st.env['value'])
        ex.oblige(st, 'pre@call:Model.alter:delegated-with-idx[j],value[j],same-src-and-attr', z3.And(
            z3.BoolVal(args[0] == 'p' and kw.get('attr') == 'vin'), to_z3(args[1]) == idx.arr[i], as_real(args[2]).val == val.arr[i],
            st.env['mdl'].term == st.content(st.env['models']).arr[i]), {})
        return None
    MS = z3.DeclareSort('ModelRef')

    def idx2model(ex, st, args, kw, node):
        from pyvc.symval import SeqC
        n = st.content(args[0]).n
        return st.new_ref(SeqC(fresh('models', z3.ArraySort(I, MS)), n, None), 'models')
    c = Contract(FG, 'GroupBase.alter', pid=pid,
                 params={'self': TObj(), 'src': TConst('p'), 'idx': TSeq(elem=K), 'value': TSeq(), 'attr': TConst('vin')},
                 schema={},
                 requires=[('one-value-per-idx', lambda v: v.st.content(v.local('idx')).n == v.st.content(v.local('value')).n)],
                 calls={'self._check_src': spec(name='_check_src'), 'self._check_idx': spec(name='_check_idx'),
                        'self._1d_vectorize': lambda ex, st, a, k, n: (a[0], False), 'self.idx2model': idx2model,
                        'isinstance:(str, int, float, np.integer, np.floating)': lambda ex, st, a, k, n: False,
                        '<value>.alter': alter_h},
                 loops={0: Loop(inv=[], frame=['$mdl', '$ii', '$val'])},
                 ensures=[('returns-True', lambda o, n, r: z3.BoolVal(r is True))], modifies=[])
    return c


def as_dict(pid, converter=False):
    """ModelData.as_dict(vin=True): every exported parameter that has input values is exported with them; a parameter with an
    output converter (list-valued parameters) is exported as converter(item) over those same values."""
    E = 'self.params.$e'
    CONV = z3.Function('oconvert', R, R)

    def conv_h(ex, st, args, kw, node):
        return NR(CONV(as_real(args[0]).val))

    def getitem(ex, st, args, kw, node):
        base, sl = args
        if isinstance(base, Opaque) and st.ghost.get('stored') is not None:
            return st.ghost['stored']
        return NotImplemented

    def setitem(ex, st, args, kw, node):
        base, sl, value = args
        key = ex.ev(sl, st)
        if isinstance(key, str) and key == 'uid':
            return None
        st.ghost['stored'] = value
        return None

    def post_iter(v):
        s_ = v.st.ghost['stored']
        if s_ is None:
            return True
        vin_ = v.get(E + '.vin')
        has = v.z(E + '.has_vin_attribute')      # a fact about the parameter object, not about what the code asks
        cond = z3.And(has, z3.Not(vin_.isnone))
        if converter:
            if not isinstance(s_, Ref):
                return False
            got = v.st.content(s_)
            src_v, src_in = v.arr(E + '.v'), v.st.content(vin_.value)
            k = fresh('k', I)

            def conv_of(src):
                return z3.And(got.n == src.n, z3.ForAll([k], z3.Implies(z3.And(k >= 0, k < src.n), got.vals[k] == CONV(src.vals[k]))))
            return z3.And(z3.Implies(cond, conv_of(src_in)), z3.Implies(z3.Not(cond), conv_of(src_v)))
        is_vin = s_ is vin_
        is_v = isinstance(s_, Ref) and s_.loc == v.get(E + '.v').loc
        return z3.And(z3.Implies(cond, z3.BoolVal(is_vin)), z3.Implies(z3.Not(cond), z3.BoolVal(is_v)))

    def hasattr_h(ex, st, args, kw, node):
        if len(args) == 2 and args[1] == 'vin':
            return st.load(E + '.has_vin_attribute')
        return fresh('hasattr', Bo)
    c = Contract(FMD, 'ModelData.as_dict', pid=pid, params={'self': TObj(), 'vin': TConst(True)},
                 schema={'self.n': TInt(), 'self.params': TColl(keysort=K), E + '.export': TBool(), E + '.v': TArr(), E + '.vin': TOptional(TArr()), E + '.has_vin_attribute': TBool(),
                         E + '.oconvert': TConst(Func('oconvert') if converter else None)},
                 calls={'dict': lambda ex, st, a, k, n: Opaque(fresh('out', z3.DeclareSort('OutDict'))), '__setitem__': setitem,
                        'hasattr': hasattr_h, 'np.arange': lambda ex, st, a, k, n: None, 'oconvert': conv_h, '__getitem__': getitem},
                 globals_={'hasattr': Func('hasattr')},
                 loops={0: Loop(inv=[('exported-value-is-vin-when-present-else-v', post_iter)],
                                frame=['$name', '$instance', '$conv', E + '.*'])},
                 ghost_init={'stored': None},
                 ensures=[], modifies=[])
    # the per-iteration obligation: what is stored last under `name` is vin when available, else v
    c.iter_check = True
    if converter:
        c.tag = 'with-output-converter'
    return c



def replay_group_alter(obligation, model, meta):
    """native run of the real GroupBase.alter on a small real group with recording stub models: every addressed device must receive
    its own value, whatever the order of the models in the idx list"""
    import itertools
    from andes.models.group import GroupBase
    for idx, values in (([1, 2, 'G4'], [10.0, 20.0, 30.0]), ([1, 'G4', 2], [1.5, 2.5, 3.5]), (['G4', 2, 'G5', 1], [4.0, 3.0, 2.0, 1.0]),
                        ([2], 7.0), ([1, 'G5'], 9.0)):
        got = {}

        class Stub:
            def __init__(self, name, devs):
                self.class_name, self.n = name, len(devs)
                self.__dict__['p0'] = None

            def alter(self, src, ii, val, attr='v'):
                import numpy as np
                iis = ii if isinstance(ii, (list, tuple, np.ndarray)) else [ii]
                vals = val if isinstance(val, (list, tuple, np.ndarray)) else [val] * len(iis)
                for a, b in zip(iis, vals):
                    got[a] = (self.class_name, src, float(b), attr)
        g = GroupBase()
        g.common_params.append('p0')
        ma, mb = Stub('A', [1, 2]), Stub('B', ['G4', 'G5'])
        g.add_model('A', ma)
        g.add_model('B', mb)
        for i, m in ((1, ma), (2, ma), ('G4', mb), ('G5', mb)):
            g.add(i, m)
        owner = {1: 'A', 2: 'A', 'G4': 'B', 'G5': 'B'}
        g.alter('p0', idx, values)
        vals = values if isinstance(values, list) else [values] * len(idx)
        want = {i: (owner[i], 'p0', float(v), 'v') for i, v in zip(idx, vals)}
        if got != want:
            return {'confirmed': True, 'inputs': {'idx': idx, 'value': values},
                    'observed': 'devices received %r, expected %r' % (got, want), 'native_cmd': 'GroupBase.alter(src, idx, value) on a two-model group'}
    return {'confirmed': False, 'tried': 5}



def replay_model_set(obligation, model, meta):
    """native run of the real Model.set on a stub model after dynamic initialisation: a parameter that is the time constant of two
    states, set for one device and for several devices at once -- the parameter, dae.Tf at every such state's address of every
    addressed device, and the matching Teye diagonal entries all take the new values; nothing else moves"""
    from types import SimpleNamespace
    import numpy as np
    from kvxopt import spdiag, matrix
    from andes.core.model.model import Model
    from contracts.packutil import Stub
    for idx, value in ((2, 0.5), ([1, 3], [0.7, 0.9]), ([3, 1, 2], [1.5, 1.6, 1.7])):
        T = SimpleNamespace(v=np.array([0.1, 0.2, 0.3]), vin=np.array([0.1, 0.2, 0.3]), name='T')
        other = SimpleNamespace(v=np.array([9.0, 9.0, 9.0]), name='other')
        s0 = SimpleNamespace(t_const=T, a=np.array([0, 1, 2]))
        s1 = SimpleNamespace(t_const=T, a=np.array([5, 6, 7]))
        s2 = SimpleNamespace(t_const=other, a=np.array([3, 4, 8]))
        Tf0 = np.array([0.1, 0.2, 0.3, 9.0, 9.0, 0.1, 0.2, 0.3, 9.0])
        dae = SimpleNamespace(Tf=Tf0.copy())
        tds = SimpleNamespace(Teye=spdiag(Tf0.tolist()), initialized=True)
        uid = {1: 0, 2: 1, 3: 2}
        stub = Stub(_cls=Model, states={'s0': s0, 's1': s1, 's2': s2}, system=SimpleNamespace(dae=dae, TDS=tds), T=T, class_name='M')
        stub.idx2uid = lambda i: [uid[k] for k in i] if isinstance(i, (list, tuple, np.ndarray)) else uid[i]
        Model.set(stub, 'T', idx, 'v', value)
        want = Tf0.copy()
        for i, v in zip(idx if isinstance(idx, list) else [idx], value if isinstance(value, list) else [value]):
            for st in (s0, s1):
                want[st.a[uid[i]]] = v
        teye = np.array([tds.Teye[k, k] for k in range(9)])
        pv = np.array([0.1, 0.2, 0.3])
        for i, v in zip(idx if isinstance(idx, list) else [idx], value if isinstance(value, list) else [value]):
            pv[uid[i]] = v
        if not (np.array_equal(dae.Tf, want) and np.array_equal(teye, want) and np.array_equal(T.v, pv)):
            return {'confirmed': True, 'inputs': {'idx': idx, 'value': value, 'states sharing the time constant': ['s0 @ 0..2', 's1 @ 5..7']},
                    'observed': 'param %r, dae.Tf %r, Teye diagonal %r; expected Tf = Teye = %r' % (T.v.tolist(), dae.Tf.tolist(), teye.tolist(), want.tolist()),
                    'native_cmd': "Model.set(stub, 'T', idx, 'v', value)"}
    return {'confirmed': False, 'tried': 3}


def as_df(pid):
    """ModelData.as_df: the table is built from a FRESH walk over the parameters (as_dict with the same vin flag) at every call --
    arrays are re-bound by System.reset() / setup(), so a cached dictionary may hold orphaned arrays -- indexed by 'uid'."""
    from pyvc.symval import Mark, TBool

    def as_dict(ex, st, args, kw, node):
        st.ghost['walks'] = st.ghost['walks'] + [dict(kw)]
        return Mark('fresh-dict', len(st.ghost['walks']))

    def dataframe(ex, st, args, kw, node):
        return Mark('df', args[0] if args else None)

    def set_index(ex, st, args, kw, node):
        base = args[0]
        ok = isinstance(base, Mark) and base.kind == 'df' and len(args) == 2 and args[1] == 'uid'
        return Mark('indexed', base.data[0] if ok else None)

    def post(old, new, res):
        walks = new.st.ghost['walks']
        vin = old.st.env['vin']
        ok = isinstance(res, Mark) and res.kind == 'indexed' and isinstance(res.data[0], Mark) and res.data[0].kind == 'fresh-dict' and len(walks) == 1
        if not ok:
            return z3.BoolVal(False)
        want_vin = walks[0].get('vin', False)
        v = vin if z3.is_expr(vin) else z3.BoolVal(bool(vin))
        return v == z3.BoolVal(bool(want_vin is True))
    c = Contract('andes/core/model/modeldata.py', 'ModelData.as_df', pid=pid, params={'self': TObj(), 'vin': TBool()}, schema={},
                 ghost_init={'walks': []}, calls={'self.as_dict': as_dict, 'pd.DataFrame': dataframe, '<value>.set_index': set_index},
                 globals_={'pd': __import__('pyvc.symval', fromlist=['Module']).Module('pd')},
                 ensures=[('table=DataFrame(fresh as_dict(vin=vin)) indexed by uid', post)], modifies=[])
    c.merge = False
    return c


def replay_as_df_after_reset(obligation=None, model=None, meta=None):
    """native: export, System.reset(), alter parameters of a dynamic-only model and of a static model, export again: the table and the
    json dump carry the altered input values"""
    import contextlib
    import io
    import json
    import logging
    import numpy as np
    import andes
    from andes.io import json as aj
    logging.getLogger('andes').setLevel(logging.CRITICAL)
    with contextlib.redirect_stdout(io.StringIO()), contextlib.redirect_stderr(io.StringIO()):
        ss = andes.load(andes.get_case('kundur/kundur_full.xlsx'), default_config=True, no_output=True)
        ss.PFlow.run()
        first = {m: ss.__dict__[m].as_df(vin=True) for m in ('GENROU', 'TGOV1', 'PQ')}
        _ = aj._dump_system(ss, True)
        ss.reset()
        ss.GENROU.alter('M', ss.GENROU.idx.v[1], 9.5)
        ss.TGOV1.alter('R', ss.TGOV1.idx.v[0], 0.04)
        ss.PQ.alter('p0', ss.PQ.idx.v[0], 10.0)
        dump = json.loads(aj._dump_system(ss, True))
    n = 0
    for mname, par, pos, want in (('GENROU', 'M', 1, 9.5), ('TGOV1', 'R', 0, 0.04), ('PQ', 'p0', 0, 10.0)):
        n += 1
        got_df = float(ss.__dict__[mname].as_df(vin=True)[par].iloc[pos])
        got_js = float(dump[mname][pos][par])
        if abs(got_df - want) > 1e-12 or abs(got_js - want) > 1e-12:
            return {'confirmed': True, 'inputs': {'case': 'kundur_full', 'sequence': 'as_df(vin=True) / json dump; reset(); %s.alter(%r, <device %d>, %r); export again' % (mname, par, pos, want)},
                    'observed': 'as_df(vin=True) gives %r, the json dump %r, the altered input value is %r' % (got_df, got_js, want), 'native_cmd': 'contracts/fn_pu.py replay_as_df_after_reset'}
    return {'confirmed': False, 'tried': n}


replay_as_df_after_reset.real_system = True
