"""Contracts for C19 (and the registry side of C12): group / model registries, idx allocation, lookups."""
import z3

from pyvc.symex import Contract, Loop, spec, View, Outcomes, to_z3, as_real
from pyvc.symval import (TArr, TBool, TFloat, TInt, TObj, TOpaque, TReal, TSeq, TStr, TConst, NR, TOptional, fresh, I, R, Bo,
                         MaybeNone, Func, Opaque, TNone, Module, Ref, ArrC, ListC, DictC, MapC, TMap, Unsupported, TColl, Obj,
                         ExcVal, SeqC)

FG = 'andes/models/group.py'
FMD = 'andes/core/model/modeldata.py'
FM = 'andes/core/model/model.py'
FP = 'andes/core/param.py'
FS = 'andes/system.py'
FSV = 'andes/core/service.py'

K = TStr.sort                      # device idx values (ints and strings alike): abstract key sort, equality = dict-key equality
MODEL = z3.DeclareSort('ModelRef')


def wf_registry(uid, reg):
    """uid is a bijection from the registered idx values onto [0, n), same domain as the registry"""
    a, b = z3.Consts('ka kb', K)
    return z3.And(reg.n >= 0, uid.n == reg.n,
                  z3.ForAll([a], uid.dom[a] == reg.dom[a]),
                  z3.ForAll([a], z3.Implies(uid.dom[a], z3.And(uid.val[a] >= 0, uid.val[a] < reg.n))),
                  z3.ForAll([a, b], z3.Implies(z3.And(uid.dom[a], uid.dom[b], uid.val[a] == uid.val[b]), a == b)))


def group_schema():
    return {'self.uid': TMap(K, I), 'self._idx2model': TMap(K, MODEL), 'self.class_name': TStr()}


def group_props():
    return {'self.n': lambda ex, st: st.content(st.load('self._idx2model')).n}


def group_add(pid):
    """GroupBase.add: a duplicate idx is rejected with KeyError and nothing changes; otherwise the idx gets the next uid and
    the registry invariant is preserved."""
    def post(old, new, res):
        u0, r0, u1, r1 = old.arr('self.uid'), old.arr('self._idx2model'), new.arr('self.uid'), new.arr('self._idx2model')
        idx = to_z3(old.local('idx'))
        a = z3.Const('ka', K)
        return z3.And(z3.Not(r0.dom[idx]), wf_registry(u1, r1), u1.val[idx] == r0.n, r1.val[idx] == to_z3(old.local('model')),
                      r1.n == r0.n + 1,
                      z3.ForAll([a], z3.Implies(a != idx, z3.And(u1.dom[a] == u0.dom[a], u1.val[a] == u0.val[a],
                                                                   r1.dom[a] == r0.dom[a], r1.val[a] == r0.val[a]))))

    def raises_post(old, new, exc):
        u0, r0, u1, r1 = old.arr('self.uid'), old.arr('self._idx2model'), new.arr('self.uid'), new.arr('self._idx2model')
        return z3.And(r0.dom[to_z3(old.local('idx'))], u1.dom == u0.dom, u1.val == u0.val, r1.dom == r0.dom, r1.val == r0.val,
                      r1.n == r0.n)
    c = Contract(FG, 'GroupBase.add', pid=pid, params={'self': TObj(), 'idx': TStr(), 'model': TOpaque('ModelRef')},
                 schema=group_schema(),
                 requires=[('registry-wellformed', lambda v: wf_registry(v.arr('self.uid'), v.arr('self._idx2model')))],
                 calls={'repr': spec(returns=TStr(), name='repr'),
                        '<value>.class_name': lambda ex, st, a, k, n: NotImplemented},
                 ensures=[('fresh-idx-registered-with-next-uid;invariant-kept;others-untouched', post)],
                 raises={'KeyError': [('duplicate-idx-rejected-and-state-unchanged', raises_post)]},
                 modifies=['self.uid', 'self._idx2model'])
    c.properties = group_props()
    c.check_bounds = False     # the f-string of the error message reads _idx2model[idx] on the duplicate path only
    return c


def get_next_idx(pid):
    """GroupBase.get_next_idx: the result is never a registered idx, and it is the proposal whenever the proposal is free."""
    def post(old, new, res):
        r0 = old.arr('self._idx2model')
        prop = old.local('idx')
        rz = to_z3(res) if not isinstance(res, MaybeNone) else res.value.term
        free = z3.And(z3.Not(prop.isnone), z3.Not(r0.dom[prop.value.term]))
        isn = res.isnone if isinstance(res, MaybeNone) else z3.BoolVal(False)
        return z3.And(z3.Not(isn), z3.Not(r0.dom[rz]), z3.Implies(free, rz == prop.value.term))
    c = Contract(FG, 'GroupBase.get_next_idx', pid=pid,
                 params={'self': TObj(), 'idx': TOptional(TStr()), 'model_name': TOptional(TStr())},
                 schema=group_schema(),
                 requires=[('registry-wellformed', lambda v: wf_registry(v.arr('self.uid'), v.arr('self._idx2model')))],
                 calls={'self.idx2model': spec(returns=TObj(), name='idx2model')},
                 loops={0: Loop(inv=[], frame=['$idx', '$count'])},
                 ensures=[('result-not-registered;proposal-kept-when-free', post)],
                 modifies=[])
    c.properties = group_props()
    return c


def one_idx2uid(pid):
    """Model._one_idx2uid: position of an existing device; KeyError for a non-existent idx (never another device)."""
    def post(old, new, res):
        u = old.arr('self.uid')
        idx = to_z3(old.local('idx'))
        return z3.And(u.dom[idx], to_z3(res) == u.val[idx])
    return Contract(FM, 'Model._one_idx2uid', pid=pid, params={'self': TObj(), 'idx': TStr()},
                    schema={'self.uid': TMap(K, I), 'self.class_name': TStr()},
                    ensures=[('returns-uid-of-that-idx', post)],
                    raises={'KeyError': [('only-for-unknown-idx', lambda old, new, exc: z3.Not(old.arr('self.uid').dom[to_z3(old.local('idx'))]))]},
                    modifies=[])


def group_idx2uid(pid):
    """GroupBase.idx2uid (vector form, no None entries): out[j] = uid[idx[j]]."""
    M = fresh('M', I)

    def vec(ex, st, args, kw, node):
        return (args[0], False)

    def post(old, new, res):
        u = old.arr('self.uid')
        idx = old.st.content(old.local('idx'))
        out = new.st.content(res)
        k = fresh('k', I)
        return z3.And(out.n == idx.n, z3.ForAll([k], z3.Implies(z3.And(k >= 0, k < idx.n), out.arr[k] == u.val[idx.arr[k]])))
    c = Contract(FG, 'GroupBase.idx2uid', pid=pid, params={'self': TObj(), 'idx': TSeq(elem=K)},
                 schema={'self.uid': TMap(K, I)},
                 requires=[('all-idx-registered', lambda v: z3.ForAll([KQ], z3.Implies(
                     z3.And(KQ >= 0, KQ < v.st.content(v.local('idx')).n),
                     v.arr('self.uid').dom[v.st.content(v.local('idx')).arr[KQ]])))],
                 calls={'self._1d_vectorize': vec},
                 ensures=[('out[j]=uid[idx[j]]', post)], modifies=[])
    return c


KQ = z3.Int('kq')


def modeldata_add(pid):
    """ModelData.add: the new device gets uid = old n, n grows by one, existing uids untouched."""
    def post(old, new, res):
        u0, u1 = old.arr('self.uid'), new.arr('self.uid')
        idx = old.st.ghost['idx'].term
        a = z3.Const('ka', K)
        return z3.And(u1.dom[idx], u1.val[idx] == old.z('self.n'), new.z('self.n') == old.z('self.n') + 1,
                      z3.ForAll([a], z3.Implies(a != idx, z3.And(u1.dom[a] == u0.dom[a], u1.val[a] == u0.val[a]))))

    def pre_state(st):
        idx = Opaque(fresh('idx', K))
        st.ghost['idx'] = idx
        st.locs['kwargs'] = DictC({'idx': idx})

    def pop_hook(ex, st, args, kw, node):
        base = args[0]
        if isinstance(base, Ref) and isinstance(st.content(base), DictC):
            key = args[1]
            if isinstance(key, str):
                return NotImplemented
            return MaybeNone(fresh('absent', Bo), Opaque(fresh('val', K)))
        return NotImplemented
    c = Contract(FMD, 'ModelData.add', pid=pid, params={'self': TObj()},
                 schema={'self.uid': TMap(K, I), 'self.n': TInt(), 'self.params': TColl(keysort=K), 'self.class_name': TStr(),
                         'self.params.$e': TObj()},
                 requires=[('n>=0', lambda v: v.z('self.n') >= 0)],
                 calls={'<value>.pop': pop_hook, 'self.params.$e.add': spec(name='BaseParam.add'),
                        '__contains__': lambda ex, st, a, k, n: fresh('has_name', Bo),
                        '<value>.get': lambda ex, st, a, k, n: MaybeNone(fresh('absent', Bo), Opaque(fresh('nm', K))),
                        'isinstance:str': lambda ex, st, a, k, n: True},
                 loops={0: Loop(inv=[], frame=['$name', '$instance', '$value', 'loc:kwargs'])},
                 ensures=[('uid[idx]=old-n;n+1;others-untouched', post)],
                 modifies=['self.uid', 'self.n'])
    c.pre_state = pre_state
    return c


def idxparam_add(pid):
    """IdxParam.add: a duplicate value of a unique parameter is rejected with IndexError (nothing stored)."""
    def contains(ex, st, args, kw, node):
        cont, item = args
        c = st.content(cont)
        k = fresh('k', I)
        return z3.Exists([k], z3.And(k >= 0, k < c.n, c.arr[k] == to_z3(item)))

    def dup(old):
        c = old.arr('self.v')
        k = fresh('k', I)
        return z3.Exists([k], z3.And(k >= 0, k < c.n, c.arr[k] == to_z3(old.local('value'))))

    def super_add(ex, st, args, kw, node):
        st.ghost['stored'] = True
        return None
    return Contract(FP, 'IdxParam.add', pid=pid, params={'self': TObj(), 'value': TStr()},
                    schema={'self.v': TSeq(elem=K), 'self.owner.class_name': TStr(), 'self.name': TStr()},
                    ghost_init={'stored': False},
                    calls={'self.get_property': spec(returns=TBool(), name='get_property'), '__contains__': contains,
                           'super': lambda ex, st, a, k, n: Module('super'), 'super.add': super_add},
                    globals_={'super': Func('super')},
                    ensures=[('stored-via-BaseParam.add', lambda old, new, res: z3.BoolVal(new.st.ghost['stored'] is True))],
                    raises={'IndexError': [('only-for-a-duplicate-and-nothing-stored',
                                            lambda old, new, exc: z3.And(dup(old), z3.BoolVal(new.st.ghost['stored'] is False)))]},
                    modifies=[])


def system_add(pid):
    """System.add: the idx registered in the group, the idx stored in the model and the returned idx are the one
    returned by get_next_idx (which is not registered yet); unknown model names change nothing."""
    def get_next(ex, st, args, kw, node):
        r = Opaque(fresh('newidx', K))
        st.ghost['next'] = r
        st.ghost['seq'] = st.ghost['seq'] + ['get_next_idx']
        return r

    def model_add(ex, st, args, kw, node):
        ex.oblige(st, 'pre@call:Model.add:idx-is-the-one-from-get_next_idx',
                  z3.BoolVal('next' in st.ghost and kw.get('idx') is st.ghost['next']), {})
        st.ghost['seq'] = st.ghost['seq'] + ['model.add']
        return None

    def group_add_h(ex, st, args, kw, node):
        ex.oblige(st, 'pre@call:GroupBase.add:idx-is-the-one-from-get_next_idx',
                  z3.BoolVal('next' in st.ghost and kw.get('idx') is st.ghost['next']), {})
        st.ghost['seq'] = st.ghost['seq'] + ['group.add']
        return None

    def objdict(ex, st, args, kw, node):
        return Obj('self.$model')

    def getitem(ex, st, args, kw, node):
        return Obj('self.$group')

    def post(old, new, res):
        seq = new.st.ghost['seq']
        if seq == []:
            return z3.BoolVal(res is None)
        return z3.BoolVal(seq == ['get_next_idx', 'model.add', 'group.add'] and res is new.st.ghost['next'])

    def pop_hook(ex, st, args, kw, node):
        base, key = args[0], args[1]
        if key == 'idx':
            return MaybeNone(fresh('noidx', Bo), Opaque(fresh('givenidx', K)))
        return None
    c = Contract(FS, 'System.add', pid=pid, params={'self': TObj(), 'model': TStr(), 'param_dict': None},
                 schema={'self.is_setup': TBool(), 'self.models': TOpaque('Dict'), 'self.model_aliases': TOpaque('Dict'),
                         'self.groups': TOpaque('Dict'), 'self.$model.group': TStr()},
                 ghost_init={'seq': []},
                 calls={'__contains__': lambda ex, st, a, k, n: fresh('known', Bo), '__objdict__': objdict, '__getitem__': getitem,
                        '<value>.update': lambda ex, st, a, k, n: None, '<value>.pop': pop_hook,
                        'isinstance:str': lambda ex, st, a, k, n: fresh('isstr', Bo),
                        'np.isnan': lambda ex, st, a, k, n: fresh('isnan', Bo),
                        'self.$group.get_next_idx': get_next, 'self.$model.add': model_add, 'self.$group.add': group_add_h},
                 ensures=[('get_next_idx->model.add->group.add-with-one-idx;returned', post)],
                 raises={'NotImplementedError': [('only-after-setup', lambda old, new, exc: old.z('self.is_setup'))]},
                 modifies=[])
    c.merge = False
    c.pre_state = lambda st: st.env.__setitem__('param_dict', st.new_ref(DictC({}), 'param_dict'))
    return c


XK = z3.Const('xk', K)


def find_or_add(pid):
    """DeviceFinder.find_or_add: entry by entry -- a valid existing idx is kept; otherwise the device already linked to the
    same target is used; otherwise one is created through System.add with that link and recorded -- and is found by the entries
    that follow (the lookup relation is updated by every creation: a helper is created at most once per target)."""
    VALID = z3.Function('is_existing_idx', K, Bo)          # ghost: mdl.find_idx('idx', (x,)) finds x
    LINKED = z3.Function('device_linked_to', K, K)         # ghost: result of mdl.find_idx(idx_name, (link,))
    HASLINK = z3.Function('has_device_linked_to', K, Bo)
    CRE = z3.ArraySort(K, Bo)

    def find_idx(ex, st, args, kw, node):
        key, vals = args[0], args[1]
        x = to_z3(vals[0])
        if key == 'idx':
            return st.new_ref(ListC([MaybeNone(z3.Not(VALID(x)), Opaque(x))]), 'found')
        ex.oblige(st, 'pre@call:find_idx:searched-by-the-link-field-for-this-entry\'s-target',
                  z3.And(z3.BoolVal(key == 'link'), x == st.content(st.load('self.link.v')).arr[st.env['ii']]), {})
        has, lk = st.ghost['haslink'], st.ghost['linked']         # the relation as it is NOW (creations included)
        return st.new_ref(ListC([MaybeNone(z3.Not(has[x]), Opaque(lk[x]))]), 'found')

    def sys_add(ex, st, args, kw, node):
        d = st.content(args[1]).items if isinstance(args[1], Ref) else {}
        link = st.content(st.load('self.link.v')).arr[st.env['ii']]
        ok = list(d.keys()) == ['link'] and True
        ex.oblige(st, 'pre@call:System.add:created-device-is-linked-to-this-entry\'s-target',
                  z3.And(z3.BoolVal(ok), to_z3(d.get('link', 0)) == link) if ok else z3.BoolVal(False), {})
        r = fresh('created', K)
        st.ghost['created'] = z3.Store(st.ghost['created'], r, z3.BoolVal(True))
        st.ghost['dup'] = z3.Or(st.ghost['dup'], st.ghost['haslink'][link])
        st.ghost['haslink'] = z3.Store(st.ghost['haslink'], link, z3.BoolVal(True))
        st.ghost['linked'] = z3.Store(st.ghost['linked'], link, r)
        return Opaque(r)

    def resolved(v, j):
        u, ln, out = v.arr('self.u.v'), v.arr('self.link.v'), v.arr('self.v')
        cr = v.st.ghost['created']
        has, lk = v.st.ghost['haslink'], v.st.ghost['linked']
        # a non-valid entry ends up with THE device linked to its target (pre-existing, or created by this call -- once)
        return z3.Or(z3.And(VALID(u.arr[j]), out.arr[j] == u.arr[j]),
                     z3.And(z3.Not(VALID(u.arr[j])), has[ln.arr[j]], out.arr[j] == lk[ln.arr[j]],
                            z3.Or(z3.And(HASLINK(ln.arr[j]), lk[ln.arr[j]] == LINKED(ln.arr[j])),
                                  z3.And(z3.Not(HASLINK(ln.arr[j])), cr[out.arr[j]]))))

    def once(v):
        # a device is only ever created for a target that has none at that moment
        return z3.Not(v.st.ghost['dup'])

    def rel(v):
        # targets that had a device keep it; new entries of the relation come from creations
        has, lk = v.st.ghost['haslink'], v.st.ghost['linked']
        x = fresh('x', K)
        cr = v.st.ghost['created']
        return z3.ForAll([x], z3.And(z3.Implies(HASLINK(x), z3.And(has[x], lk[x] == LINKED(x))),
                                     z3.Implies(z3.And(has[x], z3.Not(HASLINK(x))), cr[lk[x]])))

    def inv(v):
        ii = v.local('$i0')
        j = fresh('j', I)
        return z3.And(v.arr('self.v').n == v.arr('self.link.v').n,
                      z3.ForAll([j], z3.Implies(z3.And(j >= 0, j < ii), resolved(v, j))),
                      z3.ForAll([j], z3.Implies(z3.And(j >= ii, j < v.arr('self.v').n), v.arr('self.v').arr[j] == v.arr('self.u.v').arr[j])))

    def post(old, new, res):
        j = fresh('j', I)
        n = new.arr('self.v').n
        return z3.And(n == old.arr('self.link.v').n, z3.ForAll([j], z3.Implies(z3.And(j >= 0, j < n), resolved(new, j))))
    c = Contract(FSV, 'DeviceFinder.find_or_add', pid=pid, params={'self': TObj(), 'system': TObj()},
                 schema={'self.u.v': TSeq(elem=K), 'self.link.v': TSeq(elem=K), 'self.model': TStr(), 'self.default_model': TStr(),
                         'self.auto_find': TConst(True), 'self.auto_add': TConst(True), 'self.idx_name': TConst('link'),
                         'self.v': TSeq(elem=K), 'system.models': TOpaque('Dict'), 'system.groups': TOpaque('Dict'),
                         'self.u.owner.class_name': TStr(), 'self.u.name': TStr(), 'self.owner.class_name': TStr(),
                         'self.owner.idx.v': TSeq(elem=K), 'system.$mdl2.name': TStr()},
                 requires=[('same-length', lambda v: v.arr('self.u.v').n == v.arr('self.link.v').n)],
                 ghost_init={'created': z3.K(K, z3.BoolVal(False)), 'dup': z3.BoolVal(False),
                             'haslink': lambda v: z3.Lambda([XK], HASLINK(XK)), 'linked': lambda v: z3.Lambda([XK], LINKED(XK))},
                 calls={'__contains__': lambda ex, st, a, k, n: fresh('known', Bo),
                        '__objdict__': lambda ex, st, a, k, n: Obj('system.$mdl'),
                        '__getitem__': lambda ex, st, a, k, n: Obj('system.$mdl2'),
                        'system.$mdl.find_idx': find_idx, 'system.add': sys_add,
                        'system.$mdl2.list2array': spec(name='list2array'), 'system.$mdl2.refresh_inputs': spec(name='refresh_inputs'),
                        'system.link_ext_param': spec(name='link_ext_param')},
                 loops={0: Loop(inv=[('entries-before-ii-resolved;rest-untouched', inv), ('created-only-for-targets-without-a-device', once),
                                     ('existing-links-kept', rel)],
                                frame=['loc:self.v', 'ghost:created', 'ghost:dup', 'ghost:haslink', 'ghost:linked', '$link_to', '$idx',
                                       '$valid_idx', '$added', '$ii'])},
                 ensures=[('every-entry:valid-kept/else-the-device-linked-to-its-target(existing-or-created-once)', post),
                          ('no-second-helper-for-a-target', lambda o, n, r: once(n))],
                 raises={'ValueError': [('unknown-model-or-group', lambda o, n, e: True)]},
                 modifies=['self.v'])
    c.check_bounds = False
    return c


def replay_find_or_add(obligation, model, meta):
    """native run of the real DeviceFinder.find_or_add on a stub system: several referrers sharing one target, without and with a
    pre-existing helper, must end up linked to one and the same helper on that target"""
    from types import SimpleNamespace
    from andes.core.service import DeviceFinder
    for pre_existing in (False, True):
        devices = {}              # helper idx -> link target

        class Helper:
            def find_idx(self, keys, values, allow_none=False, default=None, allow_all=False):
                out = []
                vals = values[0] if isinstance(values[0], (list, tuple)) else [values[0]]
                for val in vals:
                    hit = [i for i, tgt in devices.items() if (i if keys == 'idx' else tgt) == val]
                    out.append(hit[0] if hit else default)
                return out
        helper = Helper()
        if pre_existing:
            devices['H0'] = 'bus4'

        def add(model, param_dict):
            idx = 'H%d' % (len(devices) + 10)
            devices[idx] = param_dict['link']
            return idx
        system = SimpleNamespace(models={'Helper': helper}, groups={}, add=add, link_ext_param=lambda *a, **k: None, __dict__=None)
        system.__dict__.update({'Helper': helper})
        helper.name = 'Helper'
        helper.list2array = lambda *a, **k: None
        helper.refresh_inputs = lambda *a, **k: None
        owner = SimpleNamespace(class_name='Owner', idx=SimpleNamespace(v=[1, 2, 3]))
        u = SimpleNamespace(v=[None, None, None], owner=owner, name='busf', model='Helper')
        link = SimpleNamespace(v=['bus4', 'bus4', 'bus7'])
        df = DeviceFinder(u, link=link, idx_name='link', default_model='Helper')
        df.owner = owner
        df.find_or_add(system)
        per_target = {}
        for idx, tgt in devices.items():
            per_target.setdefault(tgt, []).append(idx)
        ok = (len(df.v) == 3 and df.v[0] == df.v[1] and devices.get(df.v[0]) == 'bus4' and devices.get(df.v[2]) == 'bus7'
              and all(len(v) == 1 for v in per_target.values()) and (not pre_existing or df.v[0] == 'H0'))
        if not ok:
            return {'confirmed': True, 'inputs': {'u.v': [None, None, None], 'link.v': link.v, 'helper already on bus4': pre_existing},
                    'observed': 'referrers linked to %r; helpers per target %r' % (list(df.v), per_target),
                    'native_cmd': 'DeviceFinder.find_or_add(stub system)'}
    # explicit, valid entries are kept whatever happened to other referrers on the same target
    for uv, links in (([None, 'HX', None], ['bus4', 'bus4', 'bus4']), (['HX', None, 'HX'], ['bus4', 'bus4', 'bus7']), ([None, None, 'HX'], ['bus7', 'bus4', 'bus7'])):
        devices = {'HX': 'bus9'}          # an existing helper somewhere else, named explicitly by some referrers

        class Helper2:
            def find_idx(self, keys, values, allow_none=False, default=None, allow_all=False):
                out = []
                vals = values[0] if isinstance(values[0], (list, tuple)) else [values[0]]
                for val in vals:
                    hit = [i for i, tgt in devices.items() if (i if keys == 'idx' else tgt) == val]
                    out.append(hit[0] if hit else default)
                return out
        helper = Helper2()

        def add2(model, param_dict):
            idx = 'H%d' % (len(devices) + 10)
            devices[idx] = param_dict['link']
            return idx
        system = SimpleNamespace(models={'Helper': helper}, groups={}, add=add2, link_ext_param=lambda *a, **k: None, __dict__=None)
        system.__dict__.update({'Helper': helper})
        helper.name = 'Helper'
        helper.idx = SimpleNamespace(v=list(devices))
        helper.uid = {k: i for i, k in enumerate(devices)}
        helper.list2array = lambda *a, **k: None
        helper.refresh_inputs = lambda *a, **k: None
        owner = SimpleNamespace(class_name='Owner', idx=SimpleNamespace(v=[1, 2, 3]))
        u = SimpleNamespace(v=list(uv), owner=owner, name='busf', model='Helper')
        link = SimpleNamespace(v=list(links))
        df = DeviceFinder(u, link=link, idx_name='link', default_model='Helper')
        df.owner = owner
        df.find_or_add(system)
        bad = None
        for k, (given, tgt) in enumerate(zip(uv, links)):
            if given is not None and df.v[k] != given:
                bad = 'referrer %d named the existing helper %r explicitly and was re-pointed to %r' % (k, given, df.v[k])
            if given is None and devices.get(df.v[k]) != tgt:
                bad = 'referrer %d (no helper named) on %r is linked to %r, which sits on %r' % (k, tgt, df.v[k], devices.get(df.v[k]))
        if bad:
            return {'confirmed': True, 'inputs': {'u.v': uv, 'link.v': links, 'existing helper': {'HX': 'bus9'}}, 'observed': bad,
                    'native_cmd': 'DeviceFinder.find_or_add(stub system)'}
    return {'confirmed': False, 'tried': 5}


def set_backref_model(pid):
    """Model.set_backref: from_idx is appended exactly once, to the list at position uid(to_idx) of the named BackRef;
    nothing happens when the model does not declare that BackRef."""
    SLOT = z3.Function('backref_slot', I, K)

    def getitem(ex, st, args, kw, node):
        base, sl = args
        if isinstance(base, Opaque) and base.term.sort().name() == 'RefTable':
            return Obj('self.$ref')
        if isinstance(base, Opaque) and base.term.sort().name() == 'ListOfLists':
            return ('slot', ex.ev(sl, st))
        raise Unsupported('getitem')

    def append(ex, st, args, kw, node):
        base = args[0]
        if isinstance(base, tuple) and base and base[0] == 'slot':
            st.ghost['appended'] = st.ghost['appended'] + [(base[1], args[1])]
            return None
        return NotImplemented

    def post(old, new, res):
        ap = new.st.ghost['appended']
        declared = new.st.ghost.get('declared')
        if len(ap) == 0:
            return z3.Not(declared)
        if len(ap) != 1:
            return False
        slot, what = ap[0]
        return z3.And(declared, to_z3(slot) == UIDF(to_z3(old.local('to_idx'))), to_z3(what) == to_z3(old.local('from_idx')))

    def contains(ex, st, args, kw, node):
        d = fresh('declares_backref', Bo)
        st.ghost['declared'] = d
        return d
    c = Contract(FM, 'Model.set_backref', pid=pid, params={'self': TObj(), 'name': TStr(), 'from_idx': TStr(), 'to_idx': TStr()},
                 schema={'self.services_ref': TOpaque('RefTable'), 'self.$ref.v': TOpaque('ListOfLists')},
                 ghost_init={'appended': [], 'declared': z3.BoolVal(False)},
                 calls={'__contains__': contains, '__getitem__': getitem, '<value>.append': append,
                        'self.idx2uid': lambda ex, st, a, k, n: UIDF(to_z3(a[0]))},
                 ensures=[('from_idx-appended-once-at-uid(to_idx)-iff-BackRef-declared', post)], modifies=[])
    c.merge = False
    return c


UIDF = z3.Function('uid_of_idx', K, I)


def collect_ref_links(pid):
    """System.collect_ref, from its second loop on (the lists were emptied before): for every referring model with devices, every
    index parameter whose target model / group exists and has devices, every requested name (the referrer's class name or its group)
    and every device k of the referrer: set_backref(name, from_idx=idx[k], to_idx=<the parameter's entry k>) is called exactly once
    when that entry is a registered idx of the target -- whatever the entry is (0 and '' are ordinary indices) -- and not at all when
    it is not registered."""
    from pyvc.symval import Mark
    EM = 'models_and_groups.$e'
    EP = EM + '.idx_params.$e'

    def contains(ex, st, args, kw, node):
        cont, item = args
        if isinstance(cont, Mark) and cont.kind == 'services_ref':
            b = fresh('backref_requested', Bo)
            return b
        if isinstance(cont, Mark) and cont.kind in ('models', 'groups'):
            return fresh('target_exists_in_' + cont.kind, Bo)
        raise Unsupported('membership test on %r' % (cont,))

    def objdict(ex, st, args, kw, node):
        return Obj('dest')

    def set_backref(ex, st, args, kw, node):
        ok = len(args) == 1 and set(kw) == {'from_idx', 'to_idx'}
        st.ghost['calls'] = st.ghost['calls'] + [(args[0] if args else None, kw.get('from_idx'), kw.get('to_idx'), bool(ok))]
        return None

    def reset(v):
        v.st.ghost['calls'] = []
        v.st.ghost['in_iter'] = True
        return True

    def pair(v):
        g = v.st.ghost
        if not g.get('in_iter'):
            return True
        i = v.local('$i5') - 1          # the pair just processed
        midx = v.st.content(v.st.load(EM + '.idx.v'))
        pidx = v.st.content(v.st.load(EP + '.v'))
        uid = v.st.content(v.st.load('dest.uid'))
        registered = uid.dom[pidx.arr[i]]
        calls = g['calls']
        if len(calls) == 0:
            return z3.Not(registered)
        if len(calls) != 1 or not calls[0][3]:
            return False
        nm, fr, to = calls[0][0], calls[0][1], calls[0][2]
        same_name = nm is v.st.env['name'] or (isinstance(nm, Opaque) and isinstance(v.st.env['name'], Opaque) and nm.term.eq(v.st.env['name'].term))
        if not same_name or not isinstance(fr, Opaque) or not isinstance(to, Opaque):
            return False
        return z3.And(registered, fr.term == midx.arr[i], to.term == pidx.arr[i])
    c = Contract(FS, 'System.collect_ref', pid=pid, params={'self': TObj()},
                 schema={'models_and_groups': TColl(), EM + '.n': TInt(), EM + '.idx_params': TColl(), EM + '.class_name': TStr(), EM + '.group': TStr(),
                         EM + '.idx.v': TSeq(K), EP + '.model': TStr(), EP + '.v': TSeq(K), 'dest.n': TInt(), 'dest.uid': TMap(K, I)},
                 ghost_init={'calls': []},
                 calls={'hasattr': lambda ex, st, a, k, n: True, '__contains__': contains, '__objdict__': objdict, '__getitem__': lambda ex, st, a, k, n: (Obj('dest') if isinstance(a[0], tuple) and a[0] and a[0][0] == 'objdict' else NotImplemented),
                        'dest.set_backref': set_backref, 'isinstance:Model': lambda ex, st, a, k, n: fresh('is_model', Bo),
                        EM + '.set_in_use': lambda ex, st, a, k, n: None},
                 globals_={'hasattr': Func('hasattr')},
                 loops={2: Loop(inv=[], frame=['$model', '$idxp', '$dest', '$name', '$model_idx', '$dest_idx', EM + '.*', 'dest.*']),
                        3: Loop(inv=[], frame=['$idxp', '$dest', '$name', '$model_idx', '$dest_idx', EP + '.*', 'dest.*']),
                        5: Loop(inv=[('a-registered-target-entry-gets-exactly-one-back-reference-from-the-referring-device;an-unregistered-one-none', pair)],
                                assume=[('reset', reset)], frame=['$model_idx', '$dest_idx'])},
                 ensures=[], modifies=['dest.*'])      # 'dest' stands for a different target in every iteration (modelling device, not a write)
    c.body_from = 'for model in models_and_groups:\n    if model.n == 0'
    c.locals = {'models_and_groups': TColl()}
    c.properties = {'self.models': lambda ex, st: Mark('models'), 'self.groups': lambda ex, st: Mark('groups'),
                    'dest.services_ref': lambda ex, st: Mark('services_ref')}
    c.merge = False
    c.check_bounds = False

    def pre_state(st):
        st.ghost.pop('in_iter', None)
    c.pre_state = pre_state
    return c


def replay_collect_ref(obligation=None, model=None, meta=None):
    """native: back-reference lists against the exact inverse relation (contracts/bounded_backref.py: stock cases and registries with
    zero-based numeric indices)"""
    from contracts import bounded_backref
    r = bounded_backref.run()
    n, bad = r[0], r[1]
    if bad:
        first = bad[0] if isinstance(bad, list) else bad
        return {'confirmed': True, 'inputs': first, 'observed': str(first)[:300], 'native_cmd': 'contracts/bounded_backref.py'}
    return {'confirmed': False, 'tried': n}

replay_collect_ref.real_system = True       # drives the real program on stock inputs: a crash inside repository code is a confirmed failure


def model_idx2uid(pid):
    """Model.idx2uid (vector form, flat, no None entries): out[j] = uid[idx[j]] whatever the order in which the devices were added."""
    def one(ex, st, args, kw, node):
        v = View(st, ex)
        u = v.arr('self.uid')
        i = to_z3(args[0])
        ex.oblige(st, 'queried-idx-is-registered', u.dom[i], {})
        return u.val[i]

    def post(old, new, res):
        u = old.arr('self.uid')
        idx = old.st.content(old.local('idx'))
        out = new.st.content(res)
        k = fresh('k', I)
        return z3.And(out.n == idx.n, z3.ForAll([k], z3.Implies(z3.And(k >= 0, k < idx.n), out.arr[k] == u.val[idx.arr[k]])))
    c = Contract(FM, 'Model.idx2uid', pid=pid, params={'self': TObj(), 'idx': TSeq(elem=K)},
                 schema={'self.uid': TMap(K, I), 'self.n': TInt(), 'self.class_name': TStr()},
                 requires=[('all-idx-registered', lambda v: z3.ForAll([KQ], z3.Implies(
                     z3.And(KQ >= 0, KQ < v.st.content(v.local('idx')).n),
                     v.arr('self.uid').dom[v.st.content(v.local('idx')).arr[KQ]])))],
                 calls={'self._one_idx2uid': one, 'isinstance:(float, int, str, np.integer, np.floating)': lambda ex, st, a, k, n: False,
                        'isinstance:Iterable': lambda ex, st, a, k, n: True, 'isinstance:(list, np.ndarray)': lambda ex, st, a, k, n: False},
                 ensures=[('out[j]=uid[idx[j]]-for-every-order-of-adding', post)], modifies=[])
    c.tag = 'vector'
    return c


def replay_model_idx2uid(obligation=None, model=None, meta=None):
    """native: registries of integers added in every order, queried in scalar, list, array and nested form (contracts/bounded_registry.py)"""
    from contracts import bounded_registry as BR
    n, bad = BR.run(0)
    if bad:
        return {'confirmed': True, 'inputs': bad, 'observed': str(bad.get('observed'))[:300], 'native_cmd': 'contracts/bounded_registry.py'}
    return {'confirmed': False, 'tried': n}

replay_model_idx2uid.real_system = True


def replay_idxparam_add(obligation=None, model=None, meta=None):
    """native run of the real IdxParam.add on a unique parameter: a value that names a device already referred to -- in any spelling
    that is the same dictionary key (1, 1.0, numpy integers and floats, equal strings) -- raises IndexError and stores nothing; other values
    are stored; a non-unique parameter stores everything"""
    import numpy as np
    from andes.core.param import IdxParam
    from contracts.packutil import Stub
    n = 0
    for first, again, others in ((1, [1, 1.0, np.int64(1), np.float64(1.0), np.int32(1), True], [2, '1', 1.5]),
                                 ('G1', ['G1', np.str_('G1')], ['g1', 'G1 ', 1]),
                                 (2.0, [2, 2.0, np.int64(2)], [3, '2.0'])):
        for unique in (True, False):
            p = IdxParam(model='SynGen', unique=unique)
            p.owner = Stub(class_name='TGOV1')
            p.name = 'syn'
            p.add(first)
            for v in again:
                n += 1
                before = list(p.v)
                try:
                    p.add(v)
                    raised = False
                except IndexError:
                    raised = True
                if raised != unique or (raised and list(p.v) != before):
                    return {'confirmed': True, 'inputs': {'unique': unique, 'values added': [first, repr(v)]},
                            'observed': 'the second addition %s; the parameter holds %r' % ('raised IndexError' if raised else 'was accepted', list(p.v)),
                            'native_cmd': "IdxParam(model='SynGen', unique=%r); add(%r); add(%r)" % (unique, first, v)}
                if not unique:
                    p.v.pop()
            for v in others:
                n += 1
                try:
                    p.add(v)
                except IndexError:
                    return {'confirmed': True, 'inputs': {'unique': unique, 'values added': [first, repr(v)]}, 'observed': 'a value that names another device was refused',
                            'native_cmd': "IdxParam.add"}
    return {'confirmed': False, 'tried': n}
