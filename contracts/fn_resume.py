"""C14: reset and snapshot repair."""
import z3

from pyvc.symex import Contract, Loop, to_z3, as_real
from pyvc.symval import TArr, TObj, TInt, TReal, TColl, fresh, I, R, Ref, Mark, NR

FD = 'andes/variables/dae.py'
FS = 'andes/system.py'


def dae_reset(pid):
    """DAE.reset: back to the state of a freshly constructed DAE -- sizes 0 and, in particular, the time marker t = -1 that
    DAE.__init__ sets (the loads are in their power-flow form only while dae.t < 0)."""
    def set_t(ex, st, args, kw, node):
        st.store('self.t', as_real(args[0]))
        return None

    def post(old, new, res):
        return z3.And(new.z('self.t') == -1, new.z('self.m') == 0, new.z('self.n') == 0, new.z('self.o') == 0,
                      z3.BoolVal(new.st.ghost['order'] == ['resize_arrays', 'clear_ijv', 'clear_ts']))

    def rec(tag):
        def h(ex, st, args, kw, node):
            st.ghost['order'] = st.ghost['order'] + [tag]
            return None
        return h
    return Contract(FD, 'DAE.reset', pid=pid, params={'self': TObj()},
                    schema={'self.t': TReal(), 'self.m': TInt(), 'self.n': TInt(), 'self.o': TInt()}, ghost_init={'order': []},
                    calls={'self.set_t': set_t, 'self.resize_arrays': rec('resize_arrays'), 'self.clear_ijv': rec('clear_ijv'),
                           'self.clear_ts': rec('clear_ts')},
                    ensures=[('t=-1(the-constructor-value),sizes-zero,arrays-resized,triplets-and-series-cleared', post)],
                    modifies=['self.t', 'self.m', 'self.n', 'self.o'])


def dae_init_t(pid):
    """DAE.__init__ sets the time marker to -1 (what reset must return to)."""
    def np_array(ex, st, args, kw, node):
        return as_real(args[0])

    def post(old, new, res):
        return new.z('self.t') == -1
    c = Contract(FD, 'DAE.__init__', pid=pid, params={'self': TObj(), 'system': TObj()}, schema={},
                 calls={'np.array': np_array, 'DAETimeSeries': lambda ex, st, a, k, n: Mark('ts'), 'JacTriplet': lambda ex, st, a, k, n: Mark('trip'),
                        'self.clear_ijv': lambda ex, st, a, k, n: None, 'OrderedDict': lambda ex, st, a, k, n: Mark('od'),
                        'spmatrix': lambda ex, st, a, k, n: Mark('sp')},
                 globals_={'DAETimeSeries': __import__('pyvc.symval', fromlist=['Func']).Func('DAETimeSeries'),
                           'JacTriplet': __import__('pyvc.symval', fromlist=['Func']).Func('JacTriplet'),
                           'OrderedDict': __import__('pyvc.symval', fromlist=['Func']).Func('OrderedDict'),
                           'spmatrix': __import__('pyvc.symval', fromlist=['Func']).Func('spmatrix')},
                 ensures=[('t=-1', post)], modifies=['self.*'])
    c.body_from = 'self.t = '
    c.body_to = 1
    return c


def fix_view_arrays(pid):
    """fix_view_arrays (run by load_ss): the variable arrays are re-pointed at the DAE arrays and the inputs refreshed; no value
    stored in the DAE (x, y, f, g, ...) is touched."""
    E = 'system.models.$e'

    def rec(tag):
        def h(ex, st, args, kw, node):
            st.ghost['order'] = st.ghost['order'] + [tag]
            return None
        return h

    def gi(ex, st, args, kw, node):
        st.ghost['refreshed'] = bool(kw.get('refresh') is True)
        return Mark('inputs')

    def reset(v):
        v.st.ghost['refreshed'] = False
        v.st.ghost['in_iter'] = True
        return True

    def inv(v):
        if not v.st.ghost.get('in_iter'):
            return True
        return z3.BoolVal(v.st.ghost['refreshed'] is True)
    c = Contract(FS, 'fix_view_arrays', pid=pid, params={'system': TObj()},
                 schema={'system.models': TColl(), 'system.dae.x': TArr(), 'system.dae.y': TArr(), 'system.dae.f': TArr(), 'system.dae.g': TArr(),
                         'system.dae.t': TReal()},
                 ghost_init={'order': [], 'refreshed': False},
                 calls={'system.set_var_arrays': rec('set_var_arrays'), E + '.get_inputs': gi},
                 loops={0: Loop(inv=[('inputs-of-every-model-refreshed', inv)], assume=[('reset', reset)],
                                frame=['$model', E + '.*', 'ghost:refreshed', 'ghost:in_iter'])},
                 ensures=[('views-re-pointed-first;nothing-else-called', lambda o, n, r: z3.BoolVal(n.st.ghost['order'] == ['set_var_arrays']))],
                 modifies=[])
    c.merge = False

    def pre_state(st):
        st.ghost.pop('in_iter', None)
        for p in ('x', 'y', 'f', 'g'):
            st.load('system.dae.' + p)
    c.pre_state = pre_state
    return c


def replay_snapshot(obligation, model, meta):
    """native: a snapshot taken in the middle of a transient and loaded again holds the same DAE values, and continuing from it gives the
    same state as continuing in the same process"""
    import contextlib
    import io
    import logging
    import numpy as np
    import andes
    from andes.utils.snapshot import save_ss, load_ss
    logging.getLogger('andes').setLevel(logging.CRITICAL)
    with contextlib.redirect_stdout(io.StringIO()), contextlib.redirect_stderr(io.StringIO()):
        ss = andes.load(andes.get_case('kundur/kundur_full.xlsx'), default_config=True, no_output=True)
        ss.PFlow.run()
        ss.TDS.config.tf = 2.3
        ss.TDS.run()
        saved = {k: np.array(getattr(ss.dae, k)) for k in ('x', 'y', 'f', 'g', 't')}
        buf = io.BytesIO()
        save_ss(buf, ss)
        buf.seek(0)
        s2 = load_ss(buf)
    for k, v in saved.items():
        w = np.array(getattr(s2.dae, k))
        if v.shape != w.shape or not np.array_equal(v, w):
            d = np.max(np.abs(v - w)) if v.shape == w.shape else 'shape'
            return {'confirmed': True, 'inputs': {'case': 'kundur_full', 'snapshot at t': 2.3},
                    'observed': 'dae.%s differs after save_ss / load_ss (max difference %r)' % (k, d),
                    'native_cmd': 'save_ss(buffer, system); load_ss(buffer)'}
    return {'confirmed': False, 'tried': 1}


def bounded_reset(pack, pid):
    """bounded native stand-in: PFlow.run(); reset(); PFlow.run() reproduces the first solution on stock cases"""
    from contracts.packutil import native_guard
    name = '%s/%s:System.reset/bounded:reset-then-power-flow-reproduces-the-first-solution' % (pid, FS)
    cases = ['kundur/kundur_full.xlsx', '5bus/pjm5bus.xlsx', 'ieee14/ieee14_full.xlsx']

    def go():
        import logging
        import numpy as np
        import andes
        logging.getLogger('andes').setLevel(logging.CRITICAL)
        for case in cases:
            ss = andes.load(andes.get_case(case), default_config=True, no_output=True)
            ss.PFlow.run()
            y1 = ss.dae.y.copy()
            ss.reset()
            ss.PFlow.run()
            if y1.shape != ss.dae.y.shape or np.max(np.abs(ss.dae.y - y1)) > 1e-9:
                return {'case': case, 'max|dy|': float(np.max(np.abs(ss.dae.y - y1))) if y1.shape == ss.dae.y.shape else 'shape'}
        return None
    bad = native_guard(pack, name, go)
    pack.bounded.append({'function': 'System.reset', 'kind': 'bounded native (stock cases)', 'bound': ', '.join(cases), 'counted_as_proved': False})
    if bad:
        pack.violation(name, {'bounded': True, 'inputs': bad, 'native_cmd': 'PFlow.run(); System.reset(); PFlow.run(); compare dae.y'})
