"""C14: reset and snapshot repair."""
import z3

from pyvc.symex import Contract, Loop, to_z3, as_real
from pyvc.symval import TArr, TObj, TInt, TReal, TColl, fresh, I, R, Ref, Mark, NR

FD = 'andes/variables/dae.py'
FS = 'andes/system.py'


def dae_reset(pid):
    """DAE.reset: back to the state of a freshly constructed DAE -- sizes 0 and, in particular, the time marker t = -1 that
    DAE.__init__ sets (the loads are in their power-flow form only while dae.t < 0)."""
    def set_t(ex, st, args, kw, node):
        st.store('self.t', as_real(args[0]))
        return None

    def post(old, new, res):
        return z3.And(new.z('self.t') == -1, new.z('self.m') == 0, new.z('self.n') == 0, new.z('self.o') == 0,
                      z3.BoolVal(new.st.ghost['order'] == ['resize_arrays', 'clear_ijv', 'clear_ts']))

    def rec(tag):
        def h(ex, st, args, kw, node):
            st.ghost['order'] = st.ghost['order'] + [tag]
            return None
        return h
    return Contract(FD, 'DAE.reset', pid=pid, params={'self': TObj()},
                    schema={'self.t': TReal(), 'self.m': TInt(), 'self.n': TInt(), 'self.o': TInt()}, ghost_init={'order': []},
                    calls={'self.set_t': set_t, 'self.resize_arrays': rec('resize_arrays'), 'self.clear_ijv': rec('clear_ijv'),
                           'self.clear_ts': rec('clear_ts')},
                    ensures=[('t=-1(the-constructor-value),sizes-zero,arrays-resized,triplets-and-series-cleared', post)],
                    modifies=['self.t', 'self.m', 'self.n', 'self.o'])


def dae_init_t(pid):
    """DAE.__init__ sets the time marker to -1 (what reset must return to)."""
    def np_array(ex, st, args, kw, node):
        return as_real(args[0])

    def post(old, new, res):
        return new.z('self.t') == -1
    c = Contract(FD, 'DAE.__init__', pid=pid, params={'self': TObj(), 'system': TObj()}, schema={},
                 calls={'np.array': np_array, 'DAETimeSeries': lambda ex, st, a, k, n: Mark('ts'), 'JacTriplet': lambda ex, st, a, k, n: Mark('trip'),
                        'self.clear_ijv': lambda ex, st, a, k, n: None, 'OrderedDict': lambda ex, st, a, k, n: Mark('od'),
                        'spmatrix': lambda ex, st, a, k, n: Mark('sp')},
                 globals_={'DAETimeSeries': __import__('pyvc.symval', fromlist=['Func']).Func('DAETimeSeries'),
                           'JacTriplet': __import__('pyvc.symval', fromlist=['Func']).Func('JacTriplet'),
                           'OrderedDict': __import__('pyvc.symval', fromlist=['Func']).Func('OrderedDict'),
                           'spmatrix': __import__('pyvc.symval', fromlist=['Func']).Func('spmatrix')},
                 ensures=[('t=-1', post)], modifies=['self.*'])
    c.body_from = 'self.t = '
    c.body_to = 1
    return c


def fix_view_arrays(pid):
    """fix_view_arrays (run by load_ss): the variable arrays are re-pointed at the DAE arrays and the inputs refreshed; no value
    stored in the DAE (x, y, f, g, ...) is touched."""
    E = 'system.models.$e'

    def rec(tag):
        def h(ex, st, args, kw, node):
            st.ghost['order'] = st.ghost['order'] + [tag]
            return None
        return h

    def gi(ex, st, args, kw, node):
        st.ghost['refreshed'] = bool(kw.get('refresh') is True)
        return Mark('inputs')

    def reset(v):
        v.st.ghost['refreshed'] = False
        v.st.ghost['in_iter'] = True
        return True

    def inv(v):
        if not v.st.ghost.get('in_iter'):
            return True
        return z3.BoolVal(v.st.ghost['refreshed'] is True)
    c = Contract(FS, 'fix_view_arrays', pid=pid, params={'system': TObj()},
                 schema={'system.models': TColl(), 'system.dae.x': TArr(), 'system.dae.y': TArr(), 'system.dae.f': TArr(), 'system.dae.g': TArr(),
                         'system.dae.t': TReal()},
                 ghost_init={'order': [], 'refreshed': False},
                 calls={'system.set_var_arrays': rec('set_var_arrays'), E + '.get_inputs': gi},
                 loops={0: Loop(inv=[('inputs-of-every-model-refreshed', inv)], assume=[('reset', reset)],
                                frame=['$model', E + '.*', 'ghost:refreshed', 'ghost:in_iter'])},
                 ensures=[('views-re-pointed-first;nothing-else-called', lambda o, n, r: z3.BoolVal(n.st.ghost['order'] == ['set_var_arrays']))],
                 modifies=[])
    c.merge = False

    def pre_state(st):
        st.ghost.pop('in_iter', None)
        for p in ('x', 'y', 'f', 'g'):
            st.load('system.dae.' + p)
    c.pre_state = pre_state
    return c


def replay_snapshot(obligation=None, model=None, meta=None):
    """native: a snapshot taken in the middle of a transient (away from any event) and loaded again holds the same DAE values and the
    same Jacobian values, the saved system is left intact, and continuing from the loaded copy gives the same state as continuing in
    the same process"""
    import contextlib
    import io
    import logging
    import numpy as np
    import andes
    from kvxopt import matrix
    from andes.utils.snapshot import save_ss, load_ss
    logging.getLogger('andes').setLevel(logging.CRITICAL)

    def dense(dae):
        return {k: np.array(matrix(getattr(dae, k))) for k in ('fx', 'fy', 'gx', 'gy')}
    for t1 in (2.3, 0.5):
        with contextlib.redirect_stdout(io.StringIO()), contextlib.redirect_stderr(io.StringIO()):
            ss = andes.load(andes.get_case('kundur/kundur_full.xlsx'), default_config=True, no_output=True)
            ss.PFlow.run()
            ss.TDS.config.tf = t1
            ss.TDS.run()
            saved = {k: np.array(getattr(ss.dae, k)) for k in ('x', 'y', 'f', 'g', 't', 'Tf')}
            jac = dense(ss.dae)
            ss.dae.ts.idx_ptr = len(ss.dae.ts._ys) // 2          # as if half of the rows had been off-loaded to the output file already
            ss.dae._write_append = True
            series = {'t': np.array(ss.dae.ts.t), 'xy': np.array(ss.dae.ts.xy)}
            book = {'idx_ptr': ss.dae.ts.idx_ptr, '_write_append': True}
            buf = io.BytesIO()
            save_ss(buf, ss)
            buf.seek(0)
            s2 = load_ss(buf)
        where = {'case': 'kundur_full', 'snapshot at t': t1}
        for k, v in saved.items():
            for who, obj in (('the loaded system', s2), ('the saved system', ss)):
                w = np.array(getattr(obj.dae, k))
                if v.shape != w.shape or not np.array_equal(v, w):
                    d = np.max(np.abs(v - w)) if v.shape == w.shape else 'shape'
                    return {'confirmed': True, 'inputs': where, 'observed': 'dae.%s of %s differs after save_ss / load_ss (max difference %r)' % (k, who, d),
                            'native_cmd': 'save_ss(buffer, system); load_ss(buffer)'}
        # the stored series and its bookkeeping (what has been written to the output file so far) travel with the snapshot
        for who, obj in (('the loaded system', s2), ('the saved system', ss)):
            if getattr(obj.dae, 'ts', None) is None or not hasattr(obj.dae.ts, 't') or not hasattr(obj.dae.ts, 'xy'):
                return {'confirmed': True, 'inputs': where, 'observed': '%s has no stored series after save_ss / load_ss (dae.ts is %r)' % (who, getattr(obj.dae, 'ts', None)),
                        'native_cmd': 'save_ss(buffer, system); load_ss(buffer)'}
            for label, a_, b_ in (('time stamps of the stored series', series['t'], np.array(obj.dae.ts.t)), ('stored series', series['xy'], np.array(obj.dae.ts.xy))):
                if a_.shape != b_.shape or not np.array_equal(a_, b_):
                    return {'confirmed': True, 'inputs': where, 'observed': '%s of %s differ after save_ss / load_ss' % (label, who), 'native_cmd': 'save_ss(buffer, system); load_ss(buffer)'}
            for attr, want in book.items():
                got = getattr(obj.dae.ts, attr) if attr != '_write_append' else obj.dae._write_append
                if got != want:
                    return {'confirmed': True, 'inputs': where, 'observed': 'dae%s.%s of %s is %r after save_ss / load_ss, it was %r (rows already written to the output file would be written again)' % (
                        '' if attr == '_write_append' else '.ts', attr, who, got, want), 'native_cmd': 'save_ss(buffer, system); load_ss(buffer)'}
        for who, obj in (('the loaded system', s2), ('the saved system', ss)):
            try:
                j2 = dense(obj.dae)
            except Exception as e:      # noqa
                return {'confirmed': True, 'inputs': where, 'observed': 'Jacobian matrices of %s unusable after save_ss / load_ss: %r' % (who, e),
                        'native_cmd': 'save_ss(buffer, system); load_ss(buffer)'}
            for k in jac:
                if jac[k].shape != j2[k].shape or not np.array_equal(jac[k], j2[k]):
                    return {'confirmed': True, 'inputs': where, 'observed': 'dae.%s of %s does not hold the saved Jacobian values after save_ss / load_ss' % (k, who),
                            'native_cmd': 'save_ss(buffer, system); load_ss(buffer)'}
        with contextlib.redirect_stdout(io.StringIO()), contextlib.redirect_stderr(io.StringIO()):
            t2 = t1 + 0.7 if t1 > 2.0 else 2.3          # the early snapshot is continued through the line trip at 2 s, which is still pending in it
            ss.TDS.config.tf = t2
            s2.TDS.config.tf = t2
            ok1, ok2 = ss.TDS.run(), s2.TDS.run()
        if ok1 and not ok2:
            return {'confirmed': True, 'inputs': where, 'observed': 'continuing the loaded snapshot to t=%r fails (stops at t=%r) while the saved system continues' % (t2, float(s2.dae.t)),
                    'native_cmd': 'save_ss; load_ss; TDS.run() on both'}
        if ok1 and ok2:
            d = max(float(np.max(np.abs(ss.dae.x - s2.dae.x))), float(np.max(np.abs(ss.dae.y - s2.dae.y))))
            lu = [float(x) for x in np.asarray(ss.Line.u.v)]
            lu2 = [float(x) for x in np.asarray(s2.Line.u.v)]
            if lu != lu2:
                return {'confirmed': True, 'inputs': where, 'observed': 'after continuing to t=%r the line statuses differ: saved system %r, loaded snapshot %r (an event pending in the snapshot did not act)' % (t2, lu, lu2),
                        'native_cmd': 'save_ss; load_ss; TDS.run() on both'}
            if d > 1e-6 or ss.dae.t != s2.dae.t:
                return {'confirmed': True, 'inputs': where, 'observed': 'continued runs differ: max|d(x, y)| = %.3e, end times %r / %r' % (d, float(ss.dae.t), float(s2.dae.t)),
                        'native_cmd': 'save_ss; load_ss; TDS.run() on both'}
    return {'confirmed': False, 'tried': 2}


def bounded_reset(pack, pid):
    """bounded native stand-in: PFlow.run(); reset(); PFlow.run() reproduces the first solution on stock cases"""
    from contracts.packutil import native_guard
    name = '%s/%s:System.reset/bounded:reset-then-power-flow-reproduces-the-first-solution' % (pid, FS)
    # ieee14_conn: a bus that is out of service in the data -- the devices attached to it are switched off by setup, and again by the
    # setup inside reset(); kundur with bus 9 taken out of service after loading (alter: the input value changes too)
    cases = ['kundur/kundur_full.xlsx', '5bus/pjm5bus.xlsx', 'ieee14/ieee14_full.xlsx', 'ieee14/ieee14_conn.xlsx']

    def go():
        import logging
        import numpy as np
        import andes
        logging.getLogger('andes').setLevel(logging.CRITICAL)
        for case in cases:
            ss = andes.load(andes.get_case(case), default_config=True, no_output=True)
            ss.PFlow.run()
            y1 = ss.dae.y.copy()
            status = lambda: {m: [float(u) for u in ss.__dict__[m].u.v] for m in ('Bus', 'Line', 'PQ', 'PV', 'Slack', 'Shunt')}      # noqa
            u1 = status()
            ss.reset()
            ss.PFlow.run()
            if y1.shape != ss.dae.y.shape or np.max(np.abs(ss.dae.y - y1)) > 1e-9:
                return {'case': case, 'max|dy|': float(np.max(np.abs(ss.dae.y - y1))) if y1.shape == ss.dae.y.shape else 'shape',
                        'models whose in-service statuses differ after the reset': [m for m, v in status().items() if v != u1[m]]}
            if status() != u1:
                return {'case': case, 'models whose in-service statuses differ after the reset': [m for m, v in status().items() if v != u1[m]]}
        return None
    bad = native_guard(pack, name, go)
    pack.bounded.append({'function': 'System.reset', 'kind': 'bounded native (stock cases)', 'bound': ', '.join(cases), 'counted_as_proved': False})
    if bad:
        pack.violation(name, {'bounded': True, 'inputs': bad, 'native_cmd': 'PFlow.run(); System.reset(); PFlow.run(); compare dae.y'})


FSN = 'andes/utils/snapshot.py'
DAE_FIELDS = ('fx', 'fy', 'gx', 'gy', 'x', 'y', 'f', 'g', 't', 'Tf', 'ts', 'tpl')


def _snapshot_schema(root):
    from pyvc.symval import TOpaque
    return {'%s.dae.%s' % (root, n): TOpaque('Field_' + n) for n in DAE_FIELDS}


def save_ss_c(pid):
    """save_ss: the object handed to dill.dump is the system itself, whole -- at that moment every field of its DAE (values, residuals,
    the four Jacobian matrices, time, time constants, stored series, sparsity templates) is the one the caller passed in -- dumped once
    with recurse=True to the given stream or to a file opened for binary writing at the given path; the path is returned and the
    system is left as it was."""
    from pyvc.symval import TOpaque, Opaque, Func, Module

    def whole(ex, st):
        ok = True
        for n in DAE_FIELDS:
            a, b = st.load('system.dae.' + n), ex.old.load('system.dae.' + n)
            ok = ok and isinstance(a, Opaque) and isinstance(b, Opaque) and a.term.eq(b.term)
        return ok

    def dump(ex, st, args, kw, node):
        from pyvc.symval import Obj
        target = args[1] if len(args) > 1 else None
        is_file = isinstance(target, Mark) and target.kind == 'file' and target.data[0] is st.env['path'] and target.data[1] == 'wb'
        ok_target = z3.If(st.ghost['stream'], z3.BoolVal(target is st.env['path']), z3.BoolVal(bool(is_file)))
        ex.oblige(st, 'pre@call:dill.dump(system,<the stream or the file opened "wb" at path>,recurse=True)',
                  z3.And(z3.BoolVal(bool(isinstance(args[0], Obj) and args[0].path == 'system' and kw.get('recurse') is True)), ok_target), {})
        ex.oblige(st, 'pre@call:dill.dump:every-DAE-field-of-the-system-is-in-place-when-it-is-dumped', z3.BoolVal(bool(whole(ex, st))), {})
        st.ghost['dumps'] = st.ghost['dumps'] + 1
        return None

    def hasattr_(ex, st, args, kw, node):
        b = fresh('is_stream', z3.BoolSort())
        st.ghost['stream'] = b
        return b

    def open_(ex, st, args, kw, node):
        return Mark('file', args[0], args[1] if len(args) > 1 else 'r')

    def post(old, new, res):
        return z3.BoolVal(bool(new.st.ghost['dumps'] == 1 and res is old.st.env['path'] and whole_new(new)))

    def whole_new(new):
        ok = True
        for n in DAE_FIELDS:
            a, b = new.st.load('system.dae.' + n), new.ex.old.load('system.dae.' + n)
            ok = ok and a.term.eq(b.term)
        return ok
    c = Contract(FSN, 'save_ss', pid=pid, params={'path': TOpaque('PathOrStream'), 'system': TObj()}, schema=_snapshot_schema('system'),
                 ghost_init={'dumps': 0, 'stream': None},
                 calls={'system.remove_pycapsule': lambda ex, st, a, k, n: None, 'hasattr': hasattr_, 'dill.dump': dump, 'open': open_},
                 globals_={'hasattr': Func('hasattr'), 'dill': Module('dill'), 'open': Func('open')},
                 ensures=[('dumped-once,whole;returns-path;system-left-as-it-was', post)], modifies=[], static=True)
    c.merge = False
    return c


def load_ss_c(pid):
    """load_ss: the generated code is made importable first, the object is read by dill.load from the stream / the file opened "rb" at
    path, its view arrays are re-pointed (fix_view_arrays, separate contract), and that object is returned with every DAE field as it
    was read (in particular the Jacobian matrices with the values they were saved with)."""
    from pyvc.symval import TOpaque, Opaque, Func, Module, Obj

    def rec(tag, ret=None):
        def h(ex, st, args, kw, node):
            st.ghost['order'] = st.ghost['order'] + [tag]
            if tag == 'fix_view_arrays':
                ex.oblige(st, 'pre@call:fix_view_arrays(<the loaded system>)', z3.BoolVal(bool(args and isinstance(args[0], Obj) and args[0].path == 'loaded')), {})
            return ret
        return h

    def load(ex, st, args, kw, node):
        src = args[0]
        is_file = isinstance(src, Mark) and src.kind == 'file' and src.data[0] is st.env['path'] and src.data[1] == 'rb'
        ex.oblige(st, 'pre@call:dill.load(<the stream or the file opened "rb" at path>)',
                  z3.If(st.ghost['stream'], z3.BoolVal(src is st.env['path']), z3.BoolVal(bool(is_file))), {})
        st.ghost['order'] = st.ghost['order'] + ['load']
        return Obj('loaded')

    def hasattr_(ex, st, args, kw, node):
        b = fresh('is_stream', z3.BoolSort())
        st.ghost['stream'] = b
        return b

    def open_(ex, st, args, kw, node):
        return Mark('file', args[0], args[1] if len(args) > 1 else 'r')

    def post(old, new, res):
        ok = isinstance(res, Obj) and res.path == 'loaded' and new.st.ghost['order'] == ['import_pycode', 'load', 'fix_view_arrays']
        for n in DAE_FIELDS:
            a, b = new.st.load('loaded.dae.' + n), new.ex.old.load('loaded.dae.' + n)
            ok = ok and isinstance(a, Opaque) and a.term.eq(b.term)
        return z3.BoolVal(bool(ok))
    c = Contract(FSN, 'load_ss', pid=pid, params={'path': TOpaque('PathOrStream')}, schema=_snapshot_schema('loaded'),
                 ghost_init={'order': [], 'stream': None},
                 calls={'import_pycode': rec('import_pycode'), 'fix_view_arrays': rec('fix_view_arrays'), 'hasattr': hasattr_, 'dill.load': load, 'open': open_},
                 globals_={'hasattr': Func('hasattr'), 'dill': Module('dill'), 'open': Func('open'), 'import_pycode': Func('import_pycode'),
                           'fix_view_arrays': Func('fix_view_arrays')},
                 ensures=[('code-importable,then-loaded,then-views-fixed;returns-the-loaded-object-with-its-DAE-fields-as-read', post)], modifies=[], static=True)
    c.merge = False
    return c

replay_snapshot.real_system = True       # drives the real program on stock inputs: a crash inside repository code is a confirmed failure


RESIZE = (('x', 'n', 'zeros'), ('y', 'm', 'zeros'), ('z', 'o', 'zeros'), ('f', 'n', 'zeros'), ('g', 'm', 'zeros'), ('h', 'p', 'zeros'), ('i', 'q', 'zeros'),
          ('Tf', 'n', 'ones'))


def dae_resize_arrays(pid):
    """DAE.resize_arrays: every vector (x, y, z, f, g, h, i, Tf) becomes _extend_or_slice(its old self, its size[, ones for Tf]) --
    in particular the states solved by the power flow survive the extension for the dynamic models; nothing else is written."""
    from pyvc.symval import ArrC, Ref, I, R

    def ext(ex, st, args, kw, node):
        arr, size = args[0], args[1]
        fill = kw.get('fill_func', args[2] if len(args) > 2 else None)
        r = st.new_ref(ArrC(fresh('ext', z3.ArraySort(I, R)), to_z3(size), None), 'ext')
        st.ghost['ext'] = st.ghost['ext'] + [(r.loc, arr.loc if isinstance(arr, Ref) else None, to_z3(size), fill)]
        return r

    def post(old, new, res):
        calls = {c[0]: c for c in new.st.ghost['ext']}
        for field, size, fill in RESIZE:
            now = new.get('self.' + field)
            c = calls.get(getattr(now, 'loc', None))
            if c is None or c[1] != old.get('self.' + field).loc or not c[2].eq(old.z('self.' + size)):
                return z3.BoolVal(False)
            name = getattr(c[3], 'name', None) or ('' if c[3] is None else repr(c[3]))
            if (fill == 'zeros') != (c[3] is None or name.endswith('zeros')) or (fill == 'ones' and not name.endswith('ones')):
                return z3.BoolVal(False)
        return z3.BoolVal(True)
    sch = {}
    for field, size, _ in RESIZE:
        sch['self.' + field] = TArr()
        sch['self.' + size] = TInt()
    return Contract(FD, 'DAE.resize_arrays', pid=pid, params={'self': TObj()}, schema=sch, ghost_init={'ext': []},
                    calls={'self._extend_or_slice': ext},
                    ensures=[('every-vector=_extend_or_slice(old-vector,its-size)(ones-for-Tf):earlier-entries-survive', post)],
                    modifies=['self.' + f for f, _, _ in RESIZE])


def replay_resize_arrays(obligation=None, model=None, meta=None):
    """native run of the real DAE.resize_arrays / _extend_or_slice on a stub: vectors that already hold values (states and variables
    solved by the power flow) are grown, kept or shrunk -- the common prefix is kept, new entries are 0 (1 for Tf)"""
    import numpy as np
    from andes.variables.dae import DAE
    from contracts.packutil import Stub
    n = 0
    for n0, n1, m0, m1 in ((0, 3, 4, 6), (2, 5, 4, 6), (2, 2, 4, 4), (3, 1, 4, 2), (5, 9, 0, 3)):
        vec = lambda k, base: np.arange(k, dtype=float) + base      # noqa
        old = dict(x=vec(n0, 0.5), f=vec(n0, 7.5), Tf=vec(n0, 2.0), y=vec(m0, 10.5), g=vec(m0, 20.5), z=vec(0, 0), h=vec(0, 0), i=vec(0, 0))
        stub = Stub(DAE, n=n1, m=m1, o=0, p=0, q=0, **{k: v.copy() for k, v in old.items()})
        n += 1
        DAE.resize_arrays(stub)
        for field, size in (('x', n1), ('f', n1), ('Tf', n1), ('y', m1), ('g', m1)):
            keep = min(len(old[field]), size)
            want = np.concatenate([old[field][:keep], (np.ones if field == 'Tf' else np.zeros)(size - keep)])
            got = np.asarray(getattr(stub, field), dtype=float)
            if got.shape != want.shape or not np.array_equal(got, want):
                return {'confirmed': True, 'inputs': {'sizes before (n, m)': (n0, m0), 'sizes after (n, m)': (n1, m1), 'dae.%s before' % field: old[field].tolist()},
                        'observed': 'dae.%s after resize_arrays is %r; the entries it had survive and new ones are %s: %r' % (
                            field, got.tolist(), '1' if field == 'Tf' else '0', want.tolist()),
                        'native_cmd': 'DAE.resize_arrays(stub)'}
    return {'confirmed': False, 'tried': n}


def dae_extend_or_slice(pid, fill):
    """DAE._extend_or_slice(array, new_size[, fill_func]): length new_size; the common prefix is kept; new entries are the fill value."""
    from pyvc.symval import ArrC, Ref, I, R, Func, TConst
    N0, N1 = fresh('len', I), fresh('new_size', I)
    FILL = 1 if fill == 'ones' else 0

    def fill_func(ex, st, args, kw, node):
        k = to_z3(args[0])
        return st.new_ref(ArrC(z3.K(I, z3.RealVal(FILL)), k, None), 'fill')

    def append(ex, st, args, kw, node):
        a, b = st.content(args[0]), st.content(args[1])
        k = fresh('k', I)
        return st.new_ref(ArrC(z3.Lambda([k], z3.If(k < a.n, a.vals[k], b.vals[k - a.n])), a.n + b.n, None), 'append')

    def post(old, new, res):
        r = new.st.content(res)
        a = old.st.content(old.local('array'))
        k = fresh('k', I)
        return z3.And(r.n == N1, z3.ForAll([k], z3.Implies(z3.And(k >= 0, k < N1), r.vals[k] == z3.If(k < N0, a.vals[k], z3.RealVal(FILL)))))
    params = {'self': TObj(), 'array': TArr(n=N0), 'new_size': TInt()}
    calls = {'np.append': append, 'fill_func': fill_func, 'np.zeros': fill_func}
    if fill == 'ones':
        params['fill_func'] = Func('fill_func')
    c = Contract(FD, 'DAE._extend_or_slice', pid=pid, params=params, schema={},
                 requires=[('sizes', lambda v: z3.And(N0 >= 0, N1 >= 0, to_z3(v.local('new_size')) == N1))],
                 calls=calls, ensures=[('length-new_size;common-prefix-kept;new-entries-%s' % ('one' if FILL else 'zero'), post)], modifies=[])
    c.tag = fill
    return c
