"""Call-sequence contracts: the evaluation order of one residual round (PFlow / TDS), the System delegation wrappers, call_models,
reset.  Each callee is recorded with the arguments that matter; the postcondition is the exact sequence."""
import z3

from pyvc.symex import Contract, Loop, to_z3, as_real
from pyvc.symval import (TArr, TObj, TInt, TReal, TBool, TColl, TSeq, TStr, TOpaque, TConst, fresh, I, R, Bo, Ref, Mark, NR, Opaque, Func,
                         Unsupported)

FP = 'andes/routines/pflow.py'
FT = 'andes/routines/tds.py'
FS = 'andes/system.py'
FC = 'andes/core/common.py'


def _same(a, b):
    if a is b:
        return True
    if isinstance(a, Opaque) and isinstance(b, Opaque):
        return a.term.eq(b.term)
    if isinstance(a, NR) and isinstance(b, NR):
        return z3.is_expr(a.val) and z3.is_expr(b.val) and a.val.eq(b.val)
    if z3.is_expr(a) and z3.is_expr(b):
        return a.eq(b)
    if z3.is_expr(a) or z3.is_expr(b) or isinstance(a, (NR, Opaque)) or isinstance(b, (NR, Opaque)):
        return False
    return a == b


def _rec(tag, want_args=None):
    """hook recording ``tag`` and whether the (keyword or positional) arguments are the expected values (callables of the state)"""
    def h(ex, st, args, kw, node):
        ok = True
        if want_args is not None:
            got = dict(kw)
            for i, a in enumerate(args):
                got[i] = a
            for key, fn in want_args.items():
                alts = key if isinstance(key, tuple) else (key,)
                val = next((got[k] for k in alts if k in got), '<absent>')
                ok = ok and bool(_same(val, fn(st)))
        st.ghost['order'] = st.ghost['order'] + [(tag, ok)]
        return None
    return h


def _seq_post(expected):
    def post(old, new, res):
        return z3.BoolVal(new.st.ghost['order'] == [(t, True) for t in expected])
    return post


def pflow_fg_update(pid):
    """PFlow.fg_update: clear residuals; limiter flags from the variables (with this iteration's count and last mismatch);
    variable services; f; g; equation-dependent limiters; collect into dae -- in this order, each once, on self.models."""
    mdl = lambda st: st.load('self.models')       # noqa
    exp = ['clear_fg', 'l_update_var', 's_update_var', 'f_update', 'g_update', 'l_update_eq', 'fg_to_dae']
    return Contract(FP, 'PFlow.fg_update', pid=pid, params={'self': TObj()},
                    schema={'self.models': TOpaque('Models'), 'self.niter': TInt(), 'self.mis': TSeq(minlen=1), 'self.system.dae.t': TReal()},
                    ghost_init={'order': []},
                    calls={'self.system.dae.clear_fg': _rec('clear_fg'),
                           'self.system.l_update_var': _rec('l_update_var', {(0, 'models'): mdl, 'niter': lambda st: st.load('self.niter')}),
                           'self.system.s_update_var': _rec('s_update_var', {(0, 'models'): mdl}),
                           'self.system.f_update': _rec('f_update', {(0, 'models'): mdl}),
                           'self.system.g_update': _rec('g_update', {(0, 'models'): mdl}),
                           'self.system.l_update_eq': _rec('l_update_eq', {(0, 'models'): mdl}),
                           'self.system.fg_to_dae': _rec('fg_to_dae')},
                    ensures=[('one-residual-round:' + '>'.join(exp), _seq_post(exp))], modifies=[])


def tds_fg_update(pid):
    """TDS.fg_update: clear residuals; variable services; limiter flags from the variables; f; equation-dependent limiters
    (anti-windup, BEFORE g: algebraic equations read the pegged states); g; collect into dae."""
    mdl = lambda st: st.env['models']       # noqa
    exp = ['clear_fg', 's_update_var', 'l_update_var', 'f_update', 'l_update_eq', 'g_update', 'fg_to_dae']
    return Contract(FT, 'TDS.fg_update', pid=pid, params={'self': TObj(), 'models': TOpaque('Models'), 'init': TBool()},
                    schema={'self.niter': TInt(), 'self.mis': TSeq(minlen=1), 'self.system.dae.t': TReal()},
                    ghost_init={'order': []},
                    calls={'self.system.dae.clear_fg': _rec('clear_fg'),
                           'self.system.s_update_var': _rec('s_update_var', {(0, 'models'): mdl}),
                           'self.system.l_update_var': _rec('l_update_var', {(0, 'models'): mdl, 'niter': lambda st: st.load('self.niter')}),
                           'self.system.f_update': _rec('f_update', {(0, 'models'): mdl}),
                           'self.system.l_update_eq': _rec('l_update_eq', {(0, 'models'): mdl, 'init': lambda st: st.env['init'],
                                                                           'niter': lambda st: st.load('self.niter')}),
                           'self.system.g_update': _rec('g_update', {(0, 'models'): mdl}),
                           'self.system.fg_to_dae': _rec('fg_to_dae')},
                    ensures=[('one-residual-round:' + '>'.join(exp), _seq_post(exp))], modifies=[])


def delegation(pid, name, method, extra=None):
    """System.<name>: delegates to call_models(<method of the models>, the models given, ...) exactly once."""
    params = {'self': TObj(), 'models': TOpaque('Models')}
    want = {0: lambda st: method, 1: lambda st: st.env['models']}
    sch = {'self.dae.t': TReal()}
    if name == 'l_update_var':
        params.update({'niter': TInt(), 'err': TReal()})
        want.update({'dae_t': lambda st: st.load('self.dae.t'), 'niter': lambda st: st.env['niter'], 'err': lambda st: st.env['err']})
    if name == 'l_update_eq':
        params.update({'init': TBool(), 'niter': TInt()})
        want.update({'init': lambda st: st.env['init'], 'niter': lambda st: st.env['niter']})
    exp = ['call_models']
    calls = {'self.call_models': _rec('call_models', want), 'logger.error': lambda ex, st, a, k, n: None}
    if name == 'e_clear':
        exp = ['clear_fg', 'call_models']
        calls['self.dae.clear_fg'] = _rec('clear_fg')
    c = Contract(FS, 'System.' + name, pid=pid, params=params, schema=sch, ghost_init={'order': []}, calls=calls,
                 ensures=[('delegates-to-call_models(%s,models,...)-once' % method, _seq_post(exp))], modifies=[])
    c.tag = name
    return c


def call_models(pid):
    """System.call_models: the named method of every model handed in is called exactly once with the arguments given."""
    E = 'models.$e'

    def getattr_h(ex, st, args, kw, node):
        ok = isinstance(args[0], type(st.env['mdl'])) and getattr(args[0], 'path', None) == E and _same(args[1], st.env['method'])
        return Mark('bound-method', bool(ok))

    def call_value(ex, st, args, kw, node):
        return NotImplemented

    def reset(v):
        v.st.ghost['n'] = 0
        v.st.ghost['in_iter'] = True
        return True

    def once(v):
        if not v.st.ghost.get('in_iter'):
            return True
        return z3.BoolVal(v.st.ghost['n'] == 1)

    def invoke(ex, st, args, kw, node):
        base = args[0]
        # *args is modelled as the empty tuple (nothing to pass on), **kwargs as one opaque pack that must be passed on as it is
        ok = isinstance(base, Mark) and base.kind == 'bound-method' and base.data[0] and len(args) == 1 and kw.get('**') is st.env['kwargs'] \
            and len(kw) == 1
        st.ghost['n'] = st.ghost['n'] + (1 if ok else 100)
        return Opaque(fresh('ret', z3.DeclareSort('Any')))
    c = Contract(FS, 'System.call_models', pid=pid, params={'self': TObj(), 'method': TStr(), 'models': TColl()},
                 schema={'models': TColl(), 'self.config.save_stats': TConst(False)}, ghost_init={'n': 0},
                 calls={'getattr': getattr_h, 'OrderedDict': lambda ex, st, a, k, n: Mark('ret'), '__setitem__': lambda ex, st, a, k, n: None,
                        '<mark>.__call__': invoke},
                 globals_={'getattr': Func('getattr'), 'OrderedDict': Func('OrderedDict')},
                 loops={0: Loop(inv=[('method-of-this-model-called-exactly-once-with-the-given-arguments', once)], assume=[('reset', reset)],
                                frame=['$name', '$mdl', E + '.*', 'ghost:n', 'ghost:in_iter'])},
                 ensures=[], modifies=[])
    c.star_ok = True
    c.merge = False

    def pre_state(st):
        st.ghost.pop('in_iter', None)
    c.pre_state = pre_state
    return c


def system_reset(pid):
    """System.reset (TDS not initialised): DAE reset, addresses reset, equation arrays cleared, input parameter values of every model
    restored (no selection of models), then set-up again -- in this order."""
    exp = ['dae.reset', 'call_models(a_reset)', 'e_clear', '_p_restore', 'setup']

    def post(old, new, res):
        return z3.Implies(z3.Not(old.z('self.TDS.initialized')),
                          z3.BoolVal(new.st.ghost['order'] == [(t, True) for t in exp] and new.st.ghost.get('flag_before_setup') is True))

    def setup(ex, st, args, kw, node):
        st.ghost['flag_before_setup'] = st.load('self.is_setup') is False
        st.ghost['order'] = st.ghost['order'] + [('setup', True)]
        return True
    mdl = lambda st: st.load('self.models')       # noqa

    def p_restore_all(ex, st, args, kw, node):
        # the input values of EVERY model are restored: called without a selection, or with all models
        given = list(args) + list(kw.values())
        ok = not given or (len(given) == 1 and _same(given[0], st.load('self.models')))
        st.ghost['order'] = st.ghost['order'] + [('_p_restore', bool(ok))]
        return None
    return Contract(FS, 'System.reset', pid=pid, params={'self': TObj(), 'force': TConst(False)},
                    schema={'self.TDS.initialized': TBool(), 'self.models': TOpaque('Models'), 'self.is_setup': TBool()},
                    ghost_init={'order': []},
                    calls={'self.dae.reset': _rec('dae.reset'),
                           'self.call_models': _rec('call_models(a_reset)', {0: lambda st: 'a_reset', (1, 'models'): mdl}),
                           'self.e_clear': _rec('e_clear', {(0, 'models'): mdl}), 'self._p_restore': p_restore_all, 'self.setup': setup,
                           'logger.error': lambda ex, st, a, k, n: None},
                    ensures=[('dae.reset>a_reset>e_clear>_p_restore>is_setup=False>setup', post)],
                    modifies=['self.is_setup'])


def p_restore(pid):
    """System._p_restore: restore() of every numeric parameter of every model, once."""
    E = 'self.models.$e.num_params.$e'

    def reset(v):
        v.st.ghost['n'] = 0
        v.st.ghost['in_iter'] = True
        return True

    def once(v):
        if not v.st.ghost.get('in_iter'):
            return True
        return z3.BoolVal(v.st.ghost['n'] == 1)

    def restore(ex, st, args, kw, node):
        st.ghost['n'] = st.ghost['n'] + 1
        return None
    c = Contract(FS, 'System._p_restore', pid=pid, params={'self': TObj()},
                 schema={'self.models': TColl(), 'self.models.$e.num_params': TColl()}, ghost_init={'n': 0},
                 calls={E + '.restore': restore},
                 loops={0: Loop(inv=[], frame=['$model', '$param', 'self.models.$e.*', 'ghost:n', 'ghost:in_iter']),
                        1: Loop(inv=[('restore()-once-per-parameter', once)], assume=[('reset', reset)],
                                frame=['$param', E + '.*', 'ghost:n', 'ghost:in_iter'])},
                 ensures=[], modifies=[])
    c.merge = False

    def pre_state(st):
        st.ghost.pop('in_iter', None)
    c.pre_state = pre_state
    return c


def _shared_names(default_full):
    """the module-level name tuples of andes.shared as the working tree defines them (read natively at run time)"""
    try:
        import andes.shared as SH
        return {'jac_full_names': tuple(SH.jac_full_names), 'jac_names': tuple(SH.jac_names), 'jac_types': tuple(SH.jac_types)}
    except Exception:      # noqa
        return {'jac_full_names': tuple(default_full)}


def replay_jactriplet(obligation=None, model=None, meta=None):
    """native run of the real JacTriplet: entries appended under every full Jacobian name (variable and constant parts), then cleared:
    every list of every name is empty afterwards, and appending again files one entry per name"""
    import numpy as np
    from andes.core.common import JacTriplet
    full = ('fx', 'fxc', 'fy', 'fyc', 'gx', 'gxc', 'gy', 'gyc')
    t = JacTriplet()
    for rnd in range(3):
        for k, name in enumerate(full):
            t.append_ijv(name, np.array([k]), np.array([k + 1]), np.array([float(k)]) if name.endswith('c') else np.array([0.0]))
        sizes = {name: (len(t.ijac[name]), len(t.jjac[name]), len(t.vjac[name])) for name in full}
        if any(v != (1, 1, 1) for v in sizes.values()):
            return {'confirmed': True, 'inputs': {'sequence': 'append one entry under each of %r, clear_ijv(), repeated; round %d' % (list(full), rnd + 1)},
                    'observed': 'entries stored per name (rows, cols, values): %r; after a clear each name holds exactly the one entry appended since' % (sizes,),
                    'native_cmd': 'JacTriplet.append_ijv / clear_ijv'}
        t.clear_ijv()
        left = {name: len(t.ijac[name]) + len(t.jjac[name]) + len(t.vjac[name]) for name in full}
        if any(left.values()):
            return {'confirmed': True, 'inputs': {'sequence': 'append one entry under each of %r, then clear_ijv()' % (list(full),)},
                    'observed': 'entries left after clear_ijv(): %r' % ({k: v for k, v in left.items() if v},), 'native_cmd': 'JacTriplet.append_ijv / clear_ijv'}
    return {'confirmed': False, 'tried': 3}


def jactriplet(pid):
    """JacTriplet.append_ijv / clear_ijv / ijv / zip_ijv: rows, columns and values are filed under their own lists of the named
    Jacobian, in lockstep."""
    from pyvc.symval import DictC, ListC
    JAC_FULL = ('fx', 'fxc', 'fy', 'fyc', 'gx', 'gxc', 'gy', 'gyc')
    out = []

    def pre_state(st):
        for a in ('ijac', 'jjac', 'vjac'):
            st.heap['self.' + a] = st.new_ref(DictC({j: st.new_ref(ListC([Mark('old-' + a)]), a + j) for j in JAC_FULL}), a)

    def post_append(old, new, res):
        ok = True
        for a, v in (('ijac', 'ii'), ('jjac', 'jj'), ('vjac', 'vv')):
            lst = new.st.content(new.st.content(new.st.load('self.' + a)).items['gxc']).items
            ok = ok and len(lst) == 2 and lst[0] == Mark('old-' + a) and lst[1] is old.st.env[v]
            for j in JAC_FULL:
                if j != 'gxc':
                    ok = ok and len(new.st.content(new.st.content(new.st.load('self.' + a)).items[j]).items) == 1
        return z3.BoolVal(bool(ok))
    c = Contract(FC, 'JacTriplet.append_ijv', pid=pid,
                 params={'self': TObj(), 'j_full_name': TConst('gxc'), 'ii': TArr(kind='int'), 'jj': TArr(kind='int'), 'vv': TArr()}, schema={},
                 ensures=[('rows->ijac[name],cols->jjac[name],values->vjac[name];appended;other-names-untouched', post_append)],
                 modifies=['self.*'])
    c.pre_state = pre_state
    out.append(c)

    def post_clear(old, new, res):
        ok = True
        for a in ('ijac', 'jjac', 'vjac'):
            d = new.st.content(new.st.load('self.' + a)).items
            ok = ok and all(j in d and isinstance(d[j], Ref) and new.st.content(d[j]).items == [] for j in JAC_FULL)
        return z3.BoolVal(bool(ok))
    c2 = Contract(FC, 'JacTriplet.clear_ijv', pid=pid, params={'self': TObj()}, schema={},
                  calls={'list': lambda ex, st, a, k, n: st.new_ref(ListC([]), 'l')}, globals_=_shared_names(JAC_FULL),
                  ensures=[('every-list-of-every-full-jacobian-name-is-emptied', post_clear)], modifies=['self.*'])
    c2.pre_state = pre_state
    out.append(c2)

    def post_ijv(old, new, res):
        d = lambda a: new.st.content(new.st.load('self.' + a)).items['fy']     # noqa
        return z3.BoolVal(isinstance(res, tuple) and len(res) == 3 and res[0] is d('ijac') and res[1] is d('jjac') and res[2] is d('vjac'))
    c3 = Contract(FC, 'JacTriplet.ijv', pid=pid, params={'self': TObj(), 'j_full_name': TConst('fy')}, schema={},
                  ensures=[('returns-(rows,cols,values)-of-that-name-in-this-order', post_ijv)], modifies=[])
    c3.pre_state = pre_state
    out.append(c3)
    return out


FM = 'andes/core/model/model.py'


def model_l_update_var(pid):
    """Model.l_update_var: check_var(dae_t, niter, err) of every discrete component that has one, exactly once, with the values
    given."""
    E = 'self.discrete.$e'

    def reset(v):
        v.st.ghost['n'] = 0
        v.st.ghost['in_iter'] = True
        return True

    def once(v):
        if not v.st.ghost.get('in_iter'):
            return True
        n = v.st.ghost['n']
        return z3.If(v.z(E + '.has_check_var'), z3.BoolVal(n == 1), z3.BoolVal(n == 0))

    def check_var(ex, st, args, kw, node):
        ok = not args and _same(kw.get('dae_t'), st.env['dae_t']) and _same(kw.get('niter'), st.env['niter']) and _same(kw.get('err'), st.env['err'])
        st.ghost['n'] = st.ghost['n'] + (1 if ok else 100)
        return None
    c = Contract(FM, 'Model.l_update_var', pid=pid, params={'self': TObj(), 'dae_t': TReal(), 'niter': TInt(), 'err': TReal()},
                 schema={'self.discrete': TColl(), E + '.has_check_var': TBool()}, ghost_init={'n': 0},
                 calls={E + '.check_var': check_var},
                 loops={0: Loop(inv=[('check_var(dae_t,niter,err)-once-iff-the-component-has-one', once)], assume=[('reset', reset)],
                                frame=['$instance', E + '.*', 'ghost:n', 'ghost:in_iter'])},
                 ensures=[], modifies=[])
    c.merge = False

    def pre_state(st):
        st.ghost.pop('in_iter', None)
    c.pre_state = pre_state
    return c


def model_l_check_eq(pid, init):
    """Model.l_check_eq: check_eq of every discrete component that has one, exactly once: with the adjust flags of the model
    configuration and niter=0 during initialisation, with the iteration count otherwise."""
    E = 'self.discrete.$e'

    def reset(v):
        v.st.ghost['n'] = 0
        v.st.ghost['in_iter'] = True
        return True

    def once(v):
        if not v.st.ghost.get('in_iter'):
            return True
        n = v.st.ghost['n']
        return z3.If(v.z(E + '.has_check_eq'), z3.BoolVal(n == 1), z3.BoolVal(n == 0))

    def check_eq(ex, st, args, kw, node):
        if init:
            ok = (not args and _same(kw.get('allow_adjust'), st.load('self.config.allow_adjust'))
                  and _same(kw.get('adjust_lower'), st.load('self.config.adjust_lower'))
                  and _same(kw.get('adjust_upper'), st.load('self.config.adjust_upper')) and kw.get('niter') == 0)
        else:
            ok = not args and set(kw) == {'niter'} and _same(kw.get('niter'), st.env['niter'])
        st.ghost['n'] = st.ghost['n'] + (1 if ok else 100)
        return None
    lp = Loop(inv=[('check_eq-once-iff-the-component-has-one,with-the-%s-arguments' % ('initialisation' if init else 'iteration'), once)],
              assume=[('reset', reset)], frame=['$instance', E + '.*', 'ghost:n', 'ghost:in_iter'])
    c = Contract(FM, 'Model.l_check_eq', pid=pid, params={'self': TObj(), 'init': TConst(init), 'niter': TInt()},
                 schema={'self.discrete': TColl(), E + '.has_check_eq': TBool(), 'self.config.allow_adjust': TBool(),
                         'self.config.adjust_lower': TBool(), 'self.config.adjust_upper': TBool()}, ghost_init={'n': 0},
                 calls={E + '.check_eq': check_eq}, loops={0: lp, 1: lp}, ensures=[], modifies=[])
    c.merge = False
    c.tag = 'init' if init else 'iteration'

    def pre_state(st):
        st.ghost.pop('in_iter', None)
    c.pre_state = pre_state
    return c


def model_init_head(pid):
    """Model.init, up to the selection of the initialisation flag: for every routine and whatever the model has been through before,
    the constant services are re-evaluated from the current parameters (s_update) and then the variable services (s_update_var) --
    so that a second run after a parameter change works on the data as they are now."""
    def rec(tag):
        def h(ex, st, args, kw, node):
            st.ghost['order'] = st.ghost['order'] + [tag]
            return None
        return h

    def post(old, new, res):
        return z3.BoolVal(new.st.ghost['order'] == ['s_update', 's_update_var'])
    c = Contract('andes/core/model/model.py', 'Model.init', pid=pid, params={'self': TObj(), 'routine': TStr()},
                 schema={'self.flags.initialized': TBool(), 'self.flags.pflow': TBool(), 'self.flags.tds': TBool()}, ghost_init={'order': []},
                 calls={'self.s_update': rec('s_update'), 'self.s_update_var': rec('s_update_var')},
                 ensures=[('constant-services-then-variable-services-are-re-evaluated-on-every-call', post)], modifies=[])
    c.body_to = 'flag_name = '
    c.merge = False
    c.tag = 'head'
    return c


def replay_rerun_after_alter(obligation=None, model=None, meta=None):
    """native: power flow, parameter change through alter(), power flow again on the same object must give the solution of a fresh
    system in which the same change was made before the first run"""
    import contextlib
    import io
    import logging
    import numpy as np
    import andes
    logging.getLogger('andes').setLevel(logging.CRITICAL)
    case = andes.get_case('ieee14/ieee14.raw')

    def changes(ss):
        return [('Line', 'x', ss.Line.idx.v[3], 1.5), ('Line', 'tap', ss.Line.idx.v[7], 1.04), ('Line', 'b', ss.Line.idx.v[0], 2.0),
                ('PV', 'p0', ss.PV.idx.v[0], 1.25), ('PQ', 'p0', ss.PQ.idx.v[2], 1.3), ('PV', 'v0', ss.PV.idx.v[1], 0.99)]
    with contextlib.redirect_stdout(io.StringIO()), contextlib.redirect_stderr(io.StringIO()):
        probe = andes.load(case, default_config=True, no_output=True)
        todo = changes(probe)
    n = 0
    for mdl, par, idx, factor in todo:
        n += 1
        with contextlib.redirect_stdout(io.StringIO()), contextlib.redirect_stderr(io.StringIO()):
            a = andes.load(case, default_config=True, no_output=True)
            a.PFlow.run()
            new = factor * a.__dict__[mdl].get(par, idx, 'vin') if par != 'v0' else factor
            a.__dict__[mdl].alter(par, idx, new)
            ok_a = a.PFlow.run()
            b = andes.load(case, default_config=True, no_output=True)
            b.__dict__[mdl].alter(par, idx, new)
            ok_b = b.PFlow.run()
        if not (ok_a and ok_b):
            continue
        d = float(np.max(np.abs(a.dae.y - b.dae.y)))
        if d > 1e-6:
            return {'confirmed': True, 'inputs': {'case': 'ieee14.raw', 'sequence': 'PFlow.run(); %s.alter(%r, %r, %r); PFlow.run()' % (mdl, par, idx, new)},
                    'observed': 'the second solution differs by %.3e from the solution of a fresh system with the same change made before its first run' % d,
                    'native_cmd': 'contracts/fn_sequence.py replay_rerun_after_alter'}
    return {'confirmed': False, 'tried': n}


def store_tf(pid):
    """System._store_tf: for every state (or external state) of every model handed in that declares a time constant, the entries of
    dae.Tf at the addresses of that state hold the CURRENT values of the time constant afterwards; entries at other addresses are kept."""
    from pyvc.symval import TOptional, MaybeNone
    EM = 'models.$e'
    EV = EM + '.cache.states_and_ext.$e'

    def snap(v):
        v.st.ghost['Tf0'] = v.st.content(v.st.load('self.dae.Tf')).vals
        v.st.ghost['in_iter'] = True
        return z3.BoolVal(True)

    def distinct(v):
        a = v.st.content(v.st.load(EV + '.a'))
        p, q = fresh('p', I), fresh('q', I)
        tf = v.st.content(v.st.load('self.dae.Tf'))
        return z3.And(z3.ForAll([p, q], z3.Implies(z3.And(p >= 0, p < q, q < a.n), a.vals[p] != a.vals[q])),
                      z3.ForAll([p], z3.Implies(z3.And(p >= 0, p < a.n), z3.And(a.vals[p] >= 0, a.vals[p] < tf.n))))

    def inv(v):
        if not v.st.ghost.get('in_iter'):
            return True
        a = v.st.content(v.st.load(EV + '.a'))
        tf = v.st.content(v.st.load('self.dae.Tf'))
        tf0 = v.st.ghost['Tf0']
        k, j = fresh('k', I), fresh('j', I)
        tv = v.st.content(v.st.load(EV + '.t_const.v'))
        written = z3.And(tv.n == a.n, z3.ForAll([k], z3.Implies(z3.And(k >= 0, k < a.n), tf.vals[z3.ToInt(a.vals[k])] == tv.vals[k])))
        kept_else = z3.ForAll([j], z3.Or(tf.vals[j] == tf0[j], z3.Exists([k], z3.And(k >= 0, k < a.n, z3.ToInt(a.vals[k]) == j))))
        kept_all = z3.ForAll([j], tf.vals[j] == tf0[j])
        none = v.st.load(EV + '.t_const').isnone
        return z3.If(none, kept_all, z3.And(written, kept_else))

    c = Contract(FS, 'System._store_tf', pid=pid, params={'self': TObj(), 'models': TColl()},
                 schema={'models': TColl(), EM + '.cache.states_and_ext': TColl(), EV + '.a': TArr(kind='int'), EV + '.t_const': TOptional(TObj()), EV + '.t_const.v': TArr(),
                         'self.dae.Tf': TArr()},
                 loops={0: Loop(inv=[], frame=['$mdl', '$var', 'loc:self.dae.Tf', EM + '.*']),
                        1: Loop(inv=[('time-constant-of-this-state-stored-at-its-addresses,others-kept', inv)],
                                assume=[('snapshot', snap), ('addresses-of-one-state-distinct-and-in-range(C10)', distinct),
                                        ('lengths', lambda v: v.st.content(v.st.load(EV + '.t_const.v')).n == v.st.content(v.st.load(EV + '.a')).n)],
                                frame=['$var', 'loc:self.dae.Tf', EV + '.*'])},
                 ensures=[], modifies=['self.dae.Tf'])
    c.merge = False

    def pre_state(st):
        st.ghost.pop('in_iter', None)
    c.pre_state = pre_state
    return c


def replay_store_tf(obligation=None, model=None, meta=None):
    """native: after TDS.init on stock cases dae.Tf holds, at the addresses of every state, the time constant the model declares now"""
    import contextlib
    import io
    import logging
    import numpy as np
    import andes
    from contracts.bounded_tds_rule import model_time_constants
    logging.getLogger('andes').setLevel(logging.CRITICAL)
    n = 0
    # kundur_wtdta1: the drive-train integrators take their time constants from constant services (2 Ht, 2 Hg), which exist only after
    # the models' services have been evaluated; ieee14_wt3n: five REECA1 whose filter blocks carry a literal (scalar) time constant 0.02
    for case in ('kundur/kundur_full.xlsx', 'ieee14/ieee14_full.xlsx', 'kundur/kundur_wtdta1.xlsx', 'ieee14/ieee14_wt3n.xlsx'):
        n += 1
        with contextlib.redirect_stdout(io.StringIO()), contextlib.redirect_stderr(io.StringIO()):
            ss = andes.load(andes.get_case(case), default_config=True, no_output=True)
            ss.PFlow.run()
            ss.TDS.init()
        T = model_time_constants(ss)
        Tf = np.array(ss.dae.Tf)
        if T.shape != Tf.shape or not np.allclose(T, Tf, rtol=1e-12, atol=0):
            j = int(np.argmax(np.abs(T - Tf))) if T.shape == Tf.shape else 0
            return {'confirmed': True, 'inputs': {'case': case, 'sequence': 'PFlow.run(); TDS.init()'},
                    'observed': 'dae.Tf[%d] (%s) = %r but the model declares the time constant %r' % (j, ss.dae.x_name[j], float(Tf[j]), float(T[j])),
                    'native_cmd': 'contracts/fn_sequence.py replay_store_tf'}
    return {'confirmed': False, 'tried': n}

replay_rerun_after_alter.real_system = True       # drives the real program on stock inputs: a crash inside repository code is a confirmed failure

replay_store_tf.real_system = True       # drives the real program on stock inputs: a crash inside repository code is a confirmed failure


def system_setup(pid):
    """System.setup: refuses a second call; otherwise runs its phases in the order the later ones rely on (back references, list -> array,
    external parameters, device finders, per-unit coefficients, routine flags, addresses, names, sparsity pattern, adders / setters,
    connectivity manager) and marks the system as set up IF AND ONLY IF the external parameters could all be linked; a failure is
    returned as False and raises the exit code by one -- the flag that gates every routine is never set on a failed setup."""
    ORDER = ['collect_ref', '_list2array', 'link_ext_param', 'find_devices', 'calc_pu_coeff', 'store_existing', 'set_address', 'set_dae_names',
             'store_sparse_pattern', 'store_adder_setter', 'conn.init']
    LINKED = fresh('all_external_parameters_linked', Bo)

    def rec(tag, ret=None):
        def h(ex, st, args, kw, node):
            st.ghost['order'] = st.ghost['order'] + [tag]
            return ret
        return h

    def post(old, new, res):
        was = old.z('self.is_setup')
        r = res if z3.is_expr(res) else z3.BoolVal(bool(res))
        e0, e1 = old.z('self.exit_code'), new.z('self.exit_code')
        done = z3.BoolVal(new.st.ghost['order'] == ORDER)
        return z3.If(was, z3.And(z3.Not(r), new.z('self.is_setup'), e1 == e0, z3.BoolVal(new.st.ghost['order'] == [])),
                     z3.And(done, r == LINKED, new.z('self.is_setup') == LINKED, e1 == z3.If(LINKED, e0, e0 + 1)))
    calls = {'elapsed': lambda ex, st, a, k, n: (NR(fresh('t', R)), 's'), 'self.link_ext_param': rec('link_ext_param', LINKED), 'self.conn.init': rec('conn.init')}
    for nm in ORDER:
        if nm not in ('link_ext_param', 'conn.init'):
            calls['self.' + nm] = rec(nm)
    c = Contract(FS, 'System.setup', pid=pid, params={'self': TObj()}, schema={'self.is_setup': TBool(), 'self.exit_code': TInt(), 'self.exist.pflow': TOpaque('Models')},
                 ghost_init={'order': []}, calls=calls, globals_={'elapsed': Func('elapsed')},
                 ensures=[('second-call-refused;phases-in-order;is_setup<=>external-parameters-linked;failure=>False-and-exit-code+1', post)],
                 modifies=['self.is_setup', 'self.exit_code'])
    c.merge = False
    return c


def replay_failures(obligation=None, model=None, meta=None):
    """native: infeasible / inconsistent inputs are reported as failures end to end (contracts/bounded_failure.py)"""
    from contracts import bounded_failure
    n, bad = bounded_failure.run()
    if bad:
        return {'confirmed': True, 'inputs': bad, 'observed': bad.get('observed'), 'native_cmd': 'contracts/bounded_failure.py'}
    return {'confirmed': False, 'tried': n}


replay_failures.real_system = True


def system_init(pid):
    """System.init: for every model handed in, its external services are linked, THEN the model is initialised (which evaluates its
    constant services), THEN its variables are copied to the DAE and back; only after all models are through are the post-initialisation
    services updated and, last, the time constants copied into dae.Tf (a time constant may be a constant service: it does not exist
    before the model's init)."""
    EM = 'models.$e'

    def rec(tag):
        def h(ex, st, args, kw, node):
            st.ghost['order'] = st.ghost['order'] + [tag]
            return None
        return h

    def reset(v):
        v.st.ghost['order'] = []
        v.st.ghost['in_iter'] = True
        return True

    def per_model(v):
        g = v.st.ghost
        if not g.get('in_iter'):
            return True
        o = [x for x in g['order'] if x != 'link']
        return z3.BoolVal(o == ['init', 'vars_to_dae', 'vars_to_models'] and g['order'][-3:] == o)

    def post(old, new, res):
        o = new.st.ghost['order']
        tail = [x for x in o if x in ('s_update_post', '_store_tf')]
        return z3.BoolVal(o[:1] == ['_init_numba'] and tail == ['s_update_post', '_store_tf'] and o[-2:] == ['s_update_post', '_store_tf'])
    c = Contract(FS, 'System.init', pid=pid, params={'self': TObj(), 'models': TColl(), 'routine': TStr()},
                 schema={'models': TColl(), EM + '.services_ext': TColl(), EM + '.services_ext.$e.model': TStr(), EM + '.class_name': TStr()},
                 ghost_init={'order': []},
                 calls={'self._init_numba': rec('_init_numba'), EM + '.init': rec('init'), 'self.vars_to_dae': rec('vars_to_dae'), 'self.vars_to_models': rec('vars_to_models'),
                        'self.s_update_post': rec('s_update_post'), 'self._store_tf': rec('_store_tf'), EM + '.services_ext.$e.link_external': rec('link'),
                        '__objdict__': lambda ex, st, a, k, n: Mark('ext-model'), '__getitem__': lambda ex, st, a, k, n: Mark('ext-model')},
                 loops={0: Loop(inv=[('per-model:externals-linked,then-init,then-variables-to-the-DAE-and-back', per_model)], assume=[('reset', reset)],
                                frame=['$mdl', '$instance', '$ext_name', '$ext_model', EM + '.*']),
                        1: Loop(inv=[], frame=['$instance', '$ext_name', '$ext_model', EM + '.services_ext.$e.*'])},
                 ensures=[('numba-first;after-all-models:post-services,then-time-constants-last', post)], modifies=[])
    c.merge = False

    def pre_state(st):
        st.ghost.pop('in_iter', None)
    c.pre_state = pre_state
    return c


def replay_l_update_var(obligation=None, model=None, meta=None):
    """native run of the real Model.l_update_var on a stub model whose discrete components are recorder instances of the real
    classes (Limiter, Delay, Derivative, Average, Sampling, Switcher): in EVERY iteration of a step each component that has a check_var
    is updated exactly once with the time, iteration count and error it was called with -- the history components re-read their
    input at an unchanged time to refresh the newest sample with the current Newton iterate"""
    import andes.core.discrete as D
    from andes.core.model.model import Model
    from contracts.packutil import Stub
    n = 0
    kinds = [k for k in ('Limiter', 'Delay', 'Derivative', 'Average', 'Sampling', 'Switcher', 'AntiWindup', 'DeadBand') if hasattr(D, k)]
    for dae_t in (0.0, 1.25):
        for niter in (0, 1, 2, 7, None):
            log = []
            comps = {}
            for k in kinds:
                for has in (True, False):
                    inst = object.__new__(getattr(D, k))
                    inst.__dict__['has_check_var'] = has
                    inst.__dict__['check_var'] = (lambda name: (lambda *a, **kw: log.append((name, a, dict(kw)))))('%s/%s' % (k, has))
                    comps['%s_%s' % (k, has)] = inst
            stub = Stub(Model, discrete=comps)
            n += 1
            Model.l_update_var(stub, dae_t, niter=niter, err=0.5)
            want = [('%s/True' % k, (), {'dae_t': dae_t, 'niter': niter, 'err': 0.5}) for k in kinds]
            norm = [(nm, (), dict(zip(('dae_t', 'niter', 'err'), a), **kw)) for nm, a, kw in log]
            if sorted(norm, key=str) != sorted(want, key=str):
                missing = sorted(set(w[0] for w in want) - set(g[0] for g in norm))
                return {'confirmed': True, 'inputs': {'dae_t': dae_t, 'niter': niter, 'err': 0.5, 'components': sorted(comps)},
                        'observed': 'check_var calls %r; every component with a check_var is updated once per call%s' % (
                            [g[0] for g in norm], (': not updated: %r' % missing) if missing else ''),
                        'native_cmd': 'Model.l_update_var(stub, dae_t, niter=niter, err=err) with recorder components of the real classes'}
    return {'confirmed': False, 'tried': n}


def replay_reset_inputs(obligation=None, model=None, meta=None):
    """native: kundur_full -- PFlow.run(); a dynamic-model parameter changed with set(); reset(): every numeric parameter of every model
    (power-flow and dynamic) has its input value of the case file again, and its system value is that input times its coefficient"""
    import contextlib
    import io
    import logging
    import numpy as np
    import andes
    logging.getLogger('andes').setLevel(logging.CRITICAL)
    with contextlib.redirect_stdout(io.StringIO()), contextlib.redirect_stderr(io.StringIO()):
        ss = andes.load(andes.get_case('kundur/kundur_full.xlsx'), default_config=True, no_output=True)
        snap = {(mn, pn): (np.array(p.vin, dtype=float).copy(), np.array(p.v, dtype=float).copy())
                for mn, m in ss.models.items() if m.n for pn, p in m.num_params.items() if p.vin is not None}
        ss.PFlow.run()
        ss.GENROU.set('D', ss.GENROU.idx.v[0], 'v', 7.5)
        ss.reset()
    n = 0
    for (mn, pn), (vin0, v0) in snap.items():
        p = ss.models[mn].num_params[pn]
        n += 1
        vin1, v1 = np.array(p.vin, dtype=float), np.array(p.v, dtype=float)
        if vin1.shape != vin0.shape or not np.allclose(vin1, vin0, rtol=1e-12, atol=0, equal_nan=True) or not np.allclose(v1, v0, rtol=1e-12, atol=0, equal_nan=True):
            return {'confirmed': True, 'inputs': {'case': 'kundur_full', 'sequence': "PFlow.run(); GENROU.set('D', first, 'v', 7.5); reset()", 'parameter': '%s.%s' % (mn, pn)},
                    'observed': 'after reset(): input values %r, system values %r; the case file gives %r and %r' % (vin1.tolist()[:4], v1.tolist()[:4], vin0.tolist()[:4], v0.tolist()[:4]),
                    'native_cmd': 'contracts/fn_sequence.py replay_reset_inputs'}
    return {'confirmed': False, 'tried': n}

replay_reset_inputs.real_system = True
