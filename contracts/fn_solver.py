"""Contracts for C16 (and the solver side of C17): sparse solver wrappers against assumed kvxopt / SciPy contracts."""
import z3

from pyvc.symex import Contract, Loop, spec, View, Outcomes, to_z3, as_real
from pyvc.symval import (TArr, TBool, TFloat, TInt, TObj, TOpaque, TReal, TSeq, TStr, TConst, NR, TOptional, fresh, I, R, Bo,
                         MaybeNone, Func, Opaque, TNone, Module, Ref, ArrC, ListC, DictC, Unsupported, Obj, ExcVal)

FSS = 'andes/linsolvers/suitesparse.py'
FSC = 'andes/linsolvers/scipy.py'
FSB = 'andes/linsolvers/solverbase.py'

MAT, VEC, SYM, NUM, PAT = [z3.DeclareSort(n) for n in ('SpMat', 'Vec', 'SymbolicFactor', 'NumericFactor', 'Pattern')]
SOLVES = z3.Function('A_inverse_times', MAT, VEC, VEC)        # the x with A x = b (A non-singular)
SINGULAR = z3.Function('singular', MAT, Bo)
PATTERN = z3.Function('pattern_of', MAT, PAT)
FPAT = z3.Function('pattern_of_symbolic', SYM, PAT)
NANVEC = z3.Function('nan_vector_of_size', VEC, VEC)
NUMOF = z3.Function('numeric_of', MAT, NUM)


class BoxC:
    """content of a mutable kvxopt dense matrix (value is a Vec term)"""
    def __init__(self, v):
        self.v = v


def suitesparse_solve(pid, lib='umfpack'):
    """SuiteSparseSolver.solve: returns A^-1 b (b itself overwritten), or an all-NaN vector when A is singular; a stale
    symbolic factor is refreshed and the call retried; the factorize flag is cleared.  Callee contract of ``_numeric``:
    umfpack.numeric raises ValueError for a symbolic factor of another pattern; klu.numeric does NOT (it returns a factor that
    belongs to no matrix in particular) -- F30."""
    def symbolic(ex, st, args, kw, node):
        f = fresh('F', SYM)
        st.assume(FPAT(f) == PATTERN(args[0].term))
        return Opaque(f)

    def numeric(ex, st, args, kw, node):
        A, F = args[0].term, args[1].term
        ok_pat = FPAT(F) == PATTERN(A)
        if lib == 'klu':
            return Outcomes([(z3.Not(ok_pat), 'value', Opaque(fresh('factor_from_stale_symbolic', NUMOF(A).sort()))),
                             (z3.And(ok_pat, SINGULAR(A)), 'raise', ExcVal('ArithmeticError')),
                             (z3.And(ok_pat, z3.Not(SINGULAR(A))), 'value', Opaque(NUMOF(A)))])
        return Outcomes([(z3.Not(ok_pat), 'raise', ExcVal('ValueError')),
                         (z3.And(ok_pat, SINGULAR(A)), 'raise', ExcVal('ArithmeticError')),
                         (z3.And(ok_pat, z3.Not(SINGULAR(A))), 'value', Opaque(NUMOF(A)))])

    def pattern_changed(ex, st, args, kw, node):
        # callee contract (class invariant: the remembered pattern is the one of the cached symbolic factor)
        return FPAT(st.load('self.F').term) != PATTERN(args[0].term)

    def refresh_symbolic(ex, st, args, kw, node):
        f = fresh('F', SYM)
        st.assume(FPAT(f) == PATTERN(st.load('self.A').term))
        st.store('self.F', Opaque(f))
        return None

    def solve_inplace(ex, st, args, kw, node):
        A, F, N, b = args
        ex.oblige(st, 'pre@call:_solve:numeric-factor-belongs-to-this-matrix', N.term == NUMOF(A.term), {})
        st.ghost['b'] = SOLVES(A.term, st.ghost['b'])
        return None

    def ravel(ex, st, args, kw, node):
        x = args[0]
        if isinstance(x, Opaque) and x.term.sort() == VEC and x.term.eq(st.ghost['b_handle']):
            return Opaque(st.ghost['b'])
        return x

    def matrix_nan(ex, st, args, kw, node):
        return Opaque(NANVEC(st.ghost['b0']))

    def recursive(ex, st, args, kw, node):
        # the callee is this function: its contract (assumed at the recursive call; F was just refreshed)
        A = args[0].term
        ex.oblige(st, 'pre@call:solve(retry):symbolic-factor-matches-the-pattern-now',
                  FPAT(st.load('self.F').term) == PATTERN(A), {})
        b0 = st.ghost['b']
        r = fresh('retry', VEC)
        st.assume(z3.Or(z3.And(z3.Not(SINGULAR(A)), r == SOLVES(A, b0)), z3.And(SINGULAR(A), r == b0)))
        st.ghost['b'] = r
        st.ghost['retried'] = True
        return Opaque(r)

    def post(old, new, res):
        A = old.local('A').term
        b0 = new.st.ghost['b0']
        r = res.term
        if new.st.ghost.get('retried'):
            # the retry's own return value is discarded by the code: it returns np.ravel(self.b)
            return z3.Or(z3.And(z3.Not(SINGULAR(A)), r == SOLVES(A, b0)), SINGULAR(A))
        return z3.Or(z3.And(z3.Not(SINGULAR(A)), r == SOLVES(A, b0)), z3.And(SINGULAR(A), r == NANVEC(b0)))

    def pre_state(st):
        b = fresh('b0', VEC)
        st.ghost['b0'] = b
        st.ghost['b'] = b
        h = fresh('b_handle', VEC)
        st.ghost['b_handle'] = h
        st.env['b'] = Opaque(h)
    c = Contract(FSS, 'SuiteSparseSolver.solve', pid=pid, params={'self': TObj(), 'A': TOpaque('SpMat'), 'b': None},
                 schema={'self.factorize': TBool(), 'self.F': TOpaque('SymbolicFactor'), 'self.N': TOpaque('NumericFactor'),
                         'self.A': TOpaque('SpMat'), 'self.b': TOpaque('Vec'), 'self.A.size': TConst((3, 3))},
                 calls={'self._symbolic': symbolic, 'self._numeric': numeric, 'self._solve': solve_inplace, 'np.ravel': ravel,
                        'self._pattern_changed': pattern_changed, 'self._refresh_symbolic': refresh_symbolic,
                        'matrix': matrix_nan, 'self.solve': recursive, '__getitem__': lambda ex, st, a, k, n: NR(fresh('aii', R)),
                        '<value>.format': lambda ex, st, a, k, n: 'msg'},
                 globals_={'matrix': Func('matrix')},
                 loops={0: Loop(summary=lambda ex, st, node: [(st, None, None)])},   # diagnostics only: fills a list for a log line
                 ensures=[('result=A^-1.b-or-NaN-vector-when-singular', post),
                          ('factorize-flag-cleared', lambda old, new, res: z3.Not(new.z('self.factorize')))],
                 modifies=['self.*'])
    c.pre_state = pre_state
    c.merge = False
    c.tag = lib
    return c


def refresh_symbolic(pid):
    """SuiteSparseSolver._refresh_symbolic establishes the class invariant used by solve(): the cached symbolic factor and the
    remembered pattern are both those of self.A."""
    def symbolic(ex, st, args, kw, node):
        f = fresh('F', SYM)
        st.assume(FPAT(f) == PATTERN(args[0].term))
        return Opaque(f)

    def get_pattern(ex, st, args, kw, node):
        from pyvc.symval import Mark
        return Mark('pattern-of', args[0].term)

    def post(old, new, res):
        from pyvc.symval import Mark
        A = old.get('self.A').term
        p_ = new.get('self._pattern')
        return z3.And(FPAT(new.get('self.F').term) == PATTERN(A), z3.BoolVal(isinstance(p_, Mark) and p_.data[0].eq(A)))
    return Contract(FSS, 'SuiteSparseSolver._refresh_symbolic', pid=pid, params={'self': TObj()},
                    schema={'self.A': TOpaque('SpMat'), 'self.F': TOpaque('SymbolicFactor'), 'self._pattern': TOpaque('Any')},
                    calls={'self._symbolic': symbolic, 'self._get_pattern': get_pattern},
                    ensures=[('cached-symbolic-factor-and-remembered-pattern-both-belong-to-self.A', post)], modifies=['self.F', 'self._pattern'])


# F30 (fixed): the cached symbolic factor belongs to another pattern and no refresh was requested (KLU back end)
WIT_F30 = {'F30': lambda old, new: z3.And(z3.Not(old.z('self.factorize')), FPAT(old.get('self.F').term) != PATTERN(old.local('A').term))}


def suitesparse_linsolve(pid, cls, lib):
    """KLUSolver/UMFPACKSolver.linsolve: A^-1 b, or an all-NaN vector when the matrix is singular (fixed F15)."""
    def lib_linsolve(ex, st, args, kw, node):
        A = args[0].term
        s2 = st.copy()
        st.ghost['b'] = SOLVES(A, st.ghost['b'])
        return Outcomes([(SINGULAR(A), 'raise', ExcVal('ArithmeticError')), (z3.Not(SINGULAR(A)), 'value', (st, None))])

    def ravel(ex, st, args, kw, node):
        x = args[0]
        if isinstance(x, Opaque) and x.term.sort() == VEC and x.term.eq(st.ghost['b_handle']):
            return Opaque(st.ghost['b'])
        return x

    def post(old, new, res):
        A = old.local('A').term
        b0 = new.st.ghost['b0']
        return z3.Or(z3.And(z3.Not(SINGULAR(A)), res.term == SOLVES(A, b0)), z3.And(SINGULAR(A), res.term == NANVEC(b0)))

    def pre_state(st):
        b = fresh('b0', VEC)
        st.ghost['b0'] = b
        st.ghost['b'] = b
        h = fresh('b_handle', VEC)
        st.ghost['b_handle'] = h
        st.env['b'] = Opaque(h)
    c = Contract(FSS, '%s.linsolve' % cls, pid=pid, params={'self': TObj(), 'A': TOpaque('SpMat'), 'b': None}, schema={},
                 calls={'%s.linsolve' % lib: lib_linsolve, 'np.ravel': ravel,
                        'matrix': lambda ex, st, a, k, n: Opaque(NANVEC(st.ghost['b0'])),
                        '<value>.size': None},
                 globals_={'matrix': Func('matrix'), lib: Module(lib)},
                 ensures=[('result=A^-1.b-or-NaN-vector-when-singular', post)], modifies=[])
    c.pre_state = pre_state
    c.merge = False
    return c


LU = z3.DeclareSort('LUFactor')
LUOF = z3.Function('splu_of', MAT, LU)
LUSOLVE = z3.Function('lu_solve', LU, VEC, VEC)


def spsolve_solve(pid):
    """SpSolve.solve: after a refresh request (factorize or new_A) the matrix is re-factorised and x = A^-1 b; both flags are
    cleared; otherwise the cached factor is used (allowed by the property)."""
    def post(old, new, res):
        A, b = old.local('A').term, old.local('b').term
        refresh = z3.Or(old.z('self.factorize'), old.z('self.new_A'))
        lu0 = old.get('self.lu').term
        return z3.And(z3.Implies(refresh, z3.And(res.term == LUSOLVE(LUOF(A), b), new.get('self.lu').term == LUOF(A))),
                      z3.Implies(z3.Not(refresh), res.term == LUSOLVE(lu0, b)),
                      z3.Not(new.z('self.factorize')), z3.Not(new.z('self.new_A')))
    c = Contract(FSC, 'SpSolve.solve', pid=pid, params={'self': TObj(), 'A': TOpaque('SpMat'), 'b': TOpaque('Vec')},
                 schema={'self.factorize': TBool(), 'self.new_A': TBool(), 'self.lu': TOpaque('LUFactor')},
                 calls={'spmatrix_to_csc': lambda ex, st, a, k, n: a[0],      # entry-wise the same matrix (contract below)
                        'splu': lambda ex, st, a, k, n: Opaque(LUOF(a[0].term)),
                        'np.ravel': lambda ex, st, a, k, n: a[0],
                        '<value>.solve': lambda ex, st, a, k, n: Opaque(LUSOLVE(a[0].term, a[1].term))},
                 globals_={'spmatrix_to_csc': Func('spmatrix_to_csc'), 'splu': Func('splu')},
                 ensures=[('refresh=>refactorised-and-solved-with-the-new-factor;flags-cleared', post)],
                 modifies=['self.factorize', 'self.new_A', 'self.lu'])
    return c


def spmatrix_to_csc(pid):
    """spmatrix_to_csc: csc_matrix((values, row indices, column pointers), shape) from A.CCS = (colptr, rowind, values)."""
    def np_array(ex, st, args, kw, node):
        return args[0]

    def csc(ex, st, args, kw, node):
        data, indices, indptr = args[0]
        ccs = st.load('A.CCS')
        ok = data is ccs[2] and indices is ccs[1] and indptr is ccs[0] and kw.get('shape') is st.load('A.size')
        ex.oblige(st, 'pre@call:csc_matrix:(data,indices,indptr)=(CCS[2],CCS[1],CCS[0]),shape=A.size', z3.BoolVal(bool(ok)), {})
        return Opaque(fresh('csc', MAT))
    c = Contract(FSC, 'spmatrix_to_csc', pid=pid, params={'A': TObj()},
                 schema={'A.CCS': TConst((Opaque(fresh('colptr', VEC)), Opaque(fresh('rowind', VEC)), Opaque(fresh('values', VEC)))),
                         'A.size': TConst(('n', 'n'))},
                 calls={'np.array': np_array, '<value>.ravel': lambda ex, st, a, k, n: a[0], 'csc_matrix': csc},
                 globals_={'csc_matrix': Func('csc_matrix')},
                 ensures=[], modifies=[])
    return c


def solver_dispatch(pid, meth):
    """Solver.solve / linsolve delegate to the selected worker with the caller's own A and b objects (the SuiteSparse workers leave
    the solution in b: EIG._reduce and TDS._calc_h_first read it from there) and return the worker's result."""
    def worker(ex, st, args, kw, node):
        ex.oblige(st, 'pre@call:worker.%s:same-arguments' % meth, z3.BoolVal(args[0] is st.env['A'] and args[1] is st.env['b']), {})
        r = Opaque(fresh('x', VEC))
        st.ghost['ret'] = r
        return r
    return Contract(FSB, 'Solver.%s' % meth, pid=pid, params={'self': TObj(), 'A': TOpaque('SpMat'), 'b': TOpaque('Vec')},
                    schema={}, ghost_init={'ret': None}, calls={'self.worker.%s' % meth: worker},
                    ensures=[('returns-the-worker-result', lambda old, new, res: z3.BoolVal(res is new.st.ghost['ret']))],
                    modifies=[])



def replay_solvers(obligation, model, meta):
    """native run of the real solver classes on sequences of small systems: same pattern with new values, a new pattern with
    another number of entries, a new pattern with the SAME number of entries, back to the first; every solve() and every
    linsolve() must return x with A x = b (or NaN for a singular A)"""
    import numpy as np
    from kvxopt import spmatrix, matrix
    from andes.linsolvers.suitesparse import KLUSolver, UMFPACKSolver
    from andes.linsolvers.scipy import SpSolve
    n = 4
    seqs = [
        ('P1', [(0, 0, 4.0), (1, 1, 3.0), (2, 2, 5.0), (3, 3, 2.0), (0, 1, 1.0), (2, 3, 1.0)]),
        ('P1 new values', [(0, 0, 5.0), (1, 1, 2.0), (2, 2, 6.0), (3, 3, 3.0), (0, 1, -1.0), (2, 3, 2.0)]),
        ('P2 new pattern, more entries', [(0, 0, 4.0), (1, 1, 3.0), (2, 2, 5.0), (3, 3, 2.0), (0, 1, 1.0), (2, 3, 1.0), (3, 0, 1.5)]),
        ('P3 new pattern, same number of entries as P2', [(0, 0, 4.0), (1, 1, 3.0), (2, 2, 5.0), (3, 3, 2.0), (1, 0, 1.0), (3, 2, 1.0), (0, 3, 1.5)]),
        ('P1 again', [(0, 0, 4.0), (1, 1, 3.0), (2, 2, 5.0), (3, 3, 2.0), (0, 1, 1.0), (2, 3, 1.0)]),
    ]
    b = np.array([1.0, -2.0, 3.0, 0.5])
    for cls in (KLUSolver, UMFPACKSolver, SpSolve):
        for mode in ('solve', 'linsolve'):
            try:
                solver = cls()
            except Exception:      # back end not installed
                continue
            for label, trip in seqs:
                A = spmatrix([t[2] for t in trip], [t[0] for t in trip], [t[1] for t in trip], (n, n), 'd')
                dense = np.array(matrix(A))
                rhs = matrix(b)
                if cls is SpSolve and mode == 'solve':
                    solver.factorize = True       # the SciPy back end factorises only after a refresh was requested
                x = np.ravel(np.array(solver.solve(A, rhs) if mode == 'solve' else solver.linsolve(A, rhs)))
                if x.shape != (n,) or not np.allclose(dense @ x, b, rtol=1e-9, atol=1e-9):
                    return {'confirmed': True, 'inputs': {'solver': cls.__name__, 'call': mode, 'matrix': label, 'triplets': trip, 'b': b.tolist()},
                            'observed': 'x = %r, residual %r' % (x.tolist(), float(np.max(np.abs(dense @ x - b))) if x.shape == (n,) else 'shape'),
                            'native_cmd': '%s().%s(A, b) over a sequence of matrices on one solver object' % (cls.__name__, mode)}
    return {'confirmed': False, 'tried': 30}



def replay_dispatch(obligation, model, meta):
    """native run of the real Solver wrapper (all libraries that solve in place): after linsolve(A, B) with a multi-column B, B holds
    A^-1 B (this is how EIG._reduce obtains gy^-1 gx) and a one-column call returns x with A x = b; solve() likewise"""
    import numpy as np
    from kvxopt import spmatrix, matrix
    from andes.linsolvers.solverbase import Solver
    trip = [(0, 0, 4.0), (1, 1, 3.0), (2, 2, 5.0), (0, 1, 1.0), (2, 0, -1.0), (1, 2, 0.5)]
    A = spmatrix([t[2] for t in trip], [t[0] for t in trip], [t[1] for t in trip], (3, 3), 'd')
    dense = np.array(matrix(A))
    B0 = np.array([[1.0, 2.0], [0.0, -1.0], [3.0, 0.5]])
    for lib in ('klu', 'umfpack'):
        s_ = Solver(lib)
        B = matrix(B0)
        s_.linsolve(A, B)
        got = np.array(B)
        if not np.allclose(dense @ got, B0, atol=1e-10):
            return {'confirmed': True, 'inputs': {'sparselib': lib, 'A': trip, 'B': B0.tolist()},
                    'observed': 'after Solver.linsolve(A, B) the matrix B is not A^-1 B (max error %g)' % float(np.max(np.abs(dense @ got - B0))),
                    'native_cmd': "Solver('%s').linsolve(A, B) with a two-column kvxopt matrix B" % lib}
        for meth in ('linsolve', 'solve'):
            b = matrix(B0[:, 0])
            x = np.ravel(np.array(getattr(Solver(lib), meth)(A, b)))
            if x.shape != (3,) or not np.allclose(dense @ x, B0[:, 0], atol=1e-10):
                return {'confirmed': True, 'inputs': {'sparselib': lib, 'call': meth, 'A': trip, 'b': B0[:, 0].tolist()},
                        'observed': 'returned x = %r does not satisfy A x = b' % x.tolist(), 'native_cmd': "Solver('%s').%s(A, b)" % (lib, meth)}
    return {'confirmed': False, 'tried': 6}


def wrapper(pid, cls, meth):
    """The one-line wrappers between SuiteSparseSolver.solve and the library: UMFPACKSolver / KLUSolver ._symbolic(A) = lib.symbolic(A),
    ._numeric(A, F) = lib.numeric(A, F), ._solve(A, F, N, b) = umfpack.solve(A, N, b) resp. klu.solve(A, F, N, b) -- each argument in
    the library's position (kvxopt signatures assumed)."""
    from pyvc.symval import Module
    lib = 'umfpack' if cls == 'UMFPACKSolver' else 'klu'
    params = {'_symbolic': ['A'], '_numeric': ['A', 'F'], '_solve': ['A', 'F', 'N', 'b']}[meth]
    want = {('umfpack', '_symbolic'): ['A'], ('umfpack', '_numeric'): ['A', 'F'], ('umfpack', '_solve'): ['A', 'N', 'b'],
            ('klu', '_symbolic'): ['A'], ('klu', '_numeric'): ['A', 'F'], ('klu', '_solve'): ['A', 'F', 'N', 'b']}[(lib, meth)]
    RET = Opaque(fresh('library_result', z3.DeclareSort('Factor')))

    def libcall(ex, st, args, kw, node):
        ok = not kw and len(args) == len(want) and all(a is st.env[w] for a, w in zip(args, want))
        ex.oblige(st, 'pre@call:%s.%s(%s)' % (lib, meth[1:], ', '.join(want)), z3.BoolVal(bool(ok)), {})
        st.ghost['called'] = st.ghost['called'] + 1
        return RET

    def post(old, new, res):
        once = new.st.ghost['called'] == 1
        if meth == '_solve':
            return z3.BoolVal(bool(once))
        return z3.BoolVal(bool(once and res is RET))
    c = Contract('andes/linsolvers/suitesparse.py', '%s.%s' % (cls, meth), pid=pid,
                 params=dict([('self', TObj())] + [(p, TOpaque('Arg_' + p)) for p in params]), schema={}, ghost_init={'called': 0},
                 calls={'%s.%s' % (lib, meth[1:]): libcall}, globals_={lib: Module(lib)},
                 ensures=[('library-called-once-with-the-arguments-in-its-own-order;result-returned', post)], modifies=[])
    return c


def wrappers(pid):
    return [wrapper(pid, cls, m) for cls in ('UMFPACKSolver', 'KLUSolver') for m in ('_symbolic', '_numeric', '_solve')]

replay_solvers.real_system = True       # real solver objects on real kvxopt matrices: a crash inside repository code is a confirmed failure
replay_dispatch.real_system = True
