"""Contracts on andes/routines/tds.py and andes/routines/daeint.py (shared by C04, C05, C06, C14, C15, C17)."""
import z3

from pyvc.symex import Contract, Loop, spec, View, Outcomes
from pyvc.symval import (Bo, Unsupported, TArr, TBool, TFloat, TInt, TObj, TOpaque, TReal, TSeq, TStr, TConst, NR, TOptional, fresh, I, R,
                         MaybeNone, Func, Opaque, TNone, ArrC, Ref)

F = 'andes/routines/tds.py'
Mat = TOpaque('Mat')
Models = TOpaque('Models')


def tds_schema():
    return {
        'self.system.dae.t': TReal(), 'self.niter': TInt(), 'self.deltat': TReal(), 'self.deltatmin': TReal(),
        'self.deltatmax': TReal(), 'self.converged': TBool(), 'self.busted': TBool(), 'self.chatter': TBool(),
        'self.config.fixt': TBool(), 'self.config.shrinkt': TBool(), 'self.config.tstep': TReal(),
        'self.config.tf': TReal(), 'self.config.t0': TReal(), 'self.h': TReal(), 'self._switch_idx': TInt(),
        'self.system.n_switches': TInt(), 'self.system.switch_times': TSeq(),
        'self.data_csv': TOptional(TOpaque('CSV')), 'self.err_msg': TStr(), 'self.k_csv': TInt(),
        'self.config.refresh_event': TBool(), 'self.config.check_conn': TInt(), 'self.custom_event': TBool(),
        'self._last_switch_t': TReal(), 'self.system.switch_dict': TOpaque('SwitchDict'),
        'self.system.exist.pflow_tds': Models, 'self.system.exist.tds': Models,
        'self.system.dae.n': TInt(), 'self.system.dae.m': TInt(), 'self.system.config.freq': TReal(),
        'self.system.dae.gx': Mat, 'self.system.dae.gy': Mat, 'self.system.dae.fx': Mat, 'self.system.dae.fy': Mat,
    }


def st_at(v, k):
    return v.arr('self.system.switch_times').arr[k]


def switch_times_wf(v):
    """representation invariant of System.switch_times: strictly increasing, n_switches is its length"""
    s = v.arr('self.system.switch_times')
    i, j = fresh('i', I), fresh('j', I)
    return z3.And(s.n == v.z('self.system.n_switches'),
                  z3.ForAll([i, j], z3.Implies(z3.And(0 <= i, i < j, j < s.n), s.arr[i] < s.arr[j])))


def inv_fixt(v):
    return z3.Implies(v.z('self.config.fixt'), z3.And(v.z('self.deltat') <= v.z('self.config.tstep')))


def calc_h_first_post(old, new, res, args=None, kw=None):
    return z3.And(res.val == new.z('self.deltat'), z3.Not(res.nanz()), new.z('self.deltat') >= 0,
                  z3.Implies(new.z('self.config.fixt'), new.z('self.deltat') == new.z('self.config.tstep')),
                  z3.Implies(new.z('self.config.fixt'), old.z('self.config.fixt')),
                  new.z('self.config.tstep') == old.z('self.config.tstep'),
                  new.z('self.deltatmin') <= new.z('self.deltatmax'))


CALC_H_FIRST_FRAME = ['self.deltat', 'self.deltatmin', 'self.deltatmax', 'self.config.fixt']


def calc_h(pid, resume_value=None, drop=()):
    """TDS.calc_h: the step never leaves [0, tf - t], never passes the next switch time, respects the fixed step,
    and does not move the event index (ghost clause; fails at an event scheduled at the current time: F10)."""
    params = {'self': TObj()}
    if resume_value is not None:
        params['resume'] = resume_value
    else:
        params['resume'] = TBool()

    def pre_idx(v):
        idx, n = v.z('self._switch_idx'), v.z('self.system.n_switches')
        return z3.And(idx >= 0, idx <= n, z3.Implies(idx < n, v.z('self.system.dae.t') <= st_at(v, idx)))

    def post_h(old, new, res):
        return z3.And(new.z('self.h') >= 0, res.val == new.z('self.h'))

    def post_tf(old, new, res):
        return new.z('self.system.dae.t') + new.z('self.h') <= new.z('self.config.tf')

    def post_switch(old, new, res):
        idx, n = new.z('self._switch_idx'), new.z('self.system.n_switches')
        return z3.Implies(idx < n, new.z('self.system.dae.t') + new.z('self.h') <= st_at(new, idx))

    def post_fixt(old, new, res):
        return z3.Implies(new.z('self.config.fixt'), new.z('self.h') <= new.z('self.config.tstep'))

    def post_inv(old, new, res):
        return inv_fixt(new)

    def post_idx(old, new, res):
        return new.z('self._switch_idx') == old.z('self._switch_idx')

    def post_idx_range(old, new, res):
        idx, n = new.z('self._switch_idx'), new.z('self.system.n_switches')
        return z3.And(idx >= old.z('self._switch_idx'), idx <= n)

    def post_shrink(old, new, res):
        # a rejected step is retried with a strictly smaller deltat, or the run is busted
        first = z3.Or(z3.And(old.z('self.system.dae.t') == 0, old.z('self.niter') == 0), new.local('resume') if False else False)
        return z3.Implies(z3.And(z3.Not(old.z('self.converged')), z3.Not(first), old.z('self.deltat') > 0,
                                 z3.Not(to_b(new.local_or('resume', False)))),
                          z3.Or(new.z('self.busted'), new.z('self.deltat') < old.z('self.deltat')))

    return Contract(
        F, 'TDS.calc_h', pid=pid, params=params, schema=tds_schema(),
        requires=[('no-csv-replay', lambda v: v.isnone('self.data_csv')),
                  ('switch_times-wellformed', switch_times_wf),
                  ('idx-in-range-and-not-past-next-event', pre_idx),
                  ('t<=tf', lambda v: v.z('self.system.dae.t') <= v.z('self.config.tf')),
                  ('tstep-positive', lambda v: v.z('self.config.tstep') > 0),
                  ('limits-ordered', lambda v: z3.And(v.z('self.deltatmin') <= v.z('self.deltatmax'), v.z('self.deltatmin') >= 0)),
                  ('deltat-nonneg', lambda v: v.z('self.deltat') >= 0),
                  ('INV_fixt', inv_fixt)],
        calls={'self._calc_h_first': spec(returns=TReal(), modifies=CALC_H_FIRST_FRAME, ensures=[calc_h_first_post],
                                          name='TDS._calc_h_first')},
        ensures=[('h-nonneg', post_h), ('never-past-tf', post_tf), ('never-past-next-switch-time', post_switch),
                 ('fixed-step-respected', post_fixt), ('INV_fixt-preserved', post_inv),
                 ('event-index-only-moved-by-do_switch', post_idx), ('event-index-monotone-in-range', post_idx_range),
                 ('rejected-step-shrinks-or-busts', post_shrink)],
        modifies=['self.h', 'self.deltat', 'self.deltatmin', 'self.deltatmax', 'self.config.fixt', 'self.busted',
                  'self.err_msg', 'self.chatter', 'self._switch_idx', 'self.k_csv'],
        drop=drop,
    )


def to_b(x):
    return z3.BoolVal(x) if isinstance(x, bool) else x


WIT_F10 = {'F10': lambda old, new: z3.And(old.z('self._switch_idx') < old.z('self.system.n_switches'),
                                          old.z('self.system.dae.t') == st_at(old, old.z('self._switch_idx')),
                                          z3.Not(to_b(old.local_or('resume', False))))}


def calc_h_first(pid):
    """TDS._calc_h_first: initial step: deltat >= 0, limits ordered, fixed step taken over when enabled."""
    sch = tds_schema()
    return Contract(
        F, 'TDS._calc_h_first', pid=pid, params={'self': TObj()}, schema=sch,
        requires=[('no-csv-replay', lambda v: v.isnone('self.data_csv')),
                  ('freq-positive', lambda v: v.z('self.system.config.freq') > 0),
                  ('n-nonneg', lambda v: v.z('self.system.dae.n') >= 0)],
        calls={'matrix': spec(returns=Mat, name='kvxopt.matrix'),
               'self.solver.linsolve': spec(name='Solver.linsolve'),
               '__binop__': lambda ex, st, args, kw, node: Opaque(fresh('matop', Mat.sort)),
               '__getitem__': lambda ex, st, args, kw, node: NR(fresh('As00', R)),
               'float': lambda ex, st, args, kw, node: args[0]},
        globals_={'matrix': Func('matrix')},
        ensures=[('post', calc_h_first_post)],
        modifies=CALC_H_FIRST_FRAME,
    )


def do_switch(pid):
    """TDS.do_switch: dispatch iff the current time equals the next switch time, exactly once, index advanced by one."""
    def switch_action(ex, st, args, kw, node):
        st.ghost['n_switch_action'] = st.ghost.get('n_switch_action', 0) + 1
        st.ghost['switch_action_arg'] = args[0]
        return None

    def getitem(ex, st, args, kw, node):
        base, sl = args
        key = ex.ev(sl, st)
        f = z3.Function('switch_dict', R, Models.sort)
        return Opaque(f(key.val))

    def hit(old):
        idx, n = old.z('self._switch_idx'), old.z('self.system.n_switches')
        return z3.And(idx < n, old.z('self.system.dae.t') == st_at(old, idx))

    def post_ret(old, new, res):
        return to_b(res) == hit(old)

    def post_idx(old, new, res):
        return new.z('self._switch_idx') == old.z('self._switch_idx') + z3.If(hit(old), 1, 0)

    def post_once(old, new, res):
        n = new.st.ghost.get('n_switch_action', 0)
        return z3.And(z3.Implies(hit(old), n == 1), z3.Implies(z3.Not(hit(old)), n == 0))

    def post_models(old, new, res):
        arg = new.st.ghost['switch_action_arg']
        if arg is None:
            return True
        f = z3.Function('switch_dict', R, Models.sort)
        return z3.Implies(hit(old), arg.term == f(st_at(old, old.z('self._switch_idx'))))

    def post_last(old, new, res):
        return z3.Implies(hit(old), new.z('self._last_switch_t') == old.z('self.system.dae.t'))

    def connectivity(ex, st, args, kw, node):
        st.ghost['n_conn'] = st.ghost.get('n_conn', 0) + 1
        st.ghost['conn_after_action'] = st.ghost.get('n_switch_action', 0)
        return None

    def post_conn(old, new, res):
        n = new.st.ghost.get('n_conn', 0)
        after = new.st.ghost.get('conn_after_action', 0)
        want = z3.And(hit(old), old.z('self.config.check_conn') == 1)
        n = n if z3.is_expr(n) else z3.IntVal(n)
        after = after if z3.is_expr(after) else z3.IntVal(after)
        return z3.And(z3.Implies(want, z3.And(n == 1, after == 1)), z3.Implies(z3.Not(hit(old)), n == 0))
    return Contract(
        F, 'TDS.do_switch', pid=pid, params={'self': TObj()}, schema=tds_schema(),
        requires=[('no-refresh', lambda v: z3.Not(v.z('self.config.refresh_event'))),
                  ('no-custom-event', lambda v: z3.Not(v.z('self.custom_event'))),
                  ('switch_times-wellformed', switch_times_wf),
                  ('idx-in-range', lambda v: z3.And(v.z('self._switch_idx') >= 0,
                                                    v.z('self._switch_idx') <= v.z('self.system.n_switches')))],
        ghost_init={'n_switch_action': 0, 'switch_action_arg': None, 'n_conn': 0, 'conn_after_action': 0},
        calls={'self.system.switch_action': switch_action, '__getitem__': getitem,
               'self.system.vars_to_models': spec(name='System.vars_to_models'),
               'self.system.connectivity': connectivity,
               'self.system.store_switch_times': spec(name='System.store_switch_times')},
        ensures=[('dispatch-iff-time-equals-next-switch-time', post_ret), ('index-advances-by-one-iff-dispatched', post_idx),
                 ('switch_action-called-exactly-once-iff-dispatched', post_once),
                 ('switch_action-receives-the-models-registered-for-that-time', post_models),
                 ('last-switch-time-recorded', post_last),
                 ('connectivity-rechecked-once-after-every-dispatched-event(check_conn=1)', post_conn)],
        modifies=['self._switch_idx', 'self._last_switch_t', 'self.custom_event'],
    )


def replay_do_switch(obligation, model, meta):
    """native run of the real TDS.do_switch on kundur_full with two events that change no Line status (two generator trips):
    every dispatched event must be followed by a connectivity re-check, and nothing is dispatched between events"""
    import logging
    import andes
    logging.getLogger('andes').setLevel(logging.CRITICAL)
    ss = andes.load(andes.get_case('kundur/kundur_full.xlsx'), default_config=True, no_output=True, setup=False)
    for tg in list(ss.Toggle.idx.v):
        ss.Toggle.alter('u', tg, 0)
    ss.add('Toggle', dict(model='GENROU', dev=ss.GENROU.idx.v[1], t=1.0))
    ss.add('Toggle', dict(model='GENROU', dev=ss.GENROU.idx.v[2], t=2.0))
    ss.setup()
    ss.PFlow.run()
    tds = ss.TDS
    tds.init()
    calls = []
    orig = ss.connectivity
    ss.connectivity = lambda *a, **k: (calls.append(1), orig(*a, **k))[1]
    import numpy as np
    import contextlib
    import io
    times = [float(t) for t in ss.switch_times]
    for t in times:
        ss.dae.t = np.array(t)
        n0 = len(calls)
        with contextlib.redirect_stdout(io.StringIO()):
            ret = tds.do_switch()
        if ret is not True or len(calls) - n0 != 1:
            return {'confirmed': True, 'inputs': {'case': 'kundur_full + Toggle GENROU at 1.0 and 2.0 (stock Toggle disabled)', 't': t,
                                                  'switch_times': times},
                    'observed': 'do_switch returned %r with %d connectivity re-check(s)' % (ret, len(calls) - n0),
                    'native_cmd': 'TDS.do_switch() at every scheduled time with System.connectivity wrapped by a counter'}
    return {'confirmed': False, 'tried': len(times)}


def init_resume(pid):
    """TDS.init_resume: only the step-size state and the time advance; event index, switch table, storage untouched; the first
    resumed step ends no later than the next pending event time and no later than tf."""
    def post(old, new, res):
        idx, n = old.z('self._switch_idx'), old.z('self.system.n_switches')
        t1 = new.z('self.system.dae.t')
        return z3.And(t1 == old.z('self.system.dae.t') + new.z('self.h'),
                      new.z('self._switch_idx') == old.z('self._switch_idx'),
                      new.z('self.h') >= 0, t1 <= old.z('self.config.tf'),
                      z3.Implies(z3.And(idx >= 0, idx < n, old.z('self.system.dae.t') <= st_at(old, idx)), t1 <= st_at(old, idx)))
    return Contract(
        F, 'TDS.init_resume', pid=pid, params={'self': TObj()}, schema=tds_schema(),
        calls={'self.calc_h': spec(returns=TReal(), modifies=['self.h', 'self.deltat', 'self.deltatmin', 'self.deltatmax',
                                                               'self.config.fixt', 'self.busted', 'self.err_msg',
                                                               'self.chatter'],
                                   ensures=[lambda old, new, res, a, k: z3.And(
                                       new.z('self.h') >= 0,
                                       new.z('self.system.dae.t') + new.z('self.h') <= new.z('self.config.tf'),
                                       # clip clause of TDS.calc_h (proved for calc_h itself): no step across the next event
                                       z3.Implies(z3.And(new.z('self._switch_idx') >= 0,
                                                         new.z('self._switch_idx') < new.z('self.system.n_switches'),
                                                         new.z('self.system.dae.t') <= st_at(new, new.z('self._switch_idx'))),
                                                  new.z('self.system.dae.t') + new.z('self.h') <= st_at(new, new.z('self._switch_idx'))))],
                                   name='TDS.calc_h(resume=True)'),
               'self._calc_h_first': spec(returns=TReal(), name='TDS._calc_h_first'), 'max': None, 'min': None},
        ensures=[('time-advanced-by-h-and-event-index-kept', post)],
        modifies=['self.h', 'self.deltat', 'self.deltatmin', 'self.deltatmax', 'self.config.fixt', 'self.busted',
                  'self.err_msg', 'self.chatter', 'self.system.dae.t'],
    )


# ================================================================================================ daeint.py
FD = 'andes/routines/daeint.py'


def calc_q(pid, cls, coef_doc):
    """Trapezoid/BackEuler.calc_q: pointwise residual of the integration rule."""
    from contracts import matalg

    def post(old, new, res):
        r = new.st.content(res)
        k = fresh('k', I)
        x, f, Tf, x0, f0 = [new.st.content(new.local(n)) for n in ('x', 'f', 'Tf', 'x0', 'f0')]
        h = new.local('h').val
        if cls == 'Trapezoid':
            rule = Tf.vals[k] * (x.vals[k] - x0.vals[k]) - h / 2 * (f.vals[k] + f0.vals[k])
        else:
            rule = Tf.vals[k] * (x.vals[k] - x0.vals[k]) - h * f.vals[k]
        return z3.And(r.n == x.n, z3.ForAll([k], z3.Implies(z3.And(k >= 0, k < x.n), r.vals[k] == rule)))
    n = fresh('n', I)
    return Contract(
        FD, '%s.calc_q' % cls, pid=pid,
        params={'x': TArr(n=n), 'f': TArr(n=n), 'Tf': TArr(n=n), 'h': TReal(), 'x0': TArr(n=n), 'f0': TArr(n=n)},
        schema={}, requires=[('n-nonneg', lambda v: n >= 0)],
        ensures=[('residual-is-' + coef_doc, post)], modifies=[],
    )


def calc_jac(pid, cls):
    """Trapezoid/BackEuler.calc_jac: the iteration matrix is d(q, g_s)/d(x, y) block by block."""
    from contracts import matalg as M

    def post(old, new, res):
        h = new.z('tds.h')
        c = h / 2 if cls == 'Trapezoid' else h
        fx, fy = new.get('tds.system.dae.fx').term, new.get('tds.system.dae.fy').term
        teye = new.get('tds.Teye').term
        gxs, gys = new.local('gxs').term, new.local('gys').term
        want = M.rowblocks(M.msub(teye, M.smul(c, fx)), M.smul(-c, fy), gxs, gys)
        a, b, cc, d = [fresh('m', M.Mat) for _ in range(4)]
        kv = z3.ForAll([a, b, cc, d], M.colblocks(a, b, cc, d) == M.rowblocks(a, cc, b, d))   # kvxopt contract
        return z3.Implies(kv, res.term == want)
    return Contract(
        FD, '%s.calc_jac' % cls, pid=pid,
        params={'tds': TObj(), 'gxs': M.MatT, 'gys': M.MatT},
        schema={'tds.h': TReal(), 'tds.Teye': M.MatT, 'tds.system.dae.fx': M.MatT, 'tds.system.dae.fy': M.MatT},
        calls={'sparse': M.sparse_blocks, '__binop__': M.binop},
        globals_={'sparse': Func('sparse')},
        ensures=[('Ac=[[T-c*fx, -c*fy],[gxs, gys]] with c=' + ('h/2' if cls == 'Trapezoid' else 'h'), post)],
        modifies=[],
    )


def step_schema():
    from contracts import matalg as M
    n, m = 'tds.system.dae.n', 'tds.system.dae.m'
    return {
        'tds.system.dae.n': TInt(), 'tds.system.dae.m': TInt(), 'tds.system.dae.t': TReal(), 'tds.h': TReal(),
        'tds.system.dae.x': TArr(nan=True, n=n), 'tds.system.dae.y': TArr(nan=True, n=m),
        'tds.system.dae.f': TArr(nan=True, n=n), 'tds.system.dae.g': TArr(nan=True, n=m),
        'tds.system.dae.Tf': TArr(n=n),
        'tds.x0': TArr(nan=True, n=n), 'tds.y0': TArr(nan=True, n=m), 'tds.f0': TArr(nan=True, n=n),
        'tds.qg': TArr(nan=True), 'tds.mis': TSeq(nan=True, minlen=1), 'tds.mis_inc': TSeq(nan=True, minlen=1),
        'tds.niter': TInt(), 'tds.converged': TBool(), 'tds.last_converged': TBool(), 'tds.busted': TBool(),
        'tds.chatter': TBool(), 'tds.custom_event': TBool(), 'tds.config.honest': TBool(), 'tds._last_switch_t': TReal(),
        'tds.config.g_scale': TReal(), 'tds.config.linsolve': TBool(), 'tds.config.reset_tiny': TBool(),
        'tds.config.max_iter': TInt(), 'tds.config.tol': TReal(), 'tds.config.chatter_iter': TInt(), 'tds.tol_zero': TReal(),
        'tds.system.dae.gx': M.MatT, 'tds.system.dae.gy': M.MatT, 'tds.system.dae.fx': M.MatT, 'tds.system.dae.fy': M.MatT,
        'tds.Ac': M.MatT, 'tds.inc': TArr(nan=True), 'tds.err_msg': TStr(), 'tds.system.exist.pflow_tds': Models,
        'tds.solver.worker.factorize': TBool(), 'tds.jacobian_rebuilt_in_this_iteration': TBool(), 'tds.system.antiwindups': TOpaque('AWList'),
        'tds.system.dae.xy_name': TSeq(elem=TStr.sort),
    }


PEGGED = z3.Function('pegged', I, z3.BoolSort())      # ghost: address held by an anti-windup limiter in this iteration
PEGVAL = z3.Function('pegged_value', I, R)


def step(pid, drop=()):
    """ImplicitIter.step: Newton loop of one implicit integration step.
    success => last correction <= tol and no NaN (or chatter: F9); failure => x, y, f restored; residual handed to the
    solver is the integration-rule residual (pegged entries replaced), scaled g below it."""
    from contracts import matalg as M
    sch = step_schema()
    FGUP = ['loc:tds.system.dae.f', 'loc:tds.system.dae.g']

    def aw_summary(ex, st, node):
        """for item in system.antiwindups: for key, _, eqval in item.x_set: np.put(tds.qg, key, eqval)
        summarised (assumed, not proved): qg changes exactly at the pegged addresses, to the pegged values"""
        ref = st.load('tds.qg')
        c = st.content(ref)
        k = fresh('k', I)
        from pyvc.symval import ArrC
        vals = z3.Lambda([k], z3.If(PEGGED(k), PEGVAL(k), c.vals[k]))
        nans = z3.Lambda([k], z3.If(PEGGED(k), z3.BoolVal(False), c.nan_at(k)))
        st.set_content(ref, ArrC(vals, c.n, nans))
        return [(st, None, None)]

    def calc_q_h(ex, st, args, kw, node):
        x, f, Tf, h, x0, f0 = args
        X, Fv, T, X0, F0 = [st.content(a) for a in (x, f, Tf, x0, f0)]
        k = fresh('k', I)
        rule = z3.Function('integration_rule', R, R, R, R, R, R, R)   # (Tf, x, x0, h, f, f0) -> residual (calc_q's post)
        from pyvc.symval import ArrC
        vals = z3.Lambda([k], rule(T.vals[k], X.vals[k], X0.vals[k], as_r(h), Fv.vals[k], F0.vals[k]))
        nans = z3.Lambda([k], z3.Or(X.nan_at(k), X0.nan_at(k), Fv.nan_at(k), F0.nan_at(k)))
        return st.new_ref(ArrC(vals, X.n, nans), 'calc_q')

    def solve_pre_residual(v, args, kw):
        """what is handed to the linear solver is [rule residual (pegged entries replaced); g_scale*h*g or g]"""
        qg = v.st.content(args[1]) if not isinstance(args[1], Opaque) else None
        if qg is None:
            return True
        st = v.st
        n = v.z('tds.system.dae.n')
        X, Fv, T, X0, F0, G = [v.arr(p) for p in ('tds.system.dae.x', 'tds.system.dae.f', 'tds.system.dae.Tf', 'tds.x0',
                                                   'tds.f0', 'tds.system.dae.g')]
        h = v.z('tds.h')
        gs = v.z('tds.config.g_scale')
        rule = z3.Function('integration_rule', R, R, R, R, R, R, R)
        k = fresh('k', I)
        diff = z3.Implies(z3.And(k >= 0, k < n, z3.Not(PEGGED(k))),
                          qg.vals[k] == rule(T.vals[k], X.vals[k], X0.vals[k], h, Fv.vals[k], F0.vals[k]))
        peg = z3.Implies(z3.And(k >= 0, k < n, PEGGED(k)), qg.vals[k] == PEGVAL(k))
        alg = z3.Implies(z3.And(k >= n, k < n + v.z('tds.system.dae.m'), z3.Not(PEGGED(k))),
                         qg.vals[k] == z3.If(gs > 0, gs * h * G.vals[k - n], G.vals[k - n]))
        return z3.ForAll([k], z3.And(diff, peg, alg))

    def solve_pre_snapshot(v, args, kw):
        """x0, f0 used in the residual are the values at the start of the step"""
        return True

    def matrix_h(ex, st, args, kw, node):
        return args[0]          # kvxopt.matrix(ndarray): same numbers (dense column)

    def where_h(ex, st, args, kw, node):
        return ('where-mask', args[0])

    def setitem_h(ex, st, args, kw, node):
        base, sl, value = args
        raise Unsupported('setitem on %r' % (base,))

    solver_spec = dict(returns=TArr(nan=True), name='Solver.solve')
    _jup = spec(modifies=['tds.system.dae.fx', 'tds.system.dae.fy', 'tds.system.dae.gx', 'tds.system.dae.gy'], name='System.j_update')

    def j_update_rebuilt(ex, st, args, kw, node):
        r = _jup(ex, st, args, kw, node)
        st.store('tds.jacobian_rebuilt_in_this_iteration', z3.BoolVal(True))      # ghost field (merges with the paths that did not rebuild)
        return r

    def mk_solve(nm):
        def len_post(old, new, res, args, kw):
            return new.st.content(res).n == new.z('tds.system.dae.n') + new.z('tds.system.dae.m')
        inner = spec(requires=[('rhs-is-the-integration-rule-residual', solve_pre_residual)], returns=TArr(nan=True),
                     ensures=[len_post], name=nm)

        def h(ex, st, args, kw, node):
            # a back end that keeps a factorisation between calls (SciPy splu) renews it only on request: whenever the matrix was
            # re-evaluated in this iteration, the request flag is up when the solver is called
            ex.oblige(st, 'pre@call:%s:factorisation-refresh-requested-after-every-Jacobian-rebuild' % nm,
                      z3.Implies(to_b(st.load('tds.jacobian_rebuilt_in_this_iteration')), to_b(st.load('tds.solver.worker.factorize'))), {})
            r = inner(ex, st, args, kw, node)
            st.store('tds.jacobian_rebuilt_in_this_iteration', z3.BoolVal(False))
            return r
        return h

    def inv_snapshot(v):
        o = v.ex.old
        return z3.And(zsame(v, 'tds.x0', o, 'tds.system.dae.x'), zsame(v, 'tds.y0', o, 'tds.system.dae.y'),
                      zsame(v, 'tds.f0', o, 'tds.system.dae.f'))

    def zsame(v, p, oldstate, q):
        a = v.arr(p)
        b = oldstate.content(oldstate.load(q))
        k = fresh('k', I)
        return z3.And(a.n == b.n, z3.ForAll([k], z3.Implies(z3.And(k >= 0, k < a.n),
                                                           z3.And(a.vals[k] == b.vals[k], a.nan_at(k) == b.nan_at(k)))))

    def post_restored(old, new, res):
        ok = z3.And(zsame(new, 'tds.system.dae.x', old.st, 'tds.system.dae.x'),
                    zsame(new, 'tds.system.dae.y', old.st, 'tds.system.dae.y'),
                    zsame(new, 'tds.system.dae.f', old.st, 'tds.system.dae.f'))
        return z3.Implies(z3.Not(to_b(res)), ok)

    def post_flag(old, new, res):
        return z3.Implies(old.z('tds.h') != 0,
                          z3.And(to_b(res) == new.z('tds.converged'), new.z('tds.last_converged') == to_b(res)))

    def post_small(old, new, res):
        if new.st.heap.get('tds.inc') is None:
            return z3.Not(to_b(res))
        inc = new.arr('tds.inc')
        k = fresh('k', I)
        tol = new.z('tds.config.tol')
        absv = lambda t: z3.If(t >= 0, t, -t)  # noqa
        small = z3.ForAll([k], z3.Implies(z3.And(k >= 0, k < inc.n), z3.And(z3.Not(inc.nan_at(k)), absv(inc.vals[k]) <= tol)))
        return z3.Implies(to_b(res), small)

    def post_h0(old, new, res):
        return z3.Implies(old.z('tds.h') == 0, z3.Not(to_b(res)))

    def as_r(x):
        from pyvc.symex import as_real
        return as_real(x).val

    loop_frame = ['tds.*', 'loc:tds.*', 'tds.system.dae.*', 'loc:tds.system.dae.*', 'tds.solver.worker.factorize',
                  '$reason', '$gxs', '$gys', '$inc', '$mis_arg', '$mis_inc', '$mis_qg_arg', '$mis_qg', '$mis', 'loc:*']
    loop_frame = [p for p in loop_frame]
    return Contract(
        FD, 'ImplicitIter.step', pid=pid, params={'tds': TObj()}, schema=sch,
        requires=[('sizes', lambda v: z3.And(v.z('tds.system.dae.n') >= 0, v.z('tds.system.dae.m') >= 0,
                                             v.z('tds.system.dae.n') + v.z('tds.system.dae.m') > 0,
                                             v.arr('tds.qg').n == v.z('tds.system.dae.n') + v.z('tds.system.dae.m'))),
                  ('tol-positive', lambda v: v.z('tds.config.tol') > 0),
                  ('max_iter-nonneg', lambda v: v.z('tds.config.max_iter') >= 0),
                  ('chatter-flag-clear-on-entry', lambda v: z3.Not(v.z('tds.chatter'))),
                  ('ghost:no-rebuild-pending-on-entry', lambda v: z3.Not(v.z('tds.jacobian_rebuilt_in_this_iteration')))],
        calls={
            'tds.fg_update': spec(modifies=FGUP, name='TDS.fg_update'),
            'tds.system.j_update': j_update_rebuilt,
            'tds.method.calc_jac': spec(returns=M.MatT, name='method.calc_jac'),
            'tds.method.calc_q': calc_q_h,
            'tds.solver.solve': mk_solve('Solver.solve'), 'tds.solver.linsolve': mk_solve('Solver.linsolve'),
            'matrix': matrix_h, '__binop__': M.binop,
            'tds.system.vars_to_models': spec(name='System.vars_to_models'),
            'tds.system.options.get': spec(returns=TInt(), name='options.get'),
            'tqdm.write': spec(name='tqdm.write'), 'tds._debug_g': spec(name='TDS._debug_g'),
            'tds._debug_ac': spec(name='TDS._debug_ac'),
            'np.where': where_h,
        },
        globals_={'matrix': Func('matrix'), 'tqdm': __import__('pyvc.symval', fromlist=['Module']).Module('tqdm')},
        loops={0: Loop(inv=[('x0,y0,f0-hold-the-values-at-step-entry', inv_snapshot),
                            ('not-converged-inside-loop', lambda v: z3.Not(v.z('tds.converged'))),
                            ('niter-nonneg', lambda v: v.z('tds.niter') >= 0),
                            ('sizes-kept', lambda v: z3.And(
                                v.arr('tds.qg').n == v.z('tds.system.dae.n') + v.z('tds.system.dae.m'),
                                v.arr('tds.mis').n >= 1, v.arr('tds.mis_inc').n >= 1)),
                            ('chatter-clear-at-loop-head', lambda v: z3.Not(v.z('tds.chatter'))),
                            ('ghost:no-rebuild-pending-at-loop-head', lambda v: z3.Not(v.z('tds.jacobian_rebuilt_in_this_iteration')))],
                       frame=['tds.niter', 'tds.converged', 'tds.busted', 'tds.chatter', 'tds.err_msg', 'tds.Ac', 'tds.inc',
                              'loc:tds.qg', 'loc:tds.mis', 'loc:tds.mis_inc', 'loc:tds.system.dae.x', 'loc:tds.system.dae.y',
                              'loc:tds.system.dae.f', 'loc:tds.system.dae.g', 'tds.system.dae.fx', 'tds.system.dae.fy',
                              'tds.system.dae.gx', 'tds.system.dae.gy', 'tds.solver.worker.factorize', 'tds.jacobian_rebuilt_in_this_iteration',
                              '$reason', '$gxs', '$gys', '$inc', '$mis_arg', '$mis_inc', '$mis_qg_arg', '$mis_qg', '$mis']),
               1: Loop(summary=aw_summary)},
        ensures=[('returns-converged-flag-and-records-it', post_flag),
                 ('failure=>x,y,f-restored-to-step-entry-values', post_restored),
                 ('success=>last-correction-within-tol-and-not-NaN', post_small),
                 ('zero-step=>refused', post_h0)],
        modifies=['tds.*', 'tds.system.dae.*', 'tds.solver.worker.factorize'],
        drop=drop,
    )


# ================================================================================================ TDS.run
def run_schema():
    sch = tds_schema()
    sch.update({
        'self.system.PFlow.converged': TBool(), 'self.system.exit_code': TInt(), 'self.from_csv': TOptional(TStr()),
        'self.initialized': TBool(), 'self.test_ok': TOptional(TBool()), 'self.callpert': TOptional(TOpaque('Callable')),
        'self.config.no_tqdm': TBool(), 'self.last_pc': TReal(), 'self.qrt_start': TReal(), 'self.headroom': TReal(),
        'self.system.files.no_output': TBool(), 'self.system.files.lst': TStr(), 'self.system.files.npz': TStr(),
        'self.system.config.save_stats': TBool(), 'self.config.save_every': TInt(), 'self.system.dae.kcount': TInt(),
        'self.config.limit_store': TBool(), 'self.config.max_store': TInt(), 'self.system.dae.ts._ys': TSeq(),
        'self.config.qrt': TBool(), 'self.config.kqrt': TReal(), 'self.exec_time': TReal(), 'self.config.save_mode': TStr(),
        'self.system.config.dime_enabled': TBool(), 'self.pbar': TOptional(TOpaque('PBar')),
        'self.last_converged': TBool(),
    })
    return sch


CALC_H_MOD = ['self.h', 'self.deltat', 'self.deltatmin', 'self.deltatmax', 'self.config.fixt', 'self.busted',
              'self.err_msg', 'self.chatter', 'self._switch_idx', 'self.k_csv']


def step_size_inv(v):
    return z3.And(inv_fixt(v), v.z('self.deltat') >= 0, v.z('self.deltatmin') >= 0,
                  v.z('self.deltatmin') <= v.z('self.deltatmax'), v.z('self.config.tstep') > 0)


def event_inv(v):
    idx, n = v.z('self._switch_idx'), v.z('self.system.n_switches')
    return z3.And(switch_times_wf(v), idx >= 0, idx <= n,
                  z3.Implies(idx < n, v.z('self.system.dae.t') <= st_at(v, idx)))


def calc_h_call_spec(resume=False):
    """contract of TDS.calc_h as discharged above (the F10 clause in the form that holds outside the witness)"""
    def post(old, new, res, args, kw):
        idx0, idx1, n = old.z('self._switch_idx'), new.z('self._switch_idx'), new.z('self.system.n_switches')
        t = new.z('self.system.dae.t')
        skip = z3.And(idx0 < n, old.z('self.system.dae.t') == st_at(old, idx0), idx1 == idx0 + 1) if not resume else False
        return z3.And(new.z('self.h') >= 0, t + new.z('self.h') <= new.z('self.config.tf'),
                      z3.Implies(idx1 < n, t + new.z('self.h') <= st_at(new, idx1)),
                      z3.Implies(new.z('self.config.fixt'), new.z('self.h') <= new.z('self.config.tstep')),
                      step_size_inv(new), z3.Or(idx1 == idx0, skip), idx1 <= n,
                      new.z('self.config.tstep') == old.z('self.config.tstep'),
                      z3.Implies(old.z('self.busted'), new.z('self.busted')))
    return spec(
        requires=[('no-csv-replay', lambda v, a, k: v.isnone('self.data_csv')),
                  ('event-invariant', lambda v, a, k: event_inv(v)),
                  ('t<=tf', lambda v, a, k: v.z('self.system.dae.t') <= v.z('self.config.tf')),
                  ('step-size-invariant', lambda v, a, k: step_size_inv(v))],
        modifies=CALC_H_MOD, returns=TReal(), ensures=[post], name='TDS.calc_h')


def run(pid, drop=()):
    """TDS.run: gate on power flow; loop invariant on time / event index / step-size state; success <=> reached tf and
    not busted."""
    sch = run_schema()
    ghost0 = {'fired': 0, 'stored': False}

    def store_h(ex, st, args, kw, node):
        # a row is the state of an accepted step: DAE.store is called inside an iteration of the stepping loop, after a step that
        # converged, while dae.t is still the time that step integrated to -- never once more after the loop
        stt = st.ghost.get('status')
        ok = z3.BoolVal(False) if (not st.ghost.get('in_iter') or stt is None) else z3.And(stt if z3.is_expr(stt) else z3.BoolVal(bool(stt)),
                                                                                       st.load('self.system.dae.t').val == st.ghost['t_head'])
        ex.oblige(st, 'pre@call:DAE.store:only-for-an-accepted-step,at-the-time-it-integrated-to', ok, {})
        st.ghost['stored'] = True
        return None

    def streaming_h(ex, st, args, kw, node):
        # reached right after the storage arm of an accepted step: one row stored iff the thinning rule says so
        se, kc = st.load('self.config.save_every'), st.load('self.system.dae.kcount')
        want = z3.Or(se == 1, z3.And(se != 0, se != 1, kc % se == 0))
        ex.oblige(st, 'pre@call:streaming_step:row-stored-iff-save_every==1-or-kcount-divisible-by-save_every',
                  to_b(st.ghost['stored']) == want, {})
        return None

    def do_switch_post(old, new, res, args, kw):
        idx, n = old.z('self._switch_idx'), old.z('self.system.n_switches')
        hit = z3.And(idx < n, old.z('self.system.dae.t') == st_at(old, idx))
        return z3.And(new.z('self._switch_idx') == idx + z3.If(hit, 1, 0), to_b(res) == hit)

    def do_switch_h(ex, st, args, kw, node):
        h = spec(requires=[('no-refresh', lambda v, a, k: z3.Not(v.z('self.config.refresh_event'))),
                           ('no-custom-event', lambda v, a, k: z3.Not(v.z('self.custom_event'))),
                           ('event-invariant', lambda v, a, k: event_inv(v))],
                 modifies=['self._switch_idx', 'self._last_switch_t', 'self.custom_event'], returns=TBool(),
                 ensures=[do_switch_post, lambda o, nw, r, a, k: z3.Not(nw.z('self.custom_event'))], name='TDS.do_switch')
        idx0 = st.load('self._switch_idx')
        r = h(ex, st, args, kw, node)
        st.ghost['fired'] = st.ghost['fired'] + (st.load('self._switch_idx') - idx0)
        return r

    def init_post(old, new, res, args, kw):
        return z3.And(new.z('self.system.dae.t') == 0, new.z('self.h') >= 0,
                      new.z('self.system.dae.t') + new.z('self.h') <= new.z('self.config.tf'),
                      event_inv(new), step_size_inv(new), new.z('self._switch_idx') >= 0,
                      z3.Implies(new.z('self._switch_idx') < new.z('self.system.n_switches'),
                                 new.z('self.system.dae.t') + new.z('self.h') <= st_at(new, new.z('self._switch_idx'))),
                      new.isnone('self.data_csv') == old.isnone('self.data_csv'),
                      z3.Not(new.z('self.config.refresh_event')) == z3.Not(old.z('self.config.refresh_event')),
                      z3.Not(new.z('self.custom_event')), new.z('self.config.tf') == old.z('self.config.tf'))

    def init_resume_post(old, new, res, args, kw):
        return z3.And(new.z('self.h') >= 0, new.z('self.system.dae.t') == old.z('self.system.dae.t') + new.z('self.h'),
                      new.z('self.system.dae.t') <= new.z('self.config.tf'), step_size_inv(new),
                      new.z('self._switch_idx') == old.z('self._switch_idx'),
                      z3.Implies(new.z('self._switch_idx') < new.z('self.system.n_switches'),
                                 new.z('self.system.dae.t') <= st_at(new, new.z('self._switch_idx'))))

    def options_get(ex, st, args, kw, node):
        key = args[0]
        if key == 'init':
            return st.load('self.system.options.init')
        if key == 'from_csv':
            return MaybeNone(z3.BoolVal(True), None)      # precondition: no csv replay requested
        raise Unsupported('options.get(%r)' % (key,))
    sch['self.system.options.init'] = TBool()

    def itm_step_post(old, new, res, args, kw):
        return z3.And(to_b(res) == new.z('self.converged'), z3.Implies(old.z('self.busted'), new.z('self.busted')))

    STEP_MOD = ['self.niter', 'self.converged', 'self.last_converged', 'self.busted', 'self.chatter', 'self.err_msg',
                'self.system.dae.x', 'self.system.dae.y', 'self.system.dae.f', 'self.system.dae.g']

    def loop_inv(v):
        return z3.And(v.z('self.h') >= 0, v.z('self.system.dae.t') <= v.z('self.config.tf'), event_inv(v), step_size_inv(v),
                      v.isnone('self.data_csv'), z3.Not(v.z('self.config.refresh_event')), z3.Not(v.z('self.custom_event')),
                      v.isnone('self.callpert'))

    def fired_inv(v):
        # ghost: every index below _switch_idx was consumed either by a dispatch or by the (F10) skip in calc_h
        return v.st.ghost['fired'] <= v.z('self._switch_idx')

    def post_gate(old, new, res):
        return z3.Implies(z3.Not(old.z('self.system.PFlow.converged')),
                          z3.And(z3.Not(to_b(res)), new.z('self.system.exit_code') == old.z('self.system.exit_code') + 1))

    def post_success(old, new, res):
        init_only = new.z('self.system.options.init')
        return z3.Implies(z3.And(to_b(res), z3.Not(init_only)),
                          z3.And(z3.Not(new.z('self.busted')), new.z('self.system.dae.t') == new.z('self.config.tf')))

    def post_busted(old, new, res):
        init_only = new.z('self.system.options.init')
        return z3.Implies(z3.And(new.z('self.busted'), z3.Not(init_only), old.z('self.system.PFlow.converged')),
                          z3.And(z3.Not(to_b(res)), new.z('self.system.exit_code') >= old.z('self.system.exit_code') + 1))

    def post_exit_code(old, new, res):
        init_only = new.z('self.system.options.init')
        return z3.Implies(z3.And(z3.Not(to_b(res)), z3.Not(init_only)),
                          new.z('self.system.exit_code') >= old.z('self.system.exit_code') + 1)

    def post_resumable(old, new, res):
        # C14 hand-over: the state left by a run that did not bust satisfies the resume precondition of the next run
        init_only = new.z('self.system.options.init')
        return z3.Implies(z3.And(to_b(res), z3.Not(init_only)),
                          z3.And(event_inv(new), step_size_inv(new), new.z('self.system.dae.t') == new.z('self.config.tf')))

    def post_test_ok(old, new, res):
        t = new.get('self.test_ok')
        failed = z3.And(z3.Not(t.isnone), z3.Not(t.value))
        return z3.Implies(to_b(res), z3.Not(failed))

    _itm = spec(modifies=STEP_MOD + ['loc:self.system.dae.*'], returns=TBool(), ensures=[itm_step_post], name='TDS.itm_step')

    def itm_step_recorded(ex, st, args, kw, node):
        r = _itm(ex, st, args, kw, node)
        st.ghost['status'] = r
        return r

    def snap_time(v):
        v.st.ghost['t_head'] = v.z('self.system.dae.t')
        v.st.ghost['h_head'] = v.z('self.h')
        v.st.ghost['status'] = None
        v.st.ghost['in_iter'] = True
        return True

    def time_bookkeeping(v):
        # dae.t - h is the time of the last accepted state: an accepted step moves it to the time just integrated to, a rejected step
        # leaves it where it was (the retried step starts from the same instant with the new h)
        g = v.st.ghost
        if not g.get('in_iter') or g.get('status') is None:
            return True
        stt = g['status']
        stt = stt if z3.is_expr(stt) else z3.BoolVal(bool(stt))
        return (v.z('self.system.dae.t') - v.z('self.h')) == z3.If(stt, g['t_head'], g['t_head'] - g['h_head'])

    return Contract(
        F, 'TDS.run', pid=pid, params={'self': TObj(), 'no_summary': TBool(), 'from_csv': TConst(None)}, schema=sch,
        requires=[('no-csv-replay', lambda v: v.isnone('self.data_csv')),
                  ('no-perturbation-file', lambda v: v.isnone('self.callpert')),
                  ('no-refresh', lambda v: z3.Not(v.z('self.config.refresh_event'))),
                  ('no-custom-event', lambda v: z3.Not(v.z('self.custom_event'))),
                  ('exit-code-nonneg', lambda v: v.z('self.system.exit_code') >= 0),
                  # state left by a previous run() / init(): needed on the resume branch (C14 hand-over)
                  ('resume-state', lambda v: z3.Implies(v.z('self.system.dae.t') >= 0,
                                                        z3.And(event_inv(v), step_size_inv(v),
                                                               v.z('self.system.dae.t') <= v.z('self.config.tf')))),
                  ('tstep-positive', lambda v: v.z('self.config.tstep') > 0),
                  ('save_every-nonneg', lambda v: v.z('self.config.save_every') >= 0)],
        ghost_init=ghost0,
        calls={
            'self.summary': spec(name='TDS.summary'),
            'self.system.options.get': options_get,
            'self._load_csv': spec(returns=TNone(), name='TDS._load_csv'),
            'self.init': spec(modifies=['self.*', 'self.system.dae.*', 'loc:self.system.dae.*', 'self.system.n_switches',
                                        'loc:self.system.switch_times', 'self.system.exit_code'],
                              ensures=[init_post,
                                       lambda o, nw, r, a, k: nw.z('self.system.exit_code') >= o.z('self.system.exit_code'),
                                       lambda o, nw, r, a, k: nw.isnone('self.callpert')],
                              name='TDS.init'),
            'self.init_resume': spec(requires=[('event-invariant', lambda v, a, k: event_inv(v)),
                                               ('step-size-invariant', lambda v, a, k: step_size_inv(v)),
                                               ('t<=tf', lambda v, a, k: v.z('self.system.dae.t') <= v.z('self.config.tf'))],
                                     modifies=['self.h', 'self.deltat', 'self.deltatmin', 'self.deltatmax', 'self.config.fixt',
                                               'self.busted', 'self.err_msg', 'self.chatter', 'self.system.dae.t'],
                                     ensures=[init_resume_post], name='TDS.init_resume'),
            'is_notebook': spec(returns=TBool(), name='is_notebook'), 'is_interactive': spec(returns=TBool(), name='is_interactive'),
            'tqdm_nb': spec(returns=TOpaque('PBar'), name='tqdm_nb'), 'tqdm': spec(returns=TOpaque('PBar'), name='tqdm'),
            '<value>.update': spec(name='pbar.update'), '<value>.close': spec(name='pbar.close'),
            'time.time': spec(returns=TReal(), name='time.time'), 'time.sleep': spec(name='time.sleep'),
            'self.system.dae.write_lst': spec(name='DAE.write_lst'),
            'elapsed': spec(returns=(NR(z3.Real('t_elapsed')), 'elapsed-str'), name='elapsed'),
            'self.itm_step': itm_step_recorded,
            'self._csv_step': spec(returns=TBool(), name='TDS._csv_step'),
            'self.call_stats.append': spec(name='call_stats.append'),
            'self.system.dae.store': store_h,
            'self.save_output': spec(name='TDS.save_output'), 'self.system.dae.ts.reset': spec(name='DAETimeSeries.reset'),
            'self.streaming_step': streaming_h,
            'self.check_criteria': spec(returns=TBool(), name='TDS.check_criteria'),
            'self.do_switch': do_switch_h,
            'self.calc_h': calc_h_call_spec(),
            'self.system.dae.ts.unpack': spec(name='DAETimeSeries.unpack'),
            'self.system.streaming.finalize': spec(name='streaming.finalize'),
            'self.load_plotter': spec(name='TDS.load_plotter'),
        },
        globals_={'is_notebook': Func('is_notebook'), 'is_interactive': Func('is_interactive'), 'tqdm_nb': Func('tqdm_nb'),
                  'tqdm': Func('tqdm'), 'elapsed': Func('elapsed'),
                  'time': __import__('pyvc.symval', fromlist=['Module']).Module('time'),
                  'sys': __import__('pyvc.symval', fromlist=['Module']).Module('sys')},
        loops={0: Loop(inv=[('time/event/step-size-invariant', loop_inv), ('dispatch-count-bounded-by-index', fired_inv),
                            ('exit-code-never-decreases',
                             lambda v: v.z('self.system.exit_code') >= v.ex.old.load('self.system.exit_code')),
                            ('t-h-is-the-time-of-the-last-accepted-state(accepted:moves-on;rejected:stays)', time_bookkeeping)],
                       assume=[('snapshot-of-time-and-step', snap_time)],
                       frame=['self.*', 'self.system.dae.*', 'loc:self.system.dae.*', 'self.system.exit_code',
                              '$step_status', '$perc', '$perc_diff', '$rt_end', '$t_overrun']),
               1: Loop(inv=[], frame=[])},
        ensures=[('power-flow-gate', post_gate), ('success=>reached-tf-and-not-busted', post_success),
                 ('busted=>failure-and-exit-code', post_busted), ('failure=>exit-code-nonzero', post_exit_code),
                 ('success=>initialisation-test-not-failed', post_test_ok),
                 ('state-left-fits-the-resume-precondition', post_resumable)],
        modifies=['self.*', 'self.system.dae.*', 'self.system.exit_code', 'self.system.n_switches', 'self.system.switch_times'],
        drop=drop,
    )


WIT_F18 = {'F18': lambda old, new: z3.And(z3.Not(new.get('self.test_ok').isnone), z3.Not(new.get('self.test_ok').value))}
WIT_F9 = {'F9': lambda old, new: new.z('tds.chatter')}


# ================================================================================================ native replays
def replay_step(bname, model, meta):
    """F9-style witness on the real ImplicitIter.step: a stub tds whose solver returns alternating increments
    (+d, -d, ...) with |d| > tol; the real function accepts the step through chatter detection."""
    if 'last-correction-within-tol' not in bname:
        return None
    import numpy as np
    from andes.routines.daeint import Trapezoid

    class NS:
        pass
    tds = NS()
    tds.system = NS()
    dae = tds.system.dae = NS()
    dae.n, dae.m, dae.t = 1, 1, np.array(1.0)
    dae.x, dae.y, dae.f, dae.g = np.zeros(1), np.zeros(1), np.zeros(1), np.zeros(1)
    dae.Tf = np.ones(1)
    dae.gx = dae.gy = dae.fx = dae.fy = None
    dae.xy_name = ['x0', 'y0']
    tds.system.exist = NS()
    tds.system.exist.pflow_tds = {}
    tds.system.antiwindups = []
    tds.system.options = {}
    tds.system.j_update = lambda **k: None
    tds.system.vars_to_models = lambda: None
    tds.h = 0.01
    tds.x0, tds.y0, tds.f0 = np.zeros(1), np.zeros(1), np.zeros(1)
    tds.qg = np.zeros(2)
    tds.config = NS()
    tds.config.honest, tds.config.g_scale, tds.config.linsolve, tds.config.reset_tiny = 0, 0, 0, 0
    tds.config.max_iter, tds.config.tol, tds.config.chatter_iter = 15, 1e-4, 4
    tds.custom_event, tds.last_converged, tds._last_switch_t = False, True, -999.0
    tds.chatter, tds.busted, tds.tol_zero = False, False, 1e-12
    tds.fg_update = lambda models: None
    tds.method = NS()
    tds.method.calc_jac = lambda t, a, b: None
    tds.method.calc_q = Trapezoid.calc_q
    seq = {'k': 0}

    def solve(A, b):
        seq['k'] += 1
        d = 0.5 if seq['k'] % 2 else -0.5
        return np.array([[d], [d]])
    tds.solver = NS()
    tds.solver.worker = NS()
    tds.solver.solve = solve
    import andes.routines.daeint as D
    saved = D.matrix
    D.matrix = lambda a: a
    try:
        ok = Trapezoid.step(tds)
    finally:
        D.matrix = saved
    last = float(np.max(np.abs(tds.inc)))
    return {'confirmed': bool(ok and last > tds.config.tol), 'returned': bool(ok), 'last_correction_inf_norm': last,
            'tol': tds.config.tol, 'chatter_flag': bool(tds.chatter), 'niter': tds.niter,
            'native_cmd': 'Trapezoid.step(stub tds with solver increments +0.5,-0.5,...)'}


def replay_calc_h(bname, model, meta):
    """F10-style witness on the real TDS.calc_h: an event scheduled at the current time is skipped."""
    if 'event-index-only-moved' not in bname:
        return replay_calc_h_general()
    from andes.routines.tds import TDS
    import numpy as np

    class NS:
        pass
    self = NS()
    self.system = NS()
    self.system.dae = NS()
    self.system.dae.t = np.array(0.0)
    self.system.dae.n = 0
    self.system.config = NS()
    self.system.config.freq = 60.0
    self.system.n_switches = 1
    self.system.switch_times = np.array([0.0])
    self.config = NS()
    self.config.fixt, self.config.shrinkt, self.config.tstep, self.config.tf, self.config.t0 = 1, 1, 1 / 30, 1.0, 0.0
    self.niter, self.converged, self.busted, self.chatter = 0, False, False, False
    self.deltat = self.deltatmin = self.deltatmax = 0.0
    self._switch_idx = 0
    self.data_csv = None
    self._calc_h_first = lambda: TDS._calc_h_first(self)
    h = TDS.calc_h(self)
    return {'confirmed': self._switch_idx == 1, 'switch_idx_after': self._switch_idx, 'h': float(h),
            'native_cmd': 'TDS.calc_h(stub) with switch_times=[0.0], dae.t=0.0: index advanced without do_switch'}


def replay_run(bname, model, meta):
    """F18 witness on the real code: kundur_full with a governor limit that makes initialisation fail; TDS.run still
    returns True."""
    if 'initialisation-test-not-failed' not in bname:
        return None
    import logging
    import andes
    logging.getLogger('andes').setLevel(logging.CRITICAL)
    ss = andes.load(andes.get_case('kundur/kundur_full.xlsx'), default_config=True, no_output=True)
    ss.PFlow.run()
    ss.TGOV1.alter('VMAX', ss.TGOV1.idx.v[0], 0.1)
    ss.TDS.config.tf = 0.1
    ss.TDS.config.no_tqdm = 1
    r = ss.TDS.run()
    return {'confirmed': bool(r is True and ss.TDS.test_ok is False), 'returned': bool(r), 'test_ok': ss.TDS.test_ok,
            'exit_code': int(ss.exit_code),
            'native_cmd': 'kundur_full: PFlow.run(); TGOV1.alter(VMAX, idx0, 0.1); TDS.run(tf=0.1)'}


# ================================================================================================ C05: test_init / init
def test_init(pid):
    """TDS.test_init: True iff every residual entry (after zeroing the no-check states) is a number with magnitude below tol;
    a failed test raises the exit code."""
    N, M, NC = fresh('N', I), fresh('M', I), fresh('NC', I)
    from pyvc.symval import ArrC

    def fg_prop(ex, st):
        f, g = st.content(st.load('self.system.dae.f')), st.content(st.load('self.system.dae.g'))
        k = fresh('k', I)
        FG = fresh('fg', z3.ArraySort(I, R))
        FGN = fresh('fg.nans', z3.ArraySort(I, z3.BoolSort()))
        # concatenation, stated as two families of equations (instantiation-friendly)
        st.assume(z3.ForAll([k], z3.Implies(z3.And(k >= 0, k < f.n), z3.And(FG[k] == f.vals[k], FGN[k] == f.nan_at(k)))))
        st.assume(z3.ForAll([k], z3.Implies(z3.And(k >= 0, k < g.n), z3.And(FG[f.n + k] == g.vals[k], FGN[f.n + k] == g.nan_at(k)))))
        st.assume(z3.ForAll([k], z3.Implies(z3.And(k >= f.n, k < f.n + g.n), z3.And(FG[k] == g.vals[k - f.n], FGN[k] == g.nan_at(k - f.n)))))
        return st.new_ref(ArrC(FG, f.n + g.n, FGN), 'fg')

    def ok_all(old, new):
        f, g, nc = old.arr('self.system.dae.f'), old.arr('self.system.dae.g'), old.arr('self.system.no_check_init')
        tol = old.z('self.config.tol')
        k, j = fresh('k', I), fresh('j', I)
        a = lambda t: z3.If(t >= 0, t, -t)  # noqa
        HIT = new.st.ghost.get('last_scatter')      # "k is listed in no_check_init" (defined by the store contract)
        skipped = (lambda kk: HIT(kk)) if HIT is not None else (lambda kk: z3.BoolVal(False))  # noqa
        okf = z3.ForAll([k], z3.Implies(z3.And(k >= 0, k < N, z3.Not(skipped(k))), z3.And(z3.Not(f.nan_at(k)), a(f.vals[k]) < tol)))
        okg = z3.ForAll([k], z3.Implies(z3.And(k >= 0, k < M), z3.And(z3.Not(g.nan_at(k)), a(g.vals[k]) < tol)))
        return z3.And(okf, okg)

    def post(old, new, res):
        return z3.Implies(z3.And(N + M > 0, to_b(res)), ok_all(old, new))

    def post_conv(old, new, res):
        return z3.Implies(z3.And(N + M > 0, ok_all(old, new)), to_b(res))

    def post_exit(old, new, res):
        return z3.Implies(z3.Not(to_b(res)), new.z('self.system.exit_code') == old.z('self.system.exit_code') + 1)
    c = Contract(F, 'TDS.test_init', pid=pid, params={'self': TObj()},
                 schema={'self.system.dae.f': TArr(nan=True, n=N), 'self.system.dae.g': TArr(nan=True, n=M),
                         'self.system.no_check_init': TArr(n=NC, kind='int'), 'self.config.tol': TReal(),
                         'self.system.config.warn_limits': TConst(0), 'self.system.exit_code': TInt(),
                         'self.system.exist.pflow_tds': Models, 'self.system.dae.xy_name': TSeq(elem=TStr.sort),
                         'self.system.dae.xy': TArr()},
                 requires=[('sizes', lambda v: z3.And(N >= 0, M >= 0, NC >= 0, v.z('self.config.tol') > 0)),
                           ('no-check-addresses-in-range', lambda v: z3.ForAll([JQ], z3.Implies(z3.And(JQ >= 0, JQ < NC), z3.And(
                               v.arr('self.system.no_check_init').vals[JQ] >= 0, z3.ToInt(v.arr('self.system.no_check_init').vals[JQ]) < N))))],
                 calls={'self.system.j_update': spec(name='System.j_update'),
                        'self.system.options.get': lambda ex, st, a, k, n: 0},
                 ensures=[('True=>every-checked-residual-is-a-number-below-tol', post),
                          ('every-checked-residual-fine=>True', post_conv), ('failure=>exit-code+1', post_exit)],
                 modifies=['self.system.dae.f', 'self.system.exit_code'])
    c.properties = {'self.system.dae.fg': fg_prop}
    c.skip_calls = ('Tab', 'tab.draw', 'np.hstack', 'np.ravel', 'np.where', 'list', 'zip', 'breakpoint')
    c.skip_locals = ('fail_idx', 'nan_idx', 'bad_idx', 'fail_names', 'nan_names', 'bad_names', 'title', 'err_data', 'tab')
    c.check_bounds = False
    return c


JQ = z3.Int('jq')


def replay_test_init(obligation, model, meta):
    """native run of the real TDS.test_init on kundur_full with the residual vector overwritten: all zero -> True; one entry
    above tol -> False; one NaN entry (everything else zero) -> False"""
    import contextlib
    import io
    import logging
    import numpy as np
    import andes
    logging.getLogger('andes').setLevel(logging.CRITICAL)
    ss = andes.load(andes.get_case('kundur/kundur_full.xlsx'), default_config=True, no_output=True)
    ss.PFlow.run()
    with contextlib.redirect_stdout(io.StringIO()):
        ss.TDS.init()
    tol = ss.TDS.config.tol
    free = [i for i in range(ss.dae.n) if i not in set(np.ravel(ss.no_check_init).tolist())]
    for label, (where, val), want in (('all residuals zero', (None, 0.0), True), ('one g entry = 10*tol', ('g', 10 * tol), False),
                                      ('one f entry = -10*tol', ('f', -10 * tol), False), ('one g entry NaN', ('g', np.nan), False),
                                      ('one f entry NaN', ('f', np.nan), False)):
        ss.dae.f[:] = 0.0
        ss.dae.g[:] = 0.0
        if where == 'g':
            ss.dae.g[3] = val
        elif where == 'f':
            ss.dae.f[free[0]] = val
        with contextlib.redirect_stdout(io.StringIO()):
            got = ss.TDS.test_init()
        if bool(got) is not want or not isinstance(got, (bool, np.bool_)):
            return {'confirmed': True, 'inputs': {'case': 'kundur_full', 'residuals': label, 'tol': tol},
                    'observed': 'test_init() returned %r, expected %r' % (got, want),
                    'native_cmd': 'TDS.test_init() after overwriting dae.f / dae.g'}
    return {'confirmed': False, 'tried': 5}


def tds_init(pid):
    """TDS.init: the power-flow solution is copied into the leading slots of x and y before the dynamic models are addressed;
    the time is reset; the init test result is recorded; an already initialised TDS is left alone."""
    NX, NY, PX, PY = [fresh(n, I) for n in ('NX', 'NY', 'PX', 'PY')]

    def set_address(ex, st, args, kw, node):
        v = View(st, ex)
        x, y = v.arr('self.system.dae.x'), v.arr('self.system.dae.y')
        xs, ys = v.arr('self.system.PFlow.x_sol'), v.arr('self.system.PFlow.y_sol')
        k = fresh('k', I)
        ex.oblige(st, 'pre@call:System.set_address:x[:len(x_sol)]=x_sol,y[:len(y_sol)]=y_sol,t=0', z3.And(
            z3.ForAll([k], z3.Implies(z3.And(k >= 0, k < PX), x.vals[k] == xs.vals[k])),
            z3.ForAll([k], z3.Implies(z3.And(k >= 0, k < PY), y.vals[k] == ys.vals[k])), v.z('self.system.dae.t') == 0), {})
        return None

    def test_init_h(ex, st, args, kw, node):
        r = fresh('test_init', Bo)
        st.ghost['test'] = r
        return r

    def post(old, new, res):
        was = old.z('self.initialized')
        t = new.get('self.test_ok')
        tv = t.value if isinstance(t, MaybeNone) else t
        g = new.st.ghost.get('test')
        rec = z3.BoolVal(True) if g is None else z3.Implies(old.z('self.config.test_init'), to_z3_b(tv) == g)
        return z3.Implies(z3.Not(was), z3.And(new.z('self.initialized'), rec))

    def to_z3_b(x):
        return z3.BoolVal(x) if isinstance(x, bool) else x

    def store_switch_times_h(ex, st, args, kw, node):
        # callee contract (C06: System.store_switch_times): builds the schedule for the models passed
        ok = len(args) == 1 and args[0] is st.load('self.system.exist.tds')
        n = fresh('n_switches', I)
        st.assume(n >= 0)
        arr = st.new_ref(ArrC(fresh('switch_times', z3.ArraySort(I, R)), n, None), 'switch_times')
        st.store('self.system.switch_times', arr)
        st.store('self.system.n_switches', n)
        st.ghost['sched'] = (arr, st.content(arr), n, bool(ok))
        return arr

    def sched_kept(old, new, res):
        g = new.st.ghost.get('sched')
        if g is None:
            return old.z('self.initialized')
        arr, content, n, ok = g
        cur = new.get('self.system.switch_times')
        same = isinstance(cur, Ref) and cur.loc == arr.loc and new.st.content(cur) is content
        return z3.And(z3.BoolVal(bool(same and ok)), new.z('self.system.n_switches') == n)
    c = Contract(F, 'TDS.init', pid=pid, params={'self': TObj()},
                 schema={'self.initialized': TBool(), 'self.system.dae.x': TArr(nan=True, n=NX), 'self.system.dae.y': TArr(nan=True, n=NY),
                         'self.system.PFlow.x_sol': TArr(nan=True, n=PX), 'self.system.PFlow.y_sol': TArr(nan=True, n=PY),
                         'self.system.dae.t': TReal(), 'self.system.dae.xy': TArr(), 'self.system.exist.pflow_tds': Models,
                         'self.system.exist.tds': Models, 'self.data_csv': TOptional(TOpaque('CSV')), 'self.config.test_init': TBool(),
                         'self.test_ok': TOptional(TBool()), 'self.system.dae.Tf': TArr(), 'self.system.dae.n': TInt(),
                         'self.system.dae.m': TInt(), 'self.system.dae.f': TArr(nan=True), 'self.system.antiwindups': TOpaque('AW'),
                         'self.system.streaming.dimec': TOptional(TOpaque('Dimec')), 'self.system.config.dime_enabled': TBool(),
                         'self.Teye': TOpaque('Mat'), 'self.qg': TArr(), 'self.x0': TArr(), 'self.y0': TArr(), 'self.f0': TArr(),
                         'self.system.files.case': TStr(), 'self.system.switch_times': TArr(), 'self.system.n_switches': TInt(),
                         'self.config.tf': TReal(), 'self.config.t0': TReal()},
                 requires=[('solution-fits', lambda v: z3.And(PX >= 0, PY >= 0, PX <= NX, PY <= NY)),
                           ('no-csv', lambda v: v.isnone('self.data_csv'))],
                 ghost_init={'test': None, 'sched': None},
                 calls={'elapsed': spec(returns=(NR(z3.Real('t_el')), 's'), name='elapsed'), 'self.reset': spec(name='TDS.reset'),
                        'self._load_pert': spec(name='_load_pert'), 'self.system.set_address': set_address,
                        'self.system.set_dae_names': spec(name='set_dae_names'), 'self.system.set_output_subidx': spec(name='set_output_subidx'),
                        'self.system.dae.clear_ts': spec(name='clear_ts'), 'self.system.store_sparse_pattern': spec(name='store_sparse_pattern'),
                        'self.system.store_adder_setter': spec(name='store_adder_setter'),
                        'self.system.store_no_check_init': spec(name='store_no_check_init'),
                        'self.system.vars_to_models': spec(name='vars_to_models'),
                        'self.system.init': spec(modifies=['loc:self.system.dae.*'], name='System.init'),
                        'self.fg_update': spec(modifies=['loc:self.system.dae.*'], name='TDS.fg_update'),
                        'self.system.store_switch_times': store_switch_times_h,
                        'spdiag': lambda ex, st, a, k, n: Opaque(fresh('Teye', z3.DeclareSort('Mat'))),
                        'self.test_init': test_init_h, 'self.system.streaming.connect': spec(name='connect'),
                        'self.streaming_init': spec(name='streaming_init'), 'self.streaming_step': spec(name='streaming_step'),
                        'self.calc_h': spec(returns=TReal(), modifies=CALC_H_MOD, name='TDS.calc_h'),
                        'tqdm.write': spec(name='tqdm.write')},
                 globals_={'elapsed': Func('elapsed'), 'spdiag': Func('spdiag'),
                           'tqdm': __import__('pyvc.symval', fromlist=['Module']).Module('tqdm')},
                 loops={0: Loop(summary=lambda ex, st, node: [(st, None, None)])},
                 ensures=[('fresh-init=>initialized-set-and-test-result-recorded', post),
                          ('event-schedule-is-exactly-what-store_switch_times(exist.tds)-built(no-event-dropped-or-added)', sched_kept),
                          ('already-initialised=>nothing-redone', lambda old, new, res: z3.Implies(
                              old.z('self.initialized'), new.z('self.system.dae.t') == old.z('self.system.dae.t')))],
                 modifies=['self.*', 'self.system.dae.*', 'self.system.switch_times', 'self.system.n_switches'])
    c.check_bounds = False
    return c


def replay_itm_matrix(obligation=None, model=None, meta=None):
    """native: the matrix calc_jac returns is the derivative of the residual calc_q defines, for both methods (contracts/bounded_itm_matrix.py)"""
    from contracts import bounded_itm_matrix
    n, bad = bounded_itm_matrix.run()
    if bad:
        return {'confirmed': True, 'inputs': bad, 'observed': bad.get('observed'), 'native_cmd': 'contracts/bounded_itm_matrix.py'}
    return {'confirmed': False, 'tried': n}


replay_itm_matrix.real_system = True


def replay_calc_h_general(obligation=None, model=None, meta=None):
    """native run of the real TDS.calc_h on stub states: early and late event times (with their t -+ 1e-4 guard entries), the moment just
    after the pre-event guard was consumed, fixed and variable step: the step never passes the next pending entry or tf, is never negative,
    and the event index moves only past an entry that equals the current time (the listed finding F10)"""
    from andes.routines.tds import TDS
    import numpy as np

    class NS:
        pass
    n = 0
    eps = 1e-4
    for te in (0.5, 2.0, 9.5, 12.0, 15.25, 100.0):
        times = np.array([te - eps, te, te + eps, te + 5.0])
        for t_now, idx in ((te - eps, 1), (te - 0.02, 0), (te, 2), (te + eps, 3)):
            for fixt in (1, 0):
                n += 1
                self = NS()
                self.system = NS()
                self.system.dae = NS()
                self.system.dae.t = np.array(t_now)
                self.system.dae.n = 0
                self.system.config = NS()
                self.system.config.freq = 60.0
                self.system.n_switches = len(times)
                self.system.switch_times = times
                self.config = NS()
                self.config.fixt, self.config.shrinkt, self.config.tstep, self.config.tf, self.config.t0 = fixt, 1, 1 / 30, te + 20.0, 0.0
                self.niter, self.converged, self.busted, self.chatter = 3, True, False, False
                self.deltat, self.deltatmin, self.deltatmax = 1 / 30, 1 / 300, 1 / 15
                self.h = 1 / 30
                self._switch_idx = idx
                self.data_csv = None
                self._calc_h_first = lambda self=self: TDS._calc_h_first(self)
                h = float(TDS.calc_h(self))
                what = {'dae.t': t_now, 'switch_times': times.tolist(), '_switch_idx': idx, 'fixt': fixt, 'tstep': 1 / 30}
                nxt = times[idx] if idx < len(times) else None
                skipped_equal = nxt is not None and nxt == t_now          # F10: an entry at the current time is passed over
                if h < 0:
                    return {'confirmed': True, 'inputs': what, 'observed': 'negative step %r' % h, 'native_cmd': 'TDS.calc_h(stub)'}
                if self._switch_idx != idx + (1 if skipped_equal else 0):
                    return {'confirmed': True, 'inputs': what, 'observed': 'event index moved from %d to %d although the next entry (%r) is not the current time' % (idx, self._switch_idx, None if nxt is None else float(nxt)),
                            'native_cmd': 'TDS.calc_h(stub)'}
                pending = times[self._switch_idx] if self._switch_idx < len(times) else None
                if pending is not None and t_now + h > pending + 1e-12:
                    return {'confirmed': True, 'inputs': what, 'observed': 'step %r from t = %r passes the pending entry %r' % (h, t_now, float(pending)), 'native_cmd': 'TDS.calc_h(stub)'}
    return {'confirmed': False, 'tried': n}
