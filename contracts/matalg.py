"""Uninterpreted matrix algebra used by contracts over kvxopt / numpy matrices (ring-level reasoning only)."""
import ast

import z3

from pyvc.symex import as_real
from pyvc.symval import NR, Opaque, TOpaque, Unsupported, R

MatT = TOpaque('Mat')
Mat = MatT.sort
smul = z3.Function('smul', R, Mat, Mat)
madd = z3.Function('madd', Mat, Mat, Mat)
msub = z3.Function('msub', Mat, Mat, Mat)
mmul = z3.Function('mmul', Mat, Mat, Mat)
mneg = z3.Function('mneg', Mat, Mat)
colblocks = z3.Function('kvxopt.sparse[[a,b],[c,d]]', Mat, Mat, Mat, Mat, Mat)   # block columns [a;b], [c;d]
rowblocks = z3.Function('blockmatrix[[a,b],[c,d]]', Mat, Mat, Mat, Mat, Mat)     # rows (a b), (c d)


def is_mat(v):
    return isinstance(v, Opaque) and v.term.sort() == Mat


def binop(ex, st, args, kw, node):
    op, a, b = args
    if is_mat(a) and is_mat(b):
        f = {ast.Add: madd, ast.Sub: msub, ast.Mult: mmul}.get(type(op))
        if f is None:
            raise Unsupported('matrix op')
        return Opaque(f(a.term, b.term))
    if is_mat(b) and isinstance(op, ast.Mult):
        return Opaque(smul(as_real(a).val, b.term))
    if is_mat(a) and isinstance(op, ast.Mult):
        return Opaque(smul(as_real(b).val, a.term))
    raise Unsupported('matrix/scalar op %s' % type(op).__name__)


def sparse_blocks(ex, st, args, kw, node):
    """kvxopt.sparse([[a, b], [c, d]], tc): column-major block assembly (assumed contract of kvxopt)"""
    from pyvc.symval import Ref, ListC
    outer = st.content(args[0]).items
    cols = [st.content(c).items for c in outer]
    if len(cols) != 2 or any(len(c) != 2 for c in cols):
        raise Unsupported('sparse() shape')
    (a, b), (c, d) = cols
    return Opaque(colblocks(a.term, b.term, c.term, d.term))
