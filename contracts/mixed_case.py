"""
A deliberately heterogeneous variant of the stock Kundur case, built from kundur_full.json on every run (nothing is stored): the SynGen group
is served by two models in interleaved order (machine 2 is a classical GENCLS, without exciter), every machine has its own MVA rating, the
governor of machine 4 is a TGOV1N (same block and limiter names as TGOV1), one line and one load are given on foreign bases, and the
devices of the governor sheet are listed out of order.  Used as an additional input of several bounded stand-ins: the stock cases never
combine these features.
"""


def build(path, foreign_bases=True):
    import json
    import andes
    with open(andes.get_case('kundur/kundur_full.json')) as f:
        data = json.load(f)
    rating = {1: 900.0, 2: 600.0, 3: 800.0, 4: 700.0}
    genrou, gencls = [], []
    for row in data['GENROU']:
        old = float(row['Sn'])
        row['Sn'] = rating[row['idx']]
        # the machine data are per unit on the machine base: keep the physical machine by rescaling to the new base
        for k in ('M', 'D'):
            row[k] = row[k] * old / row['Sn']
        for k in ('ra', 'xl', 'xd', 'xq', 'xd1', 'xq1', 'xd2', 'xq2'):
            if k in row:
                row[k] = row[k] * row['Sn'] / old
        if row['idx'] == 2:
            keep = ('idx', 'u', 'name', 'bus', 'gen', 'coi', 'coi2', 'Sn', 'Vn', 'fn', 'D', 'M', 'ra', 'xl', 'xd1', 'kp', 'kw', 'S10', 'S12', 'gammap', 'gammaq')
            cls = {k: row[k] for k in keep if k in row}
            cls['name'] = 'GENCLS_2'
            gencls.append(cls)
        else:
            genrou.append(row)
    data['GENROU'], data['GENCLS'] = genrou, gencls
    data['EXDC2'] = [r for r in data['EXDC2'] if r['syn'] != 2]
    gov = {r['syn']: r for r in data['TGOV1']}
    g4 = dict(gov.pop(4))
    g4['name'] = 'TGOV1N_4'
    g4['idx'] = 'TGOV1N_4'
    data['TGOV1N'] = [g4]
    data['TGOV1'] = [gov[i] for i in (1, 2, 3)]      # refers to GENROU, GENCLS, GENROU: interleaved between the two member models
    if foreign_bases:
        ln = data['Line'][2]
        sn, sb = 250.0, 100.0
        ln['Sn'] = sn
        for k in ('r', 'x'):
            ln[k] = ln[k] * sn / sb
        for k in ('b', 'g', 'b1', 'g1', 'b2', 'g2'):
            if k in ln:
                ln[k] = ln[k] * sb / sn
    with open(path, 'w') as f:
        json.dump(data, f)
    return path


_CACHE = {}


def resolve(case):
    """path of a stock case, or of the heterogeneous variant for the name 'mixed:kundur' (built once per process in a temporary directory
    that is removed at exit)"""
    import andes
    if not case.startswith('mixed:'):
        return andes.get_case(case)
    if case not in _CACHE:
        import atexit
        import os
        import shutil
        import tempfile
        tmp = tempfile.mkdtemp(prefix='verif_mixed_')
        atexit.register(shutil.rmtree, tmp, True)
        _CACHE[case] = build(os.path.join(tmp, 'kundur_mixed.json'))
    return _CACHE[case]
